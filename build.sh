#!/bin/sh
# Build the gosx engine offline with go1.27.0 (x/tools v0.50.0 from the module cache).
set -e
cd "$(dirname "$0")/engine"
export PATH=/opt/veriftools/go1.27.0/bin:$PATH GOFLAGS=-mod=mod GOPROXY=off GOSUMDB=off GOTOOLCHAIN=local
go build -o gosx .
