#!/usr/bin/env python3
"""Rebuilds the generated parts of DESIGN.md: section 0 (design-notes/status_section.md + seeded table from
seeded/*/meta.json), sections 5-7 (design-notes/findings_section.md, interface_section.md). Sections 1-4 and the
appendices (the original design text) are kept as they are in DESIGN.md."""
import json, os, re
V = os.path.dirname(os.path.dirname(os.path.abspath(__file__)))
D = os.path.join(V, "DESIGN.md")
s = open(D).read()

def trigger_of(path):
    """first paragraph under the SEEDED.md heading that describes the trigger"""
    if not os.path.exists(path):
        return "see SEEDED.md"
    lines = open(path).read().splitlines()
    for i, l in enumerate(lines):
        if l.startswith("#") and re.search(r"needed|rigger|manifest", l, re.I):
            para = []
            for m in lines[i + 1:]:
                if m.startswith("#"):
                    break
                if not m.strip():
                    if para and not para[-1].endswith(":"):
                        break
                    continue
                para.append(m.strip().lstrip("-* "))
            if para:
                return re.sub(r"\s+", " ", " ".join(para)).replace("|", "/").replace("`", "")
    return "see SEEDED.md"


def seeded_table():
    rows = []
    sd = os.path.join(V, "seeded")
    for name in sorted(os.listdir(sd)):
        mp = os.path.join(sd, name, "meta.json")
        if not os.path.exists(mp):
            continue
        m = json.load(open(mp))
        det = m.get("detected_by") if isinstance(m.get("detected_by"), dict) else {}
        q = det.get("quick", {})
        res = q.get("result", "not run")
        obl = ""
        if q.get("obligations"):
            mm = re.search(r'entry=(\S+) obligation="([^"]+)"', q["obligations"][0])
            if mm:
                obl = f"`{mm.group(1)}`: {mm.group(2)}"
        if m.get("status_on_repaired_tree") and res in ("missed", "superseded"):
            res = "superseded"
            obl = "no longer breaks the property after fix 9a902af (see meta.json)"
        needs = (m.get("needs_to_manifest") or "").replace("|", "/")
        if needs.startswith("see SEEDED.md"):
            needs = trigger_of(os.path.join(sd, name, "SEEDED.md"))
        rows.append(f"| `{name}` | {m.get('property','')} | {needs[:260]} | {res} | {obl} |")
    head = "| seeded change | property | needs, to manifest | quick check | caught by (entry: obligation) |\n|---|---|---|---|---|\n"
    return head + "\n".join(rows)

status = open(os.path.join(V, "design-notes", "status_section.md")).read().replace("SEEDED_TABLE", seeded_table())
findings = open(os.path.join(V, "design-notes", "findings_section.md")).read()
interface = open(os.path.join(V, "design-notes", "interface_section.md")).read()

SEP = "\n---------------------------------------------------------------------------------------------------\n\n"
# header + contents
head_end = s.index("## 1. What this family can reach here")
header = """# DESIGN — solver-based checking of the real OpenBao code

How each of the 20 given properties (`properties.jsonl`, fixed) is decided on this code base by *symbolic execution
of the real Go code with an SMT solver*, what is inside and outside each claim, and what it costs.

**Section 0 describes what is built and committed** (engine, 20 checks, findings, seeded changes) and is regenerated
by `tools/mkdesign.py`. Sections 1–4 are the design as written *before* any framework code existed (2026-09-24);
they are kept because they explain the reductions and models, but where they talk about plans ("will", "planned",
"probe") and where they disagree with section 0, **section 0 and sections 5–7 are right**.

Contents

0. Status — what is built, per-property coverage, validation, seeded changes
1. What this family can reach here, and what it cannot
2. The engine (`gosx`): Go SSA → symbolic execution → SMT-LIB2
3. Shared harness models (ideal AEAD, ideal hash, KV store with faults, boxes, clock, locks)
4. Per-property designs C01 … C20 (original design text)
5. Findings, fixes, false alarms
6. Interface (as built)
7. Remaining work, risks
Appendices A–D: design-time notes (historical)
"""
rest = s[head_end:]
# cut old sections 5,6,7 out of rest; keep 1-4 and appendices
i5 = rest.index("## 5. Findings, fixes, false alarms")
iA = rest.index("## Appendix A")
body14 = rest[:i5].rstrip()
if body14.endswith("-" * 20):
    body14 = body14[: body14.rstrip("-").__len__()].rstrip()
body14 = re.sub(r"\n-{20,}\s*$", "", body14)
apps = rest[iA:]
out = header + SEP + status.rstrip() + "\n" + SEP + body14 + "\n" + SEP + findings.rstrip() + "\n" + SEP + interface.rstrip() + "\n" + SEP + apps
open(D, "w").write(out)
print("DESIGN.md rebuilt:", len(out.splitlines()), "lines")
