#!/bin/bash
# confirm_seed.sh <id> <worktree> <module-subdir> <pkg> <demo-regex> [<existing-tests -run regex>]
# Confirms a seeded change: builds, existing tests of the package pass with it, demo fails with it, demo passes without it.
# Writes /verif/seeded/<id>/{patch.diff,demo_test.go,confirm.log}
set -u
id=$1; wt=$2; mod=$3; pkg=$4; demo=$5; runre=${6:-}
export GOFLAGS=-mod=mod GOPROXY=off GOSUMDB=off
out=/verif/seeded/$id; mkdir -p $out
cd $wt
git diff > $out/patch.diff
demofile=$(git ls-files --others --exclude-standard | grep zz_seeded_demo_test.go | head -1)
cp "$demofile" $out/demo_test.go
echo "$demofile" > $out/demo_path.txt
cp SEEDED.md $out/SEEDED.md 2>/dev/null
log=$out/confirm.log; : > $log
cd $wt/$mod
echo "## build with change" >> $log
go build ./... >> $log 2>&1; echo "build exit=$?" >> $log
echo "## existing tests with change: go test -vet=off -count=1 -skip TestSeededDemo ${runre:+-run $runre} $pkg" >> $log
go test -vet=off -count=1 -timeout 40m -skip "TestSeededDemo|TestZZSeeded${SKIP:+|$SKIP}" ${runre:+-run "$runre"} $pkg >> $log 2>&1; e1=$?; echo "existing exit=$e1" >> $log
echo "## demo with change (must fail)" >> $log
go test -vet=off -count=1 -run "$demo" $pkg 2>&1 | tail -15 >> $log; e2=${PIPESTATUS[0]}; echo "demo-with exit=$e2" >> $log
cd $wt; git apply -R $out/patch.diff   # (not git stash: the stash is shared between worktrees)
cd $wt/$mod
echo "## demo without change (must pass)" >> $log
go test -vet=off -count=1 -run "$demo" $pkg 2>&1 | tail -5 >> $log; e3=${PIPESTATUS[0]}; echo "demo-without exit=$e3" >> $log
cd $wt; git apply $out/patch.diff
if [ $e1 = 0 ] && [ $e2 != 0 ] && [ $e3 = 0 ]; then echo "CONFIRMED $id" >> $log; else echo "NOT-CONFIRMED $id e1=$e1 e2=$e2 e3=$e3" >> $log; fi
tail -1 $log
