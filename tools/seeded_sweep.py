#!/usr/bin/env python3
"""Run the checks against the seeded (sub-agent made) breaking changes.

  tools/seeded_sweep.py [--tier quick|thorough] [--apply] [name ...]

For each /verif/seeded/<name>/patch.diff: builds patched copies of the touched files in a scratch directory and runs
the property's check with those copies injected through the engine's -overlay flag (so /repo is never written and
several sweeps can run side by side). With --apply the patch is instead applied to /repo with `git apply`, the
registered command `./check <ID> <tier>` is run, and /repo is restored with `git checkout -- .` straight afterwards
(the faithful but exclusive way). Records the outcome in seeded/<name>/meta.json (detected_by) and prints a table.
A patch whose context no longer applies (e.g. because /repo has since been repaired at that spot) is reported as
'does-not-apply'."""
import json, os, re, subprocess, sys, tempfile, shutil, time

V = os.path.dirname(os.path.dirname(os.path.abspath(__file__)))
REPO = "/repo"

def touched(patch):
    return re.findall(r"^\+\+\+ b/(\S+)", open(patch).read(), re.M)

def harness_files(pid):
    d = os.path.join(V, "harness", pid)
    files = sorted(os.path.join(d, x) for x in os.listdir(d) if x.endswith(".go"))
    inc = os.path.join(d, "include.txt")
    if os.path.exists(inc):
        files += [os.path.normpath(os.path.join(d, l.strip())) for l in open(inc) if l.strip() and not l.startswith("#")]
    return files

def run_overlay(name, pid, tier, patch):
    tmp = tempfile.mkdtemp(prefix="vxseed")
    try:
        files = touched(patch)
        for f in files:
            os.makedirs(os.path.dirname(os.path.join(tmp, f)), exist_ok=True)
            if os.path.exists(os.path.join(REPO, f)):
                shutil.copy(os.path.join(REPO, f), os.path.join(tmp, f))
        r = subprocess.run(["patch", "-p1", "-s", "--no-backup-if-mismatch", "-d", tmp, "-i", patch], capture_output=True, text=True)
        if r.returncode != 0:
            return "does-not-apply", r.stdout.strip().splitlines()[-1:] , 0
        cmd = [os.path.join(V, "engine", "gosx"), "-id", pid, "-tier", tier, "-out", os.path.join(tmp, "out"),
               "-known", os.path.join(V, "known-findings.txt")]
        for f in files:
            if f.endswith("_test.go"):
                continue
            cmd += ["-overlay", f"{f}={os.path.join(tmp, f)}"]
        cmd += harness_files(pid)
        t0 = time.time()
        r = subprocess.run(cmd, capture_output=True, text=True, cwd=V)
        return classify(r), [l.strip() for l in r.stdout.splitlines() if l.startswith("  entry=")][:3], time.time() - t0
    finally:
        shutil.rmtree(tmp, ignore_errors=True)

def run_apply(name, pid, tier, patch):
    r = subprocess.run(["git", "-C", REPO, "apply", "--check", patch], capture_output=True, text=True)
    if r.returncode != 0:
        return "does-not-apply", [r.stderr.strip().splitlines()[-1] if r.stderr.strip() else ""], 0
    subprocess.run(["git", "-C", REPO, "apply", patch], check=True)
    try:
        t0 = time.time()
        r = subprocess.run([os.path.join(V, "check"), pid, tier], capture_output=True, text=True, cwd=V,
                           env=dict(os.environ, VERIF_EVIDENCE_DIR=tempfile.gettempdir()))
        return classify(r), [l.strip() for l in r.stdout.splitlines() if l.startswith("  entry=")][:3], time.time() - t0
    finally:
        subprocess.run(["git", "-C", REPO, "checkout", "--", "."], check=True)
        subprocess.run(["git", "-C", REPO, "clean", "-fdq", "--", "."], check=False)

def classify(r):
    if r.returncode == 1 and "VIOLATION property=" in r.stdout:
        return "caught"
    if r.returncode == 0:
        return "missed"
    return "inconclusive(exit=%d)" % r.returncode

def main():
    args = sys.argv[1:]
    tier = "quick"
    apply = False
    names = []
    while args:
        a = args.pop(0)
        if a == "--tier":
            tier = args.pop(0)
        elif a == "--apply":
            apply = True
        else:
            names.append(a)
    sd = os.path.join(V, "seeded")
    if not names:
        names = sorted(os.listdir(sd))
    rows = []
    for name in names:
        d = os.path.join(sd, name)
        patch = os.path.join(d, "patch.diff")
        if not os.path.exists(patch):
            continue
        mp = os.path.join(d, "meta.json")
        meta = json.load(open(mp)) if os.path.exists(mp) else {}
        pid = meta.get("property") or name.split("-")[0][:3]
        if not os.path.isdir(os.path.join(V, "harness", pid)):
            rows.append((name, pid, "no-check", [], 0)); continue
        res, viol, secs = (run_apply if apply else run_overlay)(name, pid, tier, patch)
        if res == "missed" and meta.get("status_on_repaired_tree"):
            res = "superseded"  # after a later fix: in /repo the change no longer breaks the property (see meta.json)
        rows.append((name, pid, res, viol, secs))
        meta.setdefault("property", pid)
        meta.setdefault("name", name)
        hist = meta.get("detected_by")
        if not isinstance(hist, dict):
            hist = {}
        hist[tier] = {"result": res, "obligations": viol, "how": "git apply + ./check" if apply else "engine -overlay of the patched files", "seconds": round(secs)}
        meta["detected_by"] = hist
        json.dump(meta, open(mp, "w"), indent=1)
        print(f"{name:40s} {pid} {tier:8s} {res:22s} {secs:5.0f}s {viol[0][:150] if viol else ''}", flush=True)
    bad = [r for r in rows if r[2] not in ("caught", "does-not-apply", "superseded")]
    print(f"\n{len(rows)} seeded changes: {sum(r[2]=='caught' for r in rows)} caught, {len(bad)} not caught: {[r[0] for r in bad]}")

if __name__ == "__main__":
    main()
