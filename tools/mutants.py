#!/usr/bin/env python3
"""Mutation smoke test: tools/mutants.py <ID> [tier] [from-to]   (from-to: only mutants numbered in that range)
Reads harness/<ID>/mutants.txt; each non-comment line:  <repo-relative file> ::: <old text> ::: <new text> [::: equivalent]
Builds a mutated copy of the file (first occurrence of <old text> replaced), runs the check with the copy injected
by overlay (never touching /repo) and expects exit 1 (VIOLATION). Lines marked 'equivalent' are expected to survive; 'occ=N' mutates the N-th occurrence of <old text>."""
import sys, os, subprocess, tempfile
V = os.path.dirname(os.path.dirname(os.path.abspath(__file__)))
pid = sys.argv[1]; tier = sys.argv[2] if len(sys.argv) > 2 else "quick"
spec = os.path.join(V, "harness", pid, "mutants.txt")
ok = True; n = 0
lo, hi = (1, 10**9) if len(sys.argv) < 4 else tuple(int(x) for x in (sys.argv[3].split("-") * 2)[:2])
for line in open(spec):
    line = line.rstrip("\n")
    if not line.strip() or line.startswith("#"): continue
    parts = [p.strip() for p in line.split(":::")]
    rel, old, new = parts[0], parts[1], parts[2]
    equiv = "equivalent" in parts[3:]
    occ = 1
    for x in parts[3:]:
        if x.startswith("occ="): occ = int(x[4:])
    src = open(os.path.join("/repo", rel)).read()
    old_u = old.encode().decode("unicode_escape"); new_u = new.encode().decode("unicode_escape")
    if old_u not in src:
        print(f"MUTANT-SPEC-STALE {rel}: text not found: {old!r}"); ok = False; continue
    n += 1
    if n < lo or n > hi: continue
    d = tempfile.mkdtemp(prefix="vxmut")
    f = os.path.join(d, os.path.basename(rel))
    pos = -1
    for _ in range(occ):
        pos = src.find(old_u, pos + 1)
    if pos < 0:
        print(f"MUTANT-SPEC-STALE {rel}: occurrence {occ} not found: {old!r}"); ok = False; continue
    open(f, "w").write(src[:pos] + new_u + src[pos + len(old_u):])
    files = sorted(os.path.join(V, "harness", pid, x) for x in os.listdir(os.path.join(V, "harness", pid)) if x.endswith(".go"))
    inc = os.path.join(V, "harness", pid, "include.txt")
    if os.path.exists(inc):
        files += [os.path.normpath(os.path.join(V, "harness", pid, l.strip())) for l in open(inc) if l.strip() and not l.startswith("#")]
    cmd = [os.path.join(V, "engine", "gosx"), "-id", pid, "-tier", tier, "-out", "/tmp/vxmut-out", "-overlay", f"{rel}={f}"] + files
    r = subprocess.run(cmd, capture_output=True, text=True)
    viol = [l for l in r.stdout.splitlines() if l.startswith("  entry=")]
    caught = r.returncode == 1
    if "LOAD ERROR" in r.stdout + r.stderr:
        print(f"MUTANT-INVALID {n}: {rel}: {old!r} -> {new!r}: does not type-check")
        ok = False
        subprocess.run(["rm", "-rf", d])
        continue
    status = "caught" if caught else ("survived(exit=%d)" % r.returncode)
    good = (caught != equiv)
    print(f"{'OK ' if good else 'BAD'} mutant {n}: {rel}: {old!r} -> {new!r}: {status} {viol[:1]}")
    if not good:
        ok = False
        print("\n".join(r.stdout.splitlines()[-6:]))
    subprocess.run(["rm", "-rf", d])
sys.exit(0 if ok else 1)
