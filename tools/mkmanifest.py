#!/usr/bin/env python3
"""Regenerates MANIFEST.json from tools/claims.json (per-property claim texts) + the harness directories present."""
import json, os
V = os.path.dirname(os.path.dirname(os.path.abspath(__file__)))
claims = json.load(open(os.path.join(V, "tools", "claims.json")))
props = [json.loads(l) for l in open(os.path.join(V, "properties.jsonl"))]
baseline = "for m in $(cat /w/out/gomods.txt); do MF=$(cd /repo/$m && . /w/out/goenv.sh && gomodflag); (cd /repo/$m && go test $MF -json -vet=off -count=1 -timeout 25m ./...); done"
checks, na = [], []
for p in props:
    pid = p["id"]
    c = claims.get(pid, {})
    has = os.path.isdir(os.path.join(V, "harness", pid)) and c.get("claimed")
    if not has:
        na.append({"property_id": pid, "reason": c.get("na_reason", "check not built yet (session in progress); see DESIGN.md section 4")})
        continue
    checks.append({
        "property_id": pid,
        "quick_cmd": f"./check {pid} quick",
        "thorough_cmd": f"./check {pid} thorough",
        "evidence_file": f"/verif/evidence/{pid}.json",
        "replay_cmd_template": f"./check {pid} --replay {{path}}",
        "engine": "gosx",
        "level_claimed": {"category": "other", "text": c["text"], "design_ref": c.get("design_ref", "DESIGN.md section 4, " + pid)},
        "level_note": c["note"],
        "technique": c.get("technique", "bounded symbolic execution of the real Go SSA (own engine) with SMT bit-vector queries (z3; cvc5/z3-5.1 cross-check in thorough)"),
    })
m = {
    "version": 1,
    "setup_cmd": "./setup.sh",
    "hooks": {"guard": "verif", "enable": "none needed: harnesses are injected with go/packages overlays; /repo carries no hook code",
              "baseline_off_cmd": baseline, "source_commits": [], "add_only": True},
    "engines": [{"name": "gosx", "path": "/verif/engine", "serves_properties": [c["property_id"] for c in checks],
                 "kind_free_text": "symbolic executor for Go SSA (golang.org/x/tools/go/ssa, rebuilt from /repo on every run) emitting SMT-LIB2 bit-vector queries to z3; replay-based DFS over branch/concretisation decisions; bounded"}],
    "checks": checks,
    "notes": "Every claim is bounded (level 'other'): it holds for every value of the symbolic inputs within the bounds listed in DESIGN.md and in each evidence file, and says nothing outside them. exit 2 = inconclusive (never a pass).",
    "not_applicable": na,
}
json.dump(m, open(os.path.join(V, "MANIFEST.json"), "w"), indent=1)
print("checks:", [c["property_id"] for c in checks], "na:", len(na))
