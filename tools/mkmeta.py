#!/usr/bin/env python3
"""mkmeta.py <seeded-dir-name> : writes seeded/<name>/meta.json from confirm.log / demo_path.txt (after tools/confirm_seed.sh)."""
import json, os, sys
name = sys.argv[1]
d = os.path.join('/verif/seeded', name)
tail = open(os.path.join(d, 'confirm.log')).read().strip().split('\n')[-1]
if not tail.startswith('CONFIRMED'):
    sys.exit('not confirmed: ' + tail)
meta = {
    "property": name.split('-')[0][:3],
    "name": name,
    "breaks": "see SEEDED.md (written by the independent sub-agent that produced the change)",
    "needs_to_manifest": "see SEEDED.md 'trigger' section",
    "confirmed_by": "tools/confirm_seed.sh in a scratch worktree: package tests pass with the change, demo test fails with it and passes without it",
    "confirm_log_tail": tail,
    "demo_path_in_repo": open(os.path.join(d, 'demo_path.txt')).read().strip(),
    "detected_by": {},
}
p = os.path.join(d, 'meta.json')
if os.path.exists(p):
    meta["detected_by"] = json.load(open(p)).get("detected_by", {})
json.dump(meta, open(p, 'w'), indent=1)
print('wrote', p)
