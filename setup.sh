#!/bin/sh
# Offline setup: build the engine, warm the Go build cache for the packages the harnesses load (export data),
# so the first check does not pay the cold `go list -export` cost.
set -e
cd "$(dirname "$0")"
./build.sh
export PATH=/opt/veriftools/go1.27.0/bin:$PATH GOFLAGS=-mod=mod GOPROXY=off GOSUMDB=off GOTOOLCHAIN=local
(cd /repo && go build ./internal/vault/... ./internal/physical/... ./internal/builtin/logical/kv/... ./internal/builtin/logical/pki/... ./internal/builtin/logical/transit/... ./internal/audit/... >/dev/null 2>&1 || true)
(cd /repo/sdk && go build ./... >/dev/null 2>&1 || true)
echo setup done
