#!/bin/sh
# builds the engine offline
set -e
cd "$(dirname "$0")"
exec ./build.sh
