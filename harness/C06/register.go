package vault

// C06 — ExpirationManager.Register under EVERY single and double collaborator failure: a lease id is returned iff the
// lease entry and (when the token is indexed) the token index were written; on any error the freshly generated
// secret is revoked at its backend, the entry and index are deleted, and no lease id is returned.
//
//vx:pkg github.com/openbao/openbao/v2/internal/vault
//vx:bodies context,github.com/openbao/openbao/sdk/v2/helper/consts,github.com/openbao/openbao/sdk/v2/logical,github.com/openbao/openbao/v2/internal/helper/namespace,github.com/hashicorp/go-multierror,github.com/hashicorp/errwrap
//vx:redirect github.com/hashicorp/go-secure-stdlib/base62.Random vxRandom
//vx:redirect (*github.com/openbao/openbao/v2/internal/vault/routing.Router).Route vxRoute
//vx:redirect (*github.com/openbao/openbao/v2/internal/vault.ExpirationManager).persistEntry vxPersistEntry
//vx:redirect (*github.com/openbao/openbao/v2/internal/vault.ExpirationManager).deleteEntry vxDeleteEntry
//vx:redirect (*github.com/openbao/openbao/v2/internal/vault.ExpirationManager).createIndexByToken vxCreateIndex
//vx:redirect (*github.com/openbao/openbao/v2/internal/vault.ExpirationManager).removeIndexByToken vxRemoveIndex
//vx:redirect (*github.com/openbao/openbao/v2/internal/vault.ExpirationManager).FetchLeaseTimesByToken vxFetchLeaseTimes
//vx:redirect (*github.com/openbao/openbao/v2/internal/vault.ExpirationManager).updatePending vxUpdatePending
//vx:redirect (*github.com/openbao/openbao/v2/internal/vault.ExpirationManager).loadEntry vxLoadEntry
//vx:noop github.com/hashicorp/go-metrics/compat.*
//vx:param failures quick=2 thorough=3
//vx:unwind 200

import (
	"context"
	"time"

	"github.com/openbao/openbao/sdk/v2/logical"
	"github.com/openbao/openbao/v2/internal/helper/namespace"
	"github.com/openbao/openbao/v2/internal/vault/routing"
)

type vxLeaseWorld struct {
	entries   []string // lease ids with a persisted entry
	index     []string // "token|leaseID"
	ambiguous bool     // a failing storage write lands all the same
	revoked   []string // paths whose secret was revoked at the backend
	pending   []string // lease ids handed to the expiry tracker
	failMask  int      // bit i set = collaborator i fails (0 random, 1 persist, 2 index, 3 fetch times, 4 backend revoke, 5 delete entry, 6 remove index)
}

var vxL *vxLeaseWorld

func vxFails(i int) bool { return vxL.failMask&(1<<i) != 0 }

func vxHasS(set []string, k string) bool {
	for _, x := range set {
		if x == k {
			return true
		}
	}
	return false
}

func vxDelS(set []string, k string) []string {
	var out []string
	for _, x := range set {
		if x != k {
			out = append(out, x)
		}
	}
	return out
}

func vxRandom(n int) (string, error) {
	if vxFails(0) {
		return "", vxErr("rng failure")
	}
	return "RANDOM", nil
}

func vxRoute(r *routing.Router, ctx context.Context, req *logical.Request) (*logical.Response, error) {
	if req.Operation == logical.RevokeOperation {
		if vxFails(4) {
			return nil, vxErr("backend revoke failed")
		}
		vxL.revoked = append(vxL.revoked, req.Path)
	}
	return nil, nil
}

func vxPersistEntry(m *ExpirationManager, ctx context.Context, le *leaseEntry) error {
	if vxFails(1) {
		// a failed write is ambiguous: it may have reached storage all the same
		if vxL.ambiguous {
			vxL.entries = append(vxL.entries, le.LeaseID)
			vxStored = append(vxStored, le)
		}
		return vxErr("persist failed")
	}
	vxL.entries = append(vxL.entries, le.LeaseID)
	vxStored = append(vxStored, le)
	return nil
}

// persisted lease entries, for code that (re)loads a lease from storage (the regular revocation path)
var vxStored []*leaseEntry

func vxLoadEntry(m *ExpirationManager, ctx context.Context, leaseID string) (*leaseEntry, error) {
	if !vxHasS(vxL.entries, leaseID) {
		return nil, nil
	}
	for _, le := range vxStored {
		if le.LeaseID == leaseID {
			return le, nil
		}
	}
	return nil, nil
}

func vxDeleteEntry(m *ExpirationManager, ctx context.Context, le *leaseEntry) error {
	if vxFails(5) {
		return vxErr("delete failed")
	}
	vxL.entries = vxDelS(vxL.entries, le.LeaseID)
	return nil
}

func vxCreateIndex(m *ExpirationManager, ctx context.Context, le *leaseEntry, token string) error {
	if vxFails(2) {
		if vxL.ambiguous {
			vxL.index = append(vxL.index, token+"|"+le.LeaseID)
		}
		return vxErr("index failed")
	}
	vxL.index = append(vxL.index, token+"|"+le.LeaseID)
	return nil
}

func vxRemoveIndex(m *ExpirationManager, ctx context.Context, le *leaseEntry, token string) error {
	if token == "" {
		return nil
	}
	if vxFails(6) {
		return vxErr("index removal failed")
	}
	vxL.index = vxDelS(vxL.index, token+"|"+le.LeaseID)
	return nil
}

func vxFetchLeaseTimes(m *ExpirationManager, ctx context.Context, te *logical.TokenEntry) (*leaseEntry, error) {
	if vxFails(3) {
		return nil, vxErr("fetch failed")
	}
	return &leaseEntry{ExpireTime: time.Now().Add(time.Hour)}, nil
}

func vxUpdatePending(m *ExpirationManager, le *leaseEntry) {
	vxL.pending = append(vxL.pending, le.LeaseID)
}

func VxRegister() {
	ctx := namespace.RootContext(context.Background())
	m := &ExpirationManager{router: &routing.Router{}, quitContext: context.Background()}
	vxL, vxStored = &vxLeaseWorld{}, nil
	// every single and double (thorough: triple) failure
	for i := 0; i < vxParam("failures"); i++ {
		if f := vxChoose("failing collaborator (7 = none)", 8); f < 7 {
			vxL.failMask |= 1 << f
		}
	}
	vxL.ambiguous = vxBool("a failed write reached storage all the same")
	te := &logical.TokenEntry{ID: "tok", Type: logical.TokenTypeService}
	kind := vxChoose("token kind", 3)
	switch kind {
	case 1:
		te.Type, te.Parent = logical.TokenTypeBatch, "parent-tok"
	case 2:
		te.Type = logical.TokenTypeBatch // orphan batch token: not indexed
	}
	req := &logical.Request{Path: "aws/creds/dev", ClientToken: "tok"}
	req.SetTokenEntry(te)
	resp := &logical.Response{Secret: &logical.Secret{LeaseOptions: logical.LeaseOptions{TTL: time.Hour}, InternalData: map[string]any{"k": "v"}}, Data: map[string]any{"access_key": "AK"}}
	id, err := m.Register(ctx, req, resp, "")
	indexTok := "tok"
	if kind == 1 {
		indexTok = "parent-tok"
	} else if kind == 2 {
		indexTok = ""
	}
	if err == nil {
		vxReach("register: lease id returned")
		vxAssert("a lease id is returned only with a durable lease entry", id == "aws/creds/dev/RANDOM" && vxHasS(vxL.entries, id))
		if indexTok != "" {
			vxAssert("a lease id is returned only with its token index entry", vxHasS(vxL.index, indexTok+"|"+id))
		}
		vxAssert("the lease is handed to the expiry tracker", vxHasS(vxL.pending, id))
		vxAssert("the secret is not revoked on success", len(vxL.revoked) == 0)
		return
	}
	vxReach("register: failed")
	vxAssert("no lease id with an error", id == "")
	if vxFails(0) {
		// nothing was generated yet at the lease layer (rng failure happens before the rollback is armed); the caller drops the response
		return
	}
	if !vxFails(4) {
		vxReach("register: rolled back")
		vxAssert("failed registration revokes the freshly generated secret at its backend", len(vxL.revoked) == 1 && vxL.revoked[0] == "aws/creds/dev")
	}
	if !vxFails(5) {
		vxAssert("failed registration leaves no lease entry", len(vxL.entries) == 0)
	}
	if !vxFails(6) {
		vxAssert("failed registration leaves no token index entry", len(vxL.index) == 0)
	}
	vxAssert("a failed lease is not tracked for expiry", len(vxL.pending) == 0)
}

// RegisterAuth refuses tokens that could never be tracked: non-root token without any TTL, batch tokens, empty client
// token, a token path containing ".." - for ALL TTL values and ALL path strings up to the bound.
func VxRegisterAuthRefusals() {
	ctx := namespace.RootContext(context.Background())
	m := &ExpirationManager{}
	te := &logical.TokenEntry{ID: "tok", TTL: time.Duration(vxInt64("token ttl")), Path: vxString("path", vxChoose("pathLen", 5))}
	switch vxChoose("policies", 3) {
	case 0:
		te.Policies = []string{"root"}
	case 1:
		te.Policies = []string{"default"}
	case 2:
		te.Policies = []string{"root", "default"}
	}
	if vxBool("batch") {
		te.Type = logical.TokenTypeBatch
	}
	auth := &logical.Auth{ClientToken: "tok", LeaseOptions: logical.LeaseOptions{TTL: time.Duration(vxInt64("auth ttl"))}}
	if vxBool("empty client token") {
		auth.ClientToken = ""
	}
	err := m.RegisterAuth(ctx, te, auth, "", false)
	dotdot := false
	for i := 0; i+1 < len(te.Path); i++ {
		if te.Path[i] == '.' && te.Path[i+1] == '.' {
			dotdot = true
		}
	}
	onlyRoot := len(te.Policies) == 1 && te.Policies[0] == "root"
	noTTL := te.TTL == 0 && auth.TTL <= 0
	mustRefuse := (noTTL && !onlyRoot) || te.Type == logical.TokenTypeBatch || auth.ClientToken == "" || dotdot
	if mustRefuse {
		vxReach("registerauth: refused")
		vxAssert("an untrackable token is refused", err != nil)
	} else {
		vxReach("registerauth: accepted")
		vxAssert("a trackable token is accepted", err == nil)
	}
}
