package pki

// C16 — revocation control flow: a revocation that was reported successful is on the CRL served afterwards.
//
// Real code executed: revokeCert, fetchRevocationInfo, fetchCertBySerial (revoked/ branch), normalizeSerial,
// crlBuilder.rebuild / rebuildIfForced / _doRebuild, getLocalRevokedCertEntries, isRevInfoIssuerValid,
// associateRevokedCertWithIsssuer, writeRevocationDeltaWALs.
// Models (assumptions): storage = association list with ONE injected failure at ANY call; JSON = boxes; x509 parsing =
// box of the certificate object; serial of a certificate = its Subject.SerialNumber string; signature check = issuer
// linkage by RawIssuer/RawSubject bytes; buildCRLs = "collect entries with the real getLocalRevokedCertEntries, persist the
// list with one storage write" (CRL encoding, signing, numbering, per-issuer grouping are outside the claim).
//
//vx:pkg github.com/openbao/openbao/v2/internal/builtin/logical/pki
//vx:assume storage is an association list with at most one failing call; JSON (de)serialisation is a box; x509 parsing is a registry of certificate objects; a certificate's serial is its Subject.SerialNumber string; signature verification is RawIssuer/RawSubject linkage
//vx:assume buildCRLs is modelled as: collect entries with the REAL getLocalRevokedCertEntries, persist the list with one storage write (CRL encoding, signing, numbering, per-issuer grouping are outside the claim)
//vx:assume the CRL read path is modelled as rebuildIfForced followed by a storage read (cert_util.go fetchCertBySerial order)
//vx:redirect (*github.com/openbao/openbao/sdk/v2/framework.Backend).System vxSystem
//vx:redirect github.com/openbao/openbao/v2/internal/builtin/logical/pki.serialFromCert vxSerialFromCert
//vx:redirect github.com/openbao/openbao/v2/internal/builtin/logical/pki.fetchIssuerMapForRevocationChecking vxIssuerMap
//vx:redirect github.com/openbao/openbao/v2/internal/builtin/logical/pki.buildCRLs vxBuildCRLs
//vx:redirect github.com/openbao/openbao/sdk/v2/logical.StorageEntryJSON vxEntryJSON
//vx:redirect (*github.com/openbao/openbao/sdk/v2/logical.StorageEntry).DecodeJSON vxDecodeJSON
//vx:redirect crypto/x509.ParseCertificate vxParseCert
//vx:redirect github.com/openbao/openbao/v2/internal/builtin/logical/pki.serialFromBigInt vxSerialFromBigInt
//vx:redirect (*crypto/x509.Certificate).CheckSignatureFrom vxCheckSig
//vx:redirect (*github.com/openbao/openbao/v2/internal/builtin/logical/pki.backend).ifCountEnabledIncrementTotalRevokedCertificatesCount vxCountNoop
//vx:redirect (*github.com/openbao/openbao/sdk/v2/logical.Response).AddWarning vxAddWarning
//vx:bodies github.com/openbao/openbao/sdk/v2/logical,github.com/openbao/openbao/sdk/v2/helper/errutil
//vx:unwind 64

import (
	"bytes"
	"context"
	"crypto/x509"
	"crypto/x509/pkix"
	"math/big"
	"time"

	"github.com/openbao/openbao/sdk/v2/framework"
	"github.com/openbao/openbao/sdk/v2/logical"
	"golang.org/x/crypto/ocsp"
)

// the OCSP request's serial number: big integers are handles here (same convention as vxSerialFromCert)
var vxOcspSerial = new(big.Int)

func vxSerialFromBigInt(b *big.Int) string {
	if b == vxOcspSerial {
		return "1c:2d"
	}
	return "ff:ff"
}

type vxSysView struct {
	logical.SystemView
}

func (v vxSysView) Tainted() bool { return false }

func vxSystem(b *framework.Backend) logical.SystemView { return vxSysView{} }

func vxSerialFromCert(c *x509.Certificate) string { return c.Subject.SerialNumber }

func vxCountNoop(b *backend, counted bool, serial string) {}
func vxAddWarning(r *logical.Response, w string)          { r.Warnings = append(r.Warnings, w) }

func vxEntryJSON(k string, v any) (*logical.StorageEntry, error) {
	return &logical.StorageEntry{Key: k, Value: vxBox(v)}, nil
}

func vxDecodeJSON(e *logical.StorageEntry, out any) error {
	switch p := out.(type) {
	case **revocationInfo:
		t := &revocationInfo{}
		if !vxUnbox(e.Value, t) {
			return vxErr("invalid JSON")
		}
		*p = t
		return nil
	}
	if !vxUnbox(e.Value, out) {
		return vxErr("invalid JSON")
	}
	return nil
}

// certificates are kept in a registry; their "DER bytes" are a 2-byte handle
var vxCerts []*x509.Certificate

func vxMkCert(serial string, issuerSubject string, subject string, notAfter time.Time) *x509.Certificate {
	c := &x509.Certificate{SerialNumber: new(big.Int), NotAfter: notAfter}
	c.Subject = pkix.Name{SerialNumber: serial}
	c.RawIssuer, c.RawSubject = []byte(issuerSubject), []byte(subject)
	c.Raw = []byte{0xCE, byte(len(vxCerts))}
	vxCerts = append(vxCerts, c)
	return c
}

func vxParseCert(der []byte) (*x509.Certificate, error) {
	if len(der) != 2 || der[0] != 0xCE || int(der[1]) >= len(vxCerts) {
		return nil, vxErr("x509: malformed certificate")
	}
	return vxCerts[der[1]], nil
}

func vxCheckSig(c *x509.Certificate, parent *x509.Certificate) error {
	if bytes.Equal(c.RawIssuer, parent.RawSubject) {
		return nil
	}
	return vxErr("x509: signature mismatch")
}

// ---- storage with one injected failure ----

type vxStore struct {
	keys   []string
	vals   [][]byte
	calls  int
	failAt int
	log    []string
}

func (s *vxStore) step() bool { s.calls++; return s.failAt >= 0 && s.calls-1 == s.failAt }
func (s *vxStore) find(k string) int {
	for i := range s.keys {
		if s.keys[i] == k {
			return i
		}
	}
	return -1
}
func (s *vxStore) Get(ctx context.Context, k string) (*logical.StorageEntry, error) {
	if s.step() {
		return nil, vxErr("injected storage failure")
	}
	if i := s.find(k); i >= 0 {
		return &logical.StorageEntry{Key: k, Value: append([]byte(nil), s.vals[i]...)}, nil
	}
	return nil, nil
}
func (s *vxStore) Put(ctx context.Context, e *logical.StorageEntry) error {
	if s.step() {
		return vxErr("injected storage failure")
	}
	s.log = append(s.log, "put "+e.Key)
	if i := s.find(e.Key); i >= 0 {
		s.vals[i] = append([]byte(nil), e.Value...)
		return nil
	}
	s.keys, s.vals = append(s.keys, e.Key), append(s.vals, append([]byte(nil), e.Value...))
	return nil
}
func (s *vxStore) Delete(ctx context.Context, k string) error {
	if s.step() {
		return vxErr("injected storage failure")
	}
	s.log = append(s.log, "delete "+k)
	if i := s.find(k); i >= 0 {
		s.keys = append(s.keys[:i:i], s.keys[i+1:]...)
		s.vals = append(s.vals[:i:i], s.vals[i+1:]...)
	}
	return nil
}
func (s *vxStore) List(ctx context.Context, p string) ([]string, error) {
	if s.step() {
		return nil, vxErr("injected storage failure")
	}
	var out []string
	for _, k := range s.keys {
		if len(k) > len(p) && k[:len(p)] == p {
			out = append(out, k[len(p):])
		}
	}
	return out, nil
}
func (s *vxStore) ListPage(ctx context.Context, p, after string, limit int) ([]string, error) {
	return s.List(ctx, p)
}

// ---- issuers and the CRL build model ----

var (
	vxIssuers   map[issuerID]*x509.Certificate
	vxIssuerErr bool
	vxBuilds    int
)

func vxIssuerMap(sc *storageContext) (map[issuerID]*x509.Certificate, error) {
	if vxIssuerErr {
		return nil, vxErr("could not fetch issuers")
	}
	return vxIssuers, nil
}

type vxCRL struct{ Serials []string }

const vxCRLPath = "crls/default"

var vxAfterCollect func()

func vxBuildCRLs(sc *storageContext, forceNew bool) ([]string, error) {
	vxBuilds++
	unassigned, byIssuer, err := getLocalRevokedCertEntries(sc, vxIssuers, false)
	if err != nil {
		return nil, err
	}
	// scheduling point: this build has collected the revocation records; another request may run now (it is held at
	// the builder's lock until this build is finished)
	if f := vxAfterCollect; f != nil {
		vxAfterCollect = nil
		f()
	}
	crl := vxCRL{}
	add := func(rs []pkix.RevokedCertificate) {
		for _, r := range rs {
			for _, c := range vxCerts {
				if c.SerialNumber == r.SerialNumber {
					crl.Serials = append(crl.Serials, c.Subject.SerialNumber)
				}
			}
		}
	}
	add(unassigned)
	for _, id := range []issuerID{"issuer-1", "issuer-2"} {
		add(byIssuer[id])
	}
	if err := sc.Storage.Put(sc.Context, &logical.StorageEntry{Key: vxCRLPath, Value: vxBox(crl)}); err != nil {
		return nil, err
	}
	return nil, nil
}

// what a client gets from the CRL endpoint: rebuild-if-flagged, then the stored CRL (cert_util.go fetchCertBySerial)
func vxServedCRL(sc *storageContext) ([]string, bool) {
	if _, err := sc.Backend.crlBuilder.rebuildIfForced(sc); err != nil {
		return nil, false
	}
	e, err := sc.Storage.Get(sc.Context, vxCRLPath)
	if err != nil {
		return nil, false
	}
	if e == nil {
		return nil, true
	}
	var crl vxCRL
	if !vxUnbox(e.Value, &crl) {
		return nil, false
	}
	return crl.Serials, true
}

func vxHas(xs []string, x string) bool {
	for _, y := range xs {
		if y == x {
			return true
		}
	}
	return false
}

func vxCount(xs []string, x string) int {
	n := 0
	for _, y := range xs {
		if y == x {
			n++
		}
	}
	return n
}

func vxWorld() (*storageContext, *vxStore, *x509.Certificate, *x509.Certificate) {
	vxCerts, vxBuilds, vxIssuerErr = nil, 0, false
	st := &vxStore{failAt: -1}
	b := &backend{Backend: &framework.Backend{}}
	b.crlBuilder = newCRLBuilder(true)
	sc := &storageContext{Context: context.Background(), Storage: st, Backend: b}
	far := time.Now().Add(1000 * time.Hour)
	ca := vxMkCert("ca:01", "CN=root", "CN=root", far)
	vxIssuers = map[issuerID]*x509.Certificate{"issuer-1": ca}
	// an earlier revocation of another leaf, already on the CRL
	other := vxMkCert("0a:0b", "CN=root", "CN=other", far)
	ri := revocationInfo{CertificateBytes: other.Raw, RevocationTime: 5, RevocationTimeUTC: time.Unix(5, 0), CertificateIssuer: "issuer-1"}
	st.Put(sc.Context, &logical.StorageEntry{Key: "revoked/0a-0b", Value: vxBox(ri)})
	st.Put(sc.Context, &logical.StorageEntry{Key: vxCRLPath, Value: vxBox(vxCRL{Serials: []string{"0a:0b"}})})
	st.calls, st.log = 0, nil
	leaf := vxMkCert("1c:2d", "CN=root", "CN=leaf", vxInstant("leaf NotAfter"))
	return sc, st, leaf, other
}

func vxRevoked(r *logical.Response, err error) bool {
	return err == nil && r != nil && !r.IsError() && r.Data != nil && r.Data["state"] == "revoked"
}

// One revocation with ONE storage failure at ANY call, then (if it did not succeed) a retry with healthy storage:
// whenever a call reports the certificate revoked, the CRL a client is served next lists it (auto_rebuild off), or
// the delta WAL holds it (auto_rebuild + delta); other revocation entries are never lost or altered.
func VxRevokeAndServe() {
	sc, st, leaf, _ := vxWorld()
	cfg := &crlConfig{AutoRebuild: vxBool("auto_rebuild"), EnableDelta: vxBool("enable_delta"), AllowExpiredCertRevocation: vxBool("allow_expired_cert_revocation")}
	st.failAt = vxChoose("failing storage call (last = none)", 9) - 0
	if st.failAt == 8 {
		st.failAt = -1
	}
	otherBefore := append([]byte(nil), st.vals[st.find("revoked/0a-0b")]...)

	r1, e1 := revokeCert(sc, cfg, leaf)
	ok := vxRevoked(r1, e1)
	firstOK := ok
	st.failAt = -1
	if !ok {
		if e1 == nil && r1 != nil && !r1.IsError() {
			vxReach("revoke: refused as expired")
			vxAssert("an expired certificate is only refused when expired revocation is not allowed", !cfg.AllowExpiredCertRevocation)
			vxAssert("a refused revocation writes nothing", st.find("revoked/1c-2d") < 0)
			return
		}
		vxReach("revoke: first attempt failed")
		r2, e2 := revokeCert(sc, cfg, leaf)
		ok = vxRevoked(r2, e2)
		if !ok {
			// the retry can only be refused as expired (clock moved on) - nothing was reported successful
			vxAssert("retry with healthy storage succeeds or refuses an expired certificate", e2 == nil && r2 != nil && !r2.IsError())
			return
		}
		vxReach("revoke: retry reported success")
	} else {
		vxReach("revoke: first attempt reported success")
	}
	// revocation was reported successful
	vxAssert("the revocation record exists", st.find("revoked/1c-2d") >= 0)
	vxAssert("other revocation records are untouched", bytes.Equal(st.vals[st.find("revoked/0a-0b")], otherBefore))
	if !cfg.AutoRebuild {
		serials, served := vxServedCRL(sc)
		vxAssert("the CRL endpoint answers", served)
		vxAssert("auto_rebuild off: the CRL served after a successful revocation lists the serial", vxHas(serials, "1c:2d"))
		vxAssert("earlier revocations stay on the CRL", vxHas(serials, "0a:0b"))
		vxAssert("no serial is listed twice", vxCount(serials, "1c:2d") == 1 && vxCount(serials, "0a:0b") == 1)
	} else if cfg.EnableDelta && firstOK {
		// (on the retry path the WAL entry may be missing: the serial then reaches the next COMPLETE CRL, which is
		// what the property demands with auto-rebuild on; delta CRLs are not part of the statement)
		vxReach("revoke: delta WAL")
		vxAssert("auto_rebuild with delta CRLs: the delta WAL holds the serial", st.find(localDeltaWALPath+"1c-2d") >= 0)
	}
	// the certificate status API and OCSP: both answer from the revocation record (real getOcspStatus and the status
	// API's own lookup, fetchCertBySerial("revoked/", serial) + decode)
	info, oerr := getOcspStatus(sc, &ocsp.Request{SerialNumber: vxOcspSerial})
	vxAssert("OCSP reports the serial revoked, with its revocation time", oerr == nil && info != nil && info.ocspStatus == ocsp.Revoked && info.revocationTimeUTC != nil)
	other, o2err := getOcspStatus(sc, &ocsp.Request{SerialNumber: new(big.Int)})
	vxAssert("OCSP does not report an unrelated serial revoked", o2err == nil && other != nil && other.ocspStatus == ocsp.Good)
	re, rerr := fetchCertBySerial(sc, "revoked/", "1c:2d")
	vxAssert("the status API finds the revocation record", rerr == nil && re != nil)
	var ri revocationInfo
	vxAssert("and reports the revocation time OCSP reports (the instant of the revocation; the clock model includes the zero instant)", re.DecodeJSON(&ri) == nil && ri.RevocationTimeUTC.Equal(*info.revocationTimeUTC))
	// idempotence: a further call reports the stored revocation time and changes nothing
	before := len(st.log)
	r3, e3 := revokeCert(sc, cfg, leaf)
	vxAssert("revocation is idempotent", vxRevoked(r3, e3) && len(st.log) == before)
}

// A revocation arriving while ANOTHER request's CRL build is under way (issuer import, configuration change, tidy or
// the periodic rebuild - none of them holds the revocation lock): that build has already collected the revocation
// records when the revocation writes its own (second logical thread, started right after the collection; its rebuild
// is held at the builder's lock and resumed when the first build is finished). With auto-rebuild off the revocation
// is reported successful only after a CRL that lists its serial has been written.
func VxRevokeWhileAnotherBuildRuns() {
	sc, st, leaf, _ := vxWorld()
	cfg := &crlConfig{AutoRebuild: false, EnableDelta: vxBool("enable_delta")}
	st.failAt = -1
	var r1 *logical.Response
	var e1 error
	done := false
	vxAfterCollect = func() {
		vxSpawn(func() {
			r1, e1 = revokeCert(sc, cfg, leaf)
			done = true
		})
	}
	_, berr := sc.Backend.crlBuilder.rebuild(sc, vxBool("the other build is a forced-new build"))
	vxAssert("the other build succeeds", berr == nil)
	vxAssert("the revocation ran to completion once the other build released the builder", done)
	vxReach("revoke: raced by another CRL build")
	if vxRevoked(r1, e1) {
		vxReach("revoke: reported successful behind another build")
		serials, served := vxServedCRL(sc)
		vxAssert("the CRL endpoint answers", served)
		vxAssert("auto_rebuild off: a revocation reported successful while another build was running is on the CRL served next", vxHas(serials, "1c:2d"))
		vxAssert("earlier revocations stay on the CRL", vxHas(serials, "0a:0b"))
	}
}

// An issuer's own certificate cannot be revoked through the leaf path.
func VxRevokeIssuerRefused() {
	sc, st, _, _ := vxWorld()
	cfg := &crlConfig{}
	sameSerial := vxMkCert("ca:01", "CN=x", "CN=evil", time.Now().Add(time.Hour))
	r, err := revokeCert(sc, cfg, sameSerial)
	vxReach("revoke: issuer serial")
	vxAssert("a certificate carrying an issuer's serial is refused by the leaf revocation path", err == nil && r != nil && r.IsError() && len(st.log) == 0)
}

// Collection of revoked entries for a CRL build, for an arbitrary set of revocation records: every stored
// revocation whose certificate is not itself one of the issuers is returned exactly once, under its issuer when it
// has one; an entry is skipped only when it IS an issuer certificate (byte-identical), not merely when its serial
// collides with an issuer's.
func VxCollectRevoked() {
	sc, st, leaf, other := vxWorld()
	ca2 := vxMkCert("ca:02", "CN=root2", "CN=root2", time.Now().Add(time.Hour))
	vxIssuers["issuer-2"] = ca2
	ca := vxIssuers["issuer-1"]
	// candidates: the leaf (recorded issuer or not), a leaf of issuer 2, issuer 1's own certificate (revoked via the
	// issuer path), a foreign leaf that happens to carry issuer 1's serial
	l2 := vxMkCert("3e:4f", "CN=root2", "CN=leaf2", time.Now().Add(time.Hour))
	clash := vxMkCert("ca:01", "CN=root2", "CN=clash", time.Now().Add(time.Hour))
	orphan := vxMkCert("77:88", "CN=gone", "CN=orphan", time.Now().Add(time.Hour))
	type rec struct {
		c      *x509.Certificate
		key    string
		issuer issuerID
	}
	all := []rec{{leaf, "1c-2d", "issuer-1"}, {l2, "3e-4f", "issuer-2"}, {ca, "ca-01", ""}, {clash, "ca-01x", "issuer-2"}, {orphan, "77-88", ""}}
	present := make([]bool, len(all))
	for i, r := range all {
		present[i] = vxBool("record present: " + r.key)
		if !present[i] {
			continue
		}
		ri := revocationInfo{CertificateBytes: r.c.Raw, RevocationTime: 9, RevocationTimeUTC: time.Unix(9, 0)}
		switch vxChoose("issuer recorded on "+r.key+"(none,right,stale id of a deleted issuer)", 3) {
		case 1:
			ri.CertificateIssuer = r.issuer
		case 2:
			ri.CertificateIssuer = "issuer-deleted"
		}
		st.Put(sc.Context, &logical.StorageEntry{Key: "revoked/" + r.key, Value: vxBox(ri)})
	}
	un, by, err := getLocalRevokedCertEntries(sc, vxIssuers, false)
	vxAssert("collection succeeds on healthy storage", err == nil)
	count := func(c *x509.Certificate, rs []pkix.RevokedCertificate) int {
		n := 0
		for _, r := range rs {
			if r.SerialNumber == c.SerialNumber {
				n++
			}
		}
		return n
	}
	total := func(c *x509.Certificate) int {
		return count(c, un) + count(c, by["issuer-1"]) + count(c, by["issuer-2"])
	}
	vxReach("collect: done")
	vxAssert("the earlier revocation is collected once under its issuer", count(other, by["issuer-1"]) == 1 && total(other) == 1)
	for i, r := range all {
		switch {
		case !present[i]:
			vxAssert("absent records are not collected", total(r.c) == 0)
		case r.c == ca:
			vxAssert("an issuer's own certificate is left to the issuer-revocation path", total(r.c) == 0)
		case r.issuer != "":
			vxAssert("a revoked leaf is collected exactly once, under its issuer", total(r.c) == 1 && count(r.c, by[r.issuer]) == 1)
			// OCSP and the status API trust the issuer id persisted on the record: after a build it names the
			// issuer that really signed the certificate (also when it named a since-deleted issuer before)
			var stored revocationInfo
			vxAssert("record readable", vxUnbox(st.vals[st.find("revoked/"+r.key)], &stored))
			vxAssert("after a CRL build the record names the certificate's present issuer", stored.CertificateIssuer == r.issuer)
		default:
			vxAssert("a revoked leaf without a known issuer is collected exactly once, unassigned", total(r.c) == 1 && count(r.c, un) == 1)
		}
	}
}
