package raft

// C09 — a replica that installs a snapshot converges: a lagging replica applies a prefix of the log, then the real
// FSM.Restore installs a peer's snapshot taken at ANY later index (file operations replaced by a model: the store
// becomes the peer's store at that index), then the rest of the log is applied: every transaction still gets the
// verdict of the serial specification and the final store equals it - in particular a transaction that started
// BEFORE the snapshot index and read a key that was overwritten inside the gap the replica never applied is rejected
// (the fast-path tracker must not vouch for writes it did not see).
//
//vx:pkg github.com/openbao/openbao/v2/internal/physical/raft
//vx:include apply_batch.go
//vx:include ../common/raft_models.go
//vx:param entriesR quick=3 thorough=3
//vx:param trimAllR quick=0 thorough=1
//vx:unwind 400
//vx:assume (this file) snapshot file handling (close / install / reopen of the bolt file, local node config) is replaced by a model: after Install + openDBFile the FSM's store and latest index are those of the peer at the snapshot index; everything else of FSM.Restore is the real code
//vx:redirect (*github.com/openbao/openbao/v2/internal/physical/raft.FSM).localNodeConfig vxSILocalNodeConfig
//vx:redirect (*go.etcd.io/bbolt.DB).Close vxSIDBClose
//vx:redirect path/filepath.Join vxSIJoin
//vx:bodies github.com/hashicorp/go-multierror
//vx:redirect (*github.com/openbao/openbao/v2/internal/physical/raft.boltSnapshotInstaller).Install vxSIInstall
//vx:redirect (*github.com/openbao/openbao/v2/internal/physical/raft.FSM).openDBFile vxSIOpenDBFile

import (
	bolt "go.etcd.io/bbolt"
)

var (
	vxSISnapState vxRefState // the store of a peer at the snapshot index (= the serial specification there)
	vxSISnapIndex int
	vxSIInstalled bool
)

func vxSIJoin(elem ...string) string {
	out := ""
	for i, e := range elem {
		if i > 0 {
			out += "/"
		}
		out += e
	}
	return out
}

func vxSILocalNodeConfig(f *FSM) (*LocalNodeConfigValue, error) { return nil, nil }
func vxSIDBClose(db *bolt.DB) error                             { return nil }
func vxSIInstall(i *boltSnapshotInstaller, filename string) error {
	vxSIInstalled = true
	return nil
}
func vxSIOpenDBFile(f *FSM, dbPath string) error {
	if !vxSIInstalled {
		return vxErr("open without install")
	}
	db := &bolt.DB{}
	m := &vxBoltDB{data: &vxBkt{}, cfg: &vxBkt{}}
	for k := 0; k < 2; k++ {
		if vxSISnapState.present[k] {
			m.data.keys = append(m.data.keys, vxK[k])
			m.data.vals = append(m.data.vals, []byte{vxSISnapState.val[k]})
		}
	}
	vxDBs[db] = m
	f.db = db
	f.latestIndex.Store(uint64(vxSISnapIndex))
	f.latestTerm.Store(1)
	return nil
}

func VxSnapshotInstall() {
	n := vxParam("entriesR")
	vxTrimAll = vxParam("trimAllR")
	entries, states := vxBuildLog(n)
	applied := vxChoose("entries the lagging replica applied itself", n) // 0..n-1
	snapAt := applied + 1 + vxChoose("snapshot index beyond that", n-applied)
	vxAssume(snapAt <= n)
	// the lagging replica
	f := vxFSM()
	if applied > 0 {
		f = vxApply(f, entries[:applied], 0, -1, "lagging replica, before the snapshot")
	}
	vxSISnapState, vxSISnapIndex, vxSIInstalled = states[snapAt], snapAt, false
	err := f.Restore(&boltSnapshotInstaller{})
	vxAssert("snapshot install succeeds", err == nil && vxSIInstalled)
	vxAssert("the FSM lock is released", vxHeld(&f.l) == 0)
	vxAssert("after the install the replica is at the snapshot index", f.latestIndex.Load() == uint64(snapAt))
	vxCheckState(f, states[snapAt], "right after the snapshot install")
	if snapAt < n {
		vxReach("snapshot: log continues after the install")
		f = vxApply(f, entries[snapAt:], 0, -1, "replica after a snapshot install")
	}
	vxReach("snapshot: installed")
	vxCheckState(f, states[n], "replica after a snapshot install")
}
