package raft

// C09 — replicas applying the same committed log: the real FSM.ApplyBatch / applyBatchTxOps / fast-path tracker,
// on a symbolic log (plain puts/deletes and transactions with symbolic start index, one verified read, one write,
// symbolic values), under every partition of the log into apply batches and with a replica restart (fresh tracker)
// at any position, must give every transaction the verdict of the serial specification and the same final state.
//
//vx:pkg github.com/openbao/openbao/v2/internal/physical/raft
//vx:include ../common/raft_models.go
//vx:param entriesB quick=3 thorough=4 C08.thorough=3
//vx:param trimAllB quick=0 thorough=0
//vx:param entriesR quick=3 thorough=3
//vx:param trimAllR quick=0 thorough=1
//vx:unwind 400

import (
	"github.com/hashicorp/raft"
)

var vxK = [2]string{"k1", "k2"}

type vxRefState struct {
	present [2]bool
	val     [2]byte
}

type vxEntry struct {
	log     *raft.Log
	isTxn   bool
	start   int
	commits bool // verdict of the serial specification
}

func vxFSM() *FSM {
	return &FSM{logger: vxLogger{}, db: vxNewDB(), fastTxnTracker: FsmTxnCommitIndexTracker()}
}

// restart: same bolt file, index reloaded from it, fresh in-memory tracker
func vxRestart(f *FSM) *FSM {
	n := &FSM{logger: vxLogger{}, db: f.db, fastTxnTracker: FsmTxnCommitIndexTracker()}
	n.latestIndex.Store(f.latestIndex.Load())
	n.latestTerm.Store(f.latestTerm.Load())
	return n
}

// 1 = every entry may ship a trim bound, 0 = only the second one (set by each entry from its tier parameter)
var vxTrimAll int

func vxMkLog(index int, data *LogData) *raft.Log {
	// every entry may ship ANY trim bound for the fast-path tracker (the leader computes it from raft's applied
	// index and the active transactions; replicas must stay correct whatever it is)
	if (vxTrimAll == 1 || index == 2) && vxBool("ships a trim bound") {
		lb := vxU64("LowestActiveIndex")
		data.LowestActiveIndex = &lb
	}
	buf, _ := vxProtoMarshal(data)
	return &raft.Log{Index: uint64(index), Term: 1, Type: raft.LogCommand, Data: buf}
}

// builds a log whose transactions carry verification entries that were true at their start index (what an honest
// leader produces), plus the serial-specification verdict of every entry
func vxBuildLog(n int) ([]vxEntry, []vxRefState) {
	states := make([]vxRefState, n+1) // states[i] = state after entries 1..i
	entries := make([]vxEntry, 0, n)
	for i := 1; i <= n; i++ {
		cur := states[i-1]
		e := vxEntry{commits: true}
		switch vxChoose("entry kind", 3) {
		case 0:
			k := vxChoose("put key", 2)
			v := vxByte("put value")
			e.log = vxMkLog(i, &LogData{Operations: []*LogOperation{{OpType: putOp, Key: vxK[k], Value: []byte{v}}}})
			cur.present[k], cur.val[k] = true, v
		case 1:
			k := vxChoose("delete key", 2)
			e.log = vxMkLog(i, &LogData{Operations: []*LogOperation{{OpType: deleteOp, Key: vxK[k]}}})
			cur.present[k] = false
		case 2:
			e.isTxn = true
			e.start = vxChoose("txn start index", i) // started after entry 'start' was applied (0 .. i-1)
			r := vxChoose("read key", 2)
			w := vxChoose("write key", 2)
			v := vxByte("txn value")
			seen := states[e.start]
			var seenVal []byte
			if seen.present[r] {
				seenVal = []byte{seen.val[r]}
			}
			hash, _ := createVerificationEntry(vxK[r], seenVal)
			begin, _ := createBeginTxOpValue(uint64(e.start))
			isDel := vxBool("txn write is a delete")
			wop := &LogOperation{OpType: putOp, Key: vxK[w], Value: []byte{v}}
			if isDel {
				wop = &LogOperation{OpType: deleteOp, Key: vxK[w]}
			}
			e.log = vxMkLog(i, &LogData{Operations: []*LogOperation{
				{OpType: beginTxOp, Value: begin},
				{OpType: verifyReadOp, Key: vxK[r], Value: hash},
				wop,
				{OpType: commitTxOp},
			}})
			// serial specification: commits iff what it read is unchanged right before it applies
			now := states[i-1]
			e.commits = seen.present[r] == now.present[r] && (!seen.present[r] || seen.val[r] == now.val[r])
			if e.commits {
				cur.present[w], cur.val[w] = !isDel, v
			}
		}
		states[i] = cur
		entries = append(entries, e)
	}
	return entries, states
}

func vxVerdict(resp any) bool { // true = committed
	r := resp.(*FSMApplyResponse)
	for _, e := range r.EntrySlice {
		if e.IsTxError() {
			return false
		}
	}
	return true
}

func vxCheckState(f *FSM, want vxRefState, what string) {
	m := vxDBs[f.db].data
	for k := 0; k < 2; k++ {
		i := m.find(vxK[k])
		if want.present[k] {
			vxAssert(what+": stored value equals the serial specification", i >= 0 && len(m.vals[i]) == 1 && m.vals[i][0] == want.val[k])
		} else {
			vxAssert(what+": key absent as in the serial specification", i < 0)
		}
	}
}

// every partition of the log into consecutive apply batches (bit i set = cut after entry i)
func vxApply(f *FSM, entries []vxEntry, cuts int, restartAfter int, what string) *FSM {
	var batch []*raft.Log
	first := 0
	for i := range entries {
		batch = append(batch, entries[i].log)
		last := i == len(entries)-1
		if last || cuts&(1<<i) != 0 || restartAfter == i+1 {
			resps := f.ApplyBatch(batch)
			for j := range batch {
				if entries[first+j].isTxn {
					vxAssert(what+": transaction verdict equals the serial specification", vxVerdict(resps[j]) == entries[first+j].commits)
				}
			}
			batch, first = nil, i+1
			if restartAfter == i+1 {
				f = vxRestart(f)
			}
		}
	}
	return f
}

func VxBatching() {
	n := vxParam("entriesB")
	vxTrimAll = vxParam("trimAllB")
	entries, states := vxBuildLog(n)
	cuts := vxChoose("batch partition", 1<<(n-1))
	f := vxApply(vxFSM(), entries, cuts, -1, "any batching")
	vxReach("batching: applied")
	for _, e := range entries {
		if e.isTxn && !e.commits {
			vxReach("batching: some transaction conflicts")
		}
	}
	vxCheckState(f, states[n], "any batching")
	vxAssert("latest index advanced to the end of the log", f.latestIndex.Load() == uint64(n))
}

func VxRestartReplica() {
	n := vxParam("entriesR")
	vxTrimAll = vxParam("trimAllR")
	entries, states := vxBuildLog(n)
	restartAfter := 1 + vxChoose("restart after entry", n-1)
	f := vxApply(vxFSM(), entries, 0, restartAfter, "restarted replica")
	vxReach("restart: applied")
	vxCheckState(f, states[n], "restarted replica")
}
