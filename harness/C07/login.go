package vault

// C07 (login side) — the real Core.LoginCreateToken + Core.RegisterAuth + framework.CalculateTTL for every policy
// list an auth method can return (over the 5-name universe plus spellings of the reserved names that differ by case or surrounding space), every identity-derived policy set, all lifetimes:
// the token never carries root or a non-assignable policy, and its lifetime is bounded by the explicit and mount
// maximum.
//
//vx:pkg github.com/openbao/openbao/v2/internal/vault
//vx:assume the auth method's policy list and the identity-derived policies range over lists from the 5-name universe (the auth method's list also over five case / whitespace spellings of reserved names) up to the bound; lease registration may fail
//vx:include create.go
//vx:param loginpol quick=1 thorough=2
//vx:param parents quick=2 thorough=3
//vx:bodies github.com/openbao/openbao/v2/internal/vault/routing
//vx:redirect (*github.com/openbao/openbao/v2/internal/vault/routing.Router).MatchingMountEntry vxLMountEntry
//vx:redirect (*github.com/openbao/openbao/v2/internal/vault/routing.Router).MatchingSystemView vxLSystemView
//vx:redirect (*github.com/openbao/openbao/v2/internal/vault.Core).fetchEntityAndDerivedPolicies vxLFetchEntity
//vx:redirect (*github.com/openbao/openbao/v2/internal/vault.ExpirationManager).RegisterAuth vxLRegisterAuth
//vx:redirect (*github.com/openbao/openbao/v2/internal/vault.TokenStore).revokeOrphan vxLRevokeOrphan
//vx:unwind 200

import (
	"context"
	"time"

	"github.com/openbao/openbao/sdk/v2/logical"
	"github.com/openbao/openbao/v2/internal/helper/identity"
	"github.com/openbao/openbao/v2/internal/helper/namespace"
	"github.com/openbao/openbao/v2/internal/vault/policy"
	"github.com/openbao/openbao/v2/internal/vault/routing"
)

var (
	vxIdentityPolicies []string
	vxLeaseFails       bool
	vxOrphaned         int
)

func vxLMountEntry(r *routing.Router, ctx context.Context, path string) *routing.MountEntry {
	return &routing.MountEntry{Type: "userpass", Path: "userpass/"}
}
func vxLSystemView(r *routing.Router, ctx context.Context, path string) logical.SystemView {
	return vxSys
}
func vxLFetchEntity(c *Core, ctx context.Context, ns *namespace.Namespace, entityID string, skip bool) (*identity.Entity, map[string][]string, error) {
	return nil, map[string][]string{ns.ID: vxIdentityPolicies}, nil
}

var (
	vxLeaseTTL   time.Duration
	vxLeaseCalls int
)

func vxLRegisterAuth(m *ExpirationManager, ctx context.Context, te *logical.TokenEntry, auth *logical.Auth, role string, persist bool) error {
	vxLeaseCalls++
	vxLeaseTTL = auth.TTL // the lifetime the lease is registered with
	if vxLeaseFails {
		return vxErr("lease registration failed")
	}
	return nil
}
func vxLRevokeOrphan(ts *TokenStore, ctx context.Context, id string) error { vxOrphaned++; return nil }

// what an auth method returns is free text: besides the universe, spellings that differ from the reserved names only by
// case or surrounding space (policy names are normalised - lower-cased and trimmed - before the token is built)
var vxSpellings = []string{"Root", " root ", "ROOT", "Response-Wrapping", "P"}

func vxSpelledList(tag string, n int) []string {
	k := vxChoose(tag+" length", n+1)
	var out []string
	for i := 0; i < k; i++ {
		j := vxChoose(tag+" entry", len(vxUniverse)+len(vxSpellings))
		if j < len(vxUniverse) {
			out = append(out, vxUniverse[j])
		} else {
			out = append(out, vxSpellings[j-len(vxUniverse)])
		}
	}
	return out
}

func VxLogin() {
	vxCreated, vxCreates, vxOrphaned, vxLeaseCalls = nil, 0, 0, 0
	vxSys = vxExtSys{def: vxDur("mount default ttl"), max: vxDur("mount max ttl")}
	vxAssume(vxSys.def > 0 && vxSys.max >= vxSys.def)
	ts := vxTokenStore()
	c := ts.core
	c.tokenStore = ts
	c.logger = vxCLogger{}
	c.router = &routing.Router{}
	c.expiration = &ExpirationManager{}
	auth := &logical.Auth{
		Policies:        vxSpelledList("policies returned by the auth method", vxParam("loginpol")),
		NoDefaultPolicy: vxBool("no_default_policy"),
		DisplayName:     "u",
		LeaseOptions:    logical.LeaseOptions{TTL: vxDur("auth ttl"), MaxTTL: vxDur("auth max ttl")},
		ExplicitMaxTTL:  vxDur("auth explicit max"),
		Period:          vxDur("auth period"),
	}
	vxAssume(auth.TTL >= 0 && auth.MaxTTL >= 0 && auth.ExplicitMaxTTL >= 0 && auth.Period >= 0)
	auth.TokenType = logical.TokenTypeService
	if vxBool("batch token") {
		auth.TokenType = logical.TokenTypeBatch
	}
	vxIdentityPolicies = vxList("identity-derived policies", 1)
	vxLeaseFails = vxBool("lease registration fails")
	resp := &logical.Response{Auth: auth}
	ns := namespace.RootNamespace
	_, out, err := c.LoginCreateToken(vxCtx(ns), ns, "auth/userpass/login/u", "auth/userpass/", "", resp, false, nil)
	if vxCreates == 0 {
		vxReach("login: refused")
		vxAssert("a refused login returns no token", err != nil || (out != nil && out.IsError()))
		return
	}
	te := vxCreated
	vxAssert("login tokens never carry root", !vxIn(te.Policies, "root") && !vxIn(vxIdentityPolicies, "root"))
	vxAssert("login tokens never carry a non-assignable policy", !vxIn(te.Policies, policy.ResponseWrappingPolicyName) && !vxIn(vxIdentityPolicies, policy.ResponseWrappingPolicyName))
	vxAssert("login tokens expire", te.TTL > 0)
	vxAssert("login token lifetime within the mount maximum", te.TTL <= vxSys.max)
	if auth.ExplicitMaxTTL > 0 {
		vxAssert("login token lifetime within its explicit maximum", te.TTL <= auth.ExplicitMaxTTL)
	}
	if auth.MaxTTL > 0 {
		vxAssert("login token lifetime within the method's maximum", te.TTL <= auth.MaxTTL)
	}
	if auth.TokenType == logical.TokenTypeService {
		vxAssert("the token's lease is registered with the token's (capped) lifetime", vxLeaseCalls == 1 && vxLeaseTTL == te.TTL)
	}
	if err != nil || (out != nil && out.IsError()) {
		vxReach("login: lease registration failed")
		vxAssert("a login that fails after creating the token revokes it", vxLeaseFails && vxOrphaned == 1)
		return
	}
	vxReach("login: accepted")
	vxAssert("the lifetime reported to the client is the token's (capped) lifetime", out.Auth.TTL == te.TTL)
	for _, p := range out.Auth.Policies {
		vxAssert("the reported policy set has no root / non-assignable policy", p != "root" && p != policy.ResponseWrappingPolicyName)
	}
}
