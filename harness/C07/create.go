package vault

// C07 — token creation never escalates: the real handleCreateCommon, resolveTokenPolicies, parseAndMergeTTLPeriod
// and framework.CalculateTTL (plus policyutil / strutil from source) executed for every parent, caller privilege,
// endpoint, request parameter combination and role configuration over a 5-name policy universe.
//
//vx:pkg github.com/openbao/openbao/v2/internal/vault
//vx:assume policy universe {root, default, p, q, response-wrapping}; token lookup/create, sudo decision, namespaces, entity-alias resolution, policy store and FieldData accessors are stubs; duration strings are opaque literals naming arbitrary durations
//vx:assume clock model: instants are whole seconds; (Time).Unix()/time.Unix(v,0) round-trip
//vx:assume mount default ttl > 0 and <= mount max ttl; parent ttl >= 0
//vx:assume interpretation: a root token made by a NON-expiring root token is bound by its explicit maximum only
//vx:bodies context,github.com/openbao/openbao/sdk/v2/logical,github.com/openbao/openbao/v2/internal/helper/namespace,github.com/openbao/openbao/sdk/v2/helper/policyutil,github.com/hashicorp/go-secure-stdlib/strutil,github.com/openbao/openbao/sdk/v2/framework,github.com/openbao/openbao/v2/internal/vault/policy,github.com/ryanuber/go-glob
//vx:redirect (*github.com/openbao/openbao/v2/internal/vault.TokenStore).Lookup vxLookup
//vx:redirect (*github.com/openbao/openbao/v2/internal/vault.TokenStore).lookupTainted vxLookupTainted
//vx:redirect (*github.com/openbao/openbao/v2/internal/vault.TokenStore).create vxCreate
//vx:redirect (*github.com/openbao/openbao/v2/internal/vault.TokenStore).resolveEntityAlias vxResolveAlias
//vx:redirect (*github.com/openbao/openbao/v2/internal/vault.Core).NamespaceByID vxNamespaceByID
//vx:redirect (*github.com/openbao/openbao/v2/internal/vault/policy.Store).GetPolicy vxGetPolicy
//vx:redirect (*github.com/openbao/openbao/sdk/v2/framework.Backend).System vxSystem
//vx:redirect (*github.com/openbao/openbao/sdk/v2/framework.FieldData).GetOk vxGetOk
//vx:redirect (*github.com/openbao/openbao/sdk/v2/framework.FieldData).Get vxGet
//vx:redirect github.com/hashicorp/go-secure-stdlib/parseutil.ParseDurationSecond vxParseDuration
//vx:redirect (time.Duration).Seconds vxDurSeconds
//vx:noop github.com/hashicorp/go-metrics/compat.*
//vx:noop (*github.com/openbao/openbao/v2/internal/helper/metricsutil.ClusterMetricSink).*
//vx:noop github.com/openbao/openbao/v2/internal/helper/metricsutil.*
//vx:param reqpol quick=1 thorough=3
//vx:param parents quick=2 thorough=3
//vx:param loginpol quick=2 thorough=3
//vx:param rolereq quick=1 thorough=2
//vx:param rolepol quick=1 thorough=2
//vx:unwind 200

import (
	"context"
	"time"

	log "github.com/hashicorp/go-hclog"
	"github.com/openbao/openbao/sdk/v2/framework"
	"github.com/openbao/openbao/sdk/v2/logical"
	"github.com/openbao/openbao/v2/internal/helper/namespace"
	"github.com/openbao/openbao/v2/internal/vault/policy"
)

type vxCLogger struct{ log.Logger }

func (vxCLogger) Debug(msg string, args ...interface{}) {}
func (vxCLogger) Trace(msg string, args ...interface{}) {}
func (vxCLogger) Info(msg string, args ...interface{})  {}
func (vxCLogger) Warn(msg string, args ...interface{})  {}
func (vxCLogger) Error(msg string, args ...interface{}) {}

type vxExtSys struct {
	extendedSystemView
	sudo     bool
	def, max time.Duration
}

func (v vxExtSys) SudoPrivilege(context.Context, string, string) bool { return v.sudo }
func (v vxExtSys) DefaultLeaseTTL() time.Duration                     { return v.def }
func (v vxExtSys) MaxLeaseTTL() time.Duration                         { return v.max }

var (
	vxSys     vxExtSys
	vxParent  *logical.TokenEntry
	vxCreated *logical.TokenEntry
	vxCreates int
	vxDurs    map[string]time.Duration
	vxDurBad  map[string]bool
	vxChildNS *namespace.Namespace
)

func vxSystem(b *framework.Backend) logical.SystemView { return vxSys }

// the two lookup flavours of the token store (decided on the real lookupInternal by C02 VxLookupInternal): a token
// whose use count is negative is awaiting revocation - it spent its last use, possibly on this very request - and is
// only visible to a tainted lookup
func vxLookup(ts *TokenStore, ctx context.Context, id string) (*logical.TokenEntry, error) {
	if vxParent != nil && vxParent.NumUses < 0 {
		return nil, nil
	}
	return vxParent, nil
}
func vxLookupTainted(ts *TokenStore, ctx context.Context, id string) (*logical.TokenEntry, error) {
	return vxParent, nil
}

func vxCreate(ts *TokenStore, ctx context.Context, te *logical.TokenEntry, persist bool) error {
	vxCreates++
	c := *te
	vxCreated = &c
	return nil
}

func vxResolveAlias(ts *TokenStore, ctx context.Context, req *logical.Request, d *framework.FieldData, role *tsRoleEntry) (*logical.Response, string, error) {
	return nil, "", nil
}

func vxNamespaceByID(c *Core, ctx context.Context, id string) (*namespace.Namespace, error) {
	if id == namespace.RootNamespaceID {
		return namespace.RootNamespace, nil
	}
	return vxChildNS, nil
}

func vxGetPolicy(ps *policy.Store, ctx context.Context, name string, t policy.Type) (*policy.Policy, error) {
	return nil, nil
}

func vxGetOk(d *framework.FieldData, k string) (any, bool) { v, ok := d.Raw[k]; return v, ok }
func vxGet(d *framework.FieldData, k string) any {
	if v, ok := d.Raw[k]; ok {
		return v
	}
	switch k {
	case "policies":
		return []string(nil)
	case "no_parent", "no_default_policy":
		return false
	case "renewable":
		return true
	case "num_uses":
		return 0
	}
	return ""
}

// duration strings are opaque tokens naming arbitrary whole-second durations (or failing to parse)
func vxParseDuration(in any) (time.Duration, error) {
	s, _ := in.(string)
	if vxDurBad[s] {
		return 0, vxErr("could not parse duration")
	}
	d, ok := vxDurs[s]
	if !ok {
		return 0, vxErr("harness: unknown duration literal")
	}
	return d, nil
}

func vxDur(tag string) time.Duration { return time.Duration(vxInt64(tag)) }

var vxUniverse = []string{"root", "default", "p", "q", policy.ResponseWrappingPolicyName}

func vxSubset(tag string) []string {
	var out []string
	for _, n := range vxUniverse {
		if vxBool(tag + " has " + n) {
			out = append(out, n)
		}
	}
	return out
}

// a request / role list: up to n names drawn from the universe (duplicates and order included)
func vxList(tag string, n int) []string {
	k := vxChoose(tag+" length", n+1)
	var out []string
	for i := 0; i < k; i++ {
		out = append(out, vxUniverse[vxChoose(tag+" entry", len(vxUniverse))])
	}
	return out
}

func vxIn(xs []string, x string) bool {
	for _, y := range xs {
		if y == x {
			return true
		}
	}
	return false
}

type vxReq struct {
	raw                        map[string]any
	ttl, period, emax          time.Duration
	hasTTL, hasPeriod, hasEmax bool
	policies                   []string
	noParent, noDefault        bool
	id, typ                    string
	numUses                    int
}

// dims: which request dimensions are explored symbolically (the others keep their defaults)
func vxRequest(nPol int, lifetimes, misc bool) *vxReq {
	r := &vxReq{raw: map[string]any{}}
	vxDurs, vxDurBad = map[string]time.Duration{}, map[string]bool{}
	r.policies = vxList("requested policies", nPol)
	if len(r.policies) > 0 {
		r.raw["policies"] = r.policies
	}
	if r.noDefault = vxBool("no_default_policy"); r.noDefault {
		r.raw["no_default_policy"] = true
	}
	if lifetimes {
		if r.hasTTL = vxBool("ttl supplied"); r.hasTTL {
			r.ttl = vxDur("requested ttl")
			r.raw["ttl"], vxDurs["TTL"] = "TTL", r.ttl
		}
		if r.hasPeriod = vxBool("period supplied"); r.hasPeriod {
			r.period = vxDur("requested period")
			r.raw["period"], vxDurs["PERIOD"] = "PERIOD", r.period
		}
		if r.hasEmax = vxBool("explicit_max_ttl supplied"); r.hasEmax {
			r.emax = vxDur("requested explicit_max_ttl")
			r.raw["explicit_max_ttl"], vxDurs["EMAX"] = "EMAX", r.emax
		}
	}
	if misc {
		if r.noParent = vxBool("no_parent"); r.noParent {
			r.raw["no_parent"] = true
		}
		if vxBool("id supplied") {
			r.id = "custom-id"
			r.raw["id"] = r.id
		}
		r.typ = []string{"", "service", "batch", "bogus"}[vxChoose("type(unset,service,batch,invalid)", 4)]
		if r.typ != "" {
			r.raw["type"] = r.typ
		}
		r.numUses = vxInt("num_uses")
		r.raw["num_uses"] = r.numUses
	}
	return r
}

func vxTokenStore() *TokenStore {
	c := &Core{}
	ts := &TokenStore{Backend: &framework.Backend{}, core: c, logger: vxCLogger{}}
	c.policyStore = &policy.Store{}
	return ts
}

func vxCtx(ns *namespace.Namespace) context.Context {
	return namespace.ContextWithNamespace(context.Background(), ns)
}

// common post-conditions on whatever token entry reached ts.create
func vxCommonChecks(r *vxReq, role *tsRoleEntry, orphanEndpoint bool, crossNS bool, resp *logical.Response) {
	te := vxCreated
	parent := vxParent
	vxAssert("use-limited (also: just exhausted) and batch parents never create tokens", parent.NumUses == 0 && parent.Type != logical.TokenTypeBatch)
	vxAssert("a root child needs a root parent", !vxIn(te.Policies, "root") || vxIn(parent.Policies, "root"))
	vxAssert("batch tokens are never root", !(vxIn(te.Policies, "root") && te.Type == logical.TokenTypeBatch))
	vxAssert("non-assignable policies are never assigned", !vxIn(te.Policies, policy.ResponseWrappingPolicyName))
	vxAssert("num_uses is never negative", te.NumUses >= 0)
	if crossNS {
		vxAssert("creating a token in another namespace needs sudo and cannot yield root", vxSys.sudo && !vxIn(r.policies, "root"))
	}
	if !vxSys.sudo {
		vxAssert("a caller-chosen id needs sudo", te.ID == "")
		if role == nil {
			vxAssert("without sudo and without a role the token is not periodic", te.Period == 0)
			vxAssert("without sudo only the create-orphan endpoint yields an orphan", (te.Parent == "") == orphanEndpoint)
			for _, p := range te.Policies {
				vxAssert("without sudo and without a role every policy of the child is one the parent has", vxIn(parent.Policies, p))
			}
		}
	}
	// lifetime: bounded by the mount maximum and the explicit maximum, except for the non-expiring root of a
	// non-expiring root
	if te.TTL == 0 {
		vxReach("create: non-expiring")
		vxAssert("only a non-expiring root parent creates a non-expiring (root) token", vxIn(te.Policies, "root") && parent.TTL == 0 && vxIn(parent.Policies, "root"))
	} else {
		vxAssert("ttl positive", te.TTL > 0)
		emax := resp.Auth.ExplicitMaxTTL // the effective explicit maximum (request and role merged)
		if emax > 0 {
			vxAssert("lifetime within the token's explicit maximum", te.TTL <= emax)
		}
		// a root token made by a non-expiring root token is bound by its explicit maximum only (interpretation of
		// the statement's exception, see DESIGN.md C07)
		rootOfRoot := vxIn(te.Policies, "root") && parent.TTL == 0 && te.TTL == emax
		vxAssert("lifetime within the mount maximum", te.TTL <= vxSys.max || rootOfRoot)
	}
}

func vxSetup(nPol int, lifetimes, misc, fullParent bool) (*TokenStore, *vxReq) {
	vxCreated, vxCreates = nil, 0
	vxChildNS = &namespace.Namespace{ID: "child", Path: "child/"}
	vxSys = vxExtSys{sudo: vxBool("caller has sudo"), def: vxDur("mount default ttl"), max: vxDur("mount max ttl")}
	vxAssume(vxSys.def > 0 && vxSys.max >= vxSys.def)
	var pp []string
	if fullParent {
		pp = vxSubset("parent")
	} else {
		pp = [][]string{{"default", "p"}, {"root"}, {"p", "q"}}[vxChoose("parent policies({default,p},{root},{p,q})", vxParam("parents"))]
	}
	vxParent = &logical.TokenEntry{ID: "parent", Policies: pp, NamespaceID: namespace.RootNamespaceID,
		NumUses: vxInt("parent num_uses"), TTL: vxDur("parent ttl"), EntityID: "ent"}
	vxAssume(vxParent.TTL >= 0)
	if vxBool("parent is batch") {
		vxParent.Type = logical.TokenTypeBatch
	} else {
		vxParent.Type = logical.TokenTypeService
	}
	return vxTokenStore(), vxRequest(nPol, lifetimes, misc)
}

// plain endpoints (create, create-orphan), no role: the policy lattice - every parent policy set, every requested
// list, sudo or not, same or other namespace
func VxCreateNoRolePolicies() {
	ts, r := vxSetup(vxParam("reqpol"), false, false, true)
	vxCreateNoRole(ts, r, vxBool("request namespace differs from the parent's"))
}

// plain endpoints, no role: custom id, orphaning, token type, use limits - over three representative parents
func VxCreateNoRoleMisc() {
	ts, r := vxSetup(0, false, true, false)
	vxCreateNoRole(ts, r, vxBool("request namespace differs from the parent's"))
}

// plain endpoints, no role: ttl / period / explicit max for ALL durations - over three representative parents
func VxCreateNoRoleLifetimes() {
	ts, r := vxSetup(0, true, false, false)
	vxCreateNoRole(ts, r, false)
}

func vxCreateNoRole(ts *TokenStore, r *vxReq, crossNS bool) {
	orphanEndpoint := vxBool("create-orphan endpoint")
	ns := namespace.RootNamespace
	if crossNS {
		ns = vxChildNS
	}
	req := &logical.Request{ClientToken: "parent", Path: "create", MountPoint: "auth/token/"}
	resp, err := ts.handleCreateCommon(vxCtx(ns), req, &framework.FieldData{Raw: r.raw}, orphanEndpoint, nil)
	if vxCreates == 0 {
		vxReach("create: refused")
		vxAssert("a refused creation returns no auth", resp == nil || resp.Auth == nil)
		return
	}
	vxReach("create: accepted")
	vxAssert("exactly one token is created and the response describes it", vxCreates == 1 && err == nil && resp != nil && resp.Auth != nil)
	vxCommonChecks(r, nil, orphanEndpoint, crossNS, resp)
	te := vxCreated
	vxAssert("the response lists the created token's policies", len(resp.Auth.Policies) == len(te.Policies))
	if vxIn(te.Policies, "default") && !vxSys.sudo && !crossNS {
		vxAssert("default is only added when the parent has it", vxIn(vxParent.Policies, "default"))
	}
	if r.noDefault {
		vxAssert("no_default_policy strips default", !vxIn(te.Policies, "default"))
	}
	if r.typ == "bogus" {
		vxAssert("an invalid token type is refused", false)
	}
}

// role endpoint, policy side: the role's lists replace the subset rule in exactly the documented way
func VxRolePolicies() {
	ts, r := vxSetup(vxParam("rolereq"), false, false, false)
	role := &tsRoleEntry{Name: "r", Renewable: true}
	role.AllowedPolicies = vxList("role allowed_policies", vxParam("rolepol"))
	role.DisallowedPolicies = vxList("role disallowed_policies", 1)
	if vxBool("role has allowed glob") {
		role.AllowedPoliciesGlob = []string{"p*"}
	}
	if vxBool("role has disallowed glob") {
		role.DisallowedPoliciesGlob = []string{"q*"}
	}
	role.TokenNoDefaultPolicy = vxBool("role token_no_default_policy")
	vxRoleCreate(ts, r, role)
}

// role endpoint, parameter side: orphaning, token type, use limit, custom id / no_parent handling
func VxRoleMisc() {
	ts, r := vxSetup(0, false, true, false)
	role := &tsRoleEntry{Name: "r", Orphan: vxBool("role orphan"), Renewable: true}
	if vxBool("role has an allowed list") {
		role.AllowedPolicies = []string{"p"}
	}
	role.TokenNumUses = vxInt("role num uses")
	vxAssume(role.TokenNumUses >= 0)
	role.TokenType = []logical.TokenType{logical.TokenTypeDefault, logical.TokenTypeService, logical.TokenTypeBatch, logical.TokenTypeDefaultBatch}[vxChoose("role token type", 4)]
	vxRoleCreate(ts, r, role)
}

// role endpoint, lifetimes: explicit max and period merging between request and role, for ALL durations
func VxRoleLifetimes() {
	ts, r := vxSetup(0, true, false, false)
	role := &tsRoleEntry{Name: "r", Renewable: true}
	role.TokenExplicitMaxTTL = vxDur("role explicit max")
	role.TokenPeriod = vxDur("role period")
	vxAssume(role.TokenExplicitMaxTTL >= 0 && role.TokenPeriod >= 0)
	if vxBool("role issues batch tokens") {
		role.TokenType = logical.TokenTypeBatch
	}
	vxRoleCreate(ts, r, role)
}

// (formatting only: the merged values are printed in warnings)
func vxDurSeconds(d time.Duration) float64 { return 0 }

func vxRoleCreate(ts *TokenStore, r *vxReq, role *tsRoleEntry) {
	req := &logical.Request{ClientToken: "parent", Path: "create/r", MountPoint: "auth/token/"}
	resp, err := ts.handleCreateCommon(vxCtx(namespace.RootNamespace), req, &framework.FieldData{Raw: r.raw}, false, role)
	if vxCreates == 0 {
		vxReach("role create: refused")
		vxAssert("a refused creation returns no auth", resp == nil || resp.Auth == nil)
		return
	}
	vxReach("role create: accepted")
	vxAssert("exactly one token is created", vxCreates == 1 && err == nil && resp != nil && resp.Auth != nil)
	vxCommonChecks(r, role, false, false, resp)
	te := vxCreated
	hasLists := len(role.AllowedPolicies) > 0 || len(role.DisallowedPolicies) > 0 || len(role.AllowedPoliciesGlob) > 0 || len(role.DisallowedPoliciesGlob) > 0
	for _, p := range te.Policies {
		if len(role.AllowedPolicies) > 0 || len(role.AllowedPoliciesGlob) > 0 {
			ok := vxIn(role.AllowedPolicies, p) || (len(role.AllowedPoliciesGlob) > 0 && len(p) >= 1 && p[0] == 'p') || p == "default"
			vxAssert("with an allowed list every policy is on it (or is the automatically added default)", ok)
		}
		vxAssert("no policy on the role's disallowed list is assigned", !vxIn(role.DisallowedPolicies, p) && !(len(role.DisallowedPoliciesGlob) > 0 && p[0] == 'q'))
		if !hasLists && !vxSys.sudo {
			vxAssert("a role without lists keeps the subset-of-parent rule", vxIn(vxParent.Policies, p))
		}
	}
	vxAssert("the token is an orphan exactly when the role says so (no_parent is ignored with a role)", (te.Parent == "") == role.Orphan)
	vxAssert("the role name is recorded", te.Role == "r")
	switch role.TokenType {
	case logical.TokenTypeService:
		vxAssert("role token type service wins", te.Type == logical.TokenTypeService)
	case logical.TokenTypeBatch:
		vxAssert("role token type batch wins", te.Type == logical.TokenTypeBatch)
	}
	if role.TokenExplicitMaxTTL > 0 && te.Type != logical.TokenTypeBatch && te.TTL > 0 {
		vxAssert("lifetime within the role's explicit maximum", te.TTL <= role.TokenExplicitMaxTTL)
	}
	if role.TokenNumUses > 0 {
		vxAssert("the role's use limit caps the token's", te.NumUses > 0 && te.NumUses <= role.TokenNumUses)
	}
}
