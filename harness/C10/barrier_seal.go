package barrier

// C10 — seal state and key rotation on the real AESGCMBarrier (ideal-AEAD model, boxed serialisers, crash/fault
// injecting physical model): sealed barrier serves nothing and holds no key material; unseal succeeds only with the
// root key; rotate / rotate-root-key keep earlier data readable after a crash or storage failure at ANY point;
// standby upgrade converges to the active keyring.
//
//vx:pkg github.com/openbao/openbao/v2/internal/vault/barrier
//vx:include ../common/barrier_models.go
//vx:bodies context,encoding/binary,crypto/subtle,github.com/openbao/openbao/v2/internal/helper/namespace
//vx:param prerot quick=0 thorough=2
//vx:unwind 400

import (
	"context"

	"github.com/openbao/openbao/sdk/v2/logical"
)

// (a) sealed: no operation touches storage or succeeds; Seal wipes key material
func VxSealedServesNothing() {
	ctx := context.Background()
	phys, root, _ := vxInitStore(false)
	b := vxNewBarrier(phys)
	vxAssert("unseal ok", b.Unseal(ctx, root) == nil)
	oldRing := b.keyring
	oldKey := oldRing.keys[1].Value
	vxAssert("seal ok", b.Seal() == nil)
	vxAssert("sealed: no keyring, empty AEAD cache", b.keyring == nil && len(b.cache) == 0 && b.Sealed())
	zero := true
	for _, x := range oldRing.rootKey {
		zero = zero && x == 0
	}
	for _, x := range oldKey {
		zero = zero && x == 0
	}
	vxAssert("seal zeroises the root key and the encryption keys", zero)
	before := phys.calls
	var err error
	switch vxChoose("op", 13) {
	case 0:
		err = b.Put(ctx, &logical.StorageEntry{Key: "k", Value: []byte{1}})
	case 1:
		_, err = b.Get(ctx, "secret/a")
	case 2:
		err = b.Delete(ctx, "secret/a")
	case 3:
		_, err = b.List(ctx, "secret/")
	case 4:
		_, err = b.ListPage(ctx, "secret/", "", 1)
	case 5:
		_, err = b.Encrypt(ctx, "k", []byte{1})
	case 6:
		_, err = b.Decrypt(ctx, "k", []byte{0, 0, 0, 1, 2, 9, 9})
	case 7:
		_, err = b.Rotate(ctx)
	case 8:
		err = b.CreateUpgrade(ctx, 2)
	case 9:
		_, _, err = b.CheckUpgrade(ctx)
	case 10:
		_, err = b.Keyring()
	case 11:
		err = b.VerifyRoot(root)
	case 12:
		err = b.RotateRootKey(ctx, root)
	}
	vxReach("sealed: operation attempted")
	vxAssert("sealed barrier refuses the operation", err == ErrBarrierSealed)
	vxAssert("sealed barrier does not touch storage", phys.calls == before)
}

// (b) unseal succeeds iff the key is the root key; a wrong key leaves the barrier sealed and keyless.
// Also: a current barrier that unseals a store written in the legacy format keeps writing the current format.
func VxUnseal() {
	ctx := context.Background()
	legacy := vxBool("store written by legacy barrier")
	phys, root, val := vxInitStore(legacy)
	b := vxNewBarrier(phys)
	cand := vxBytes("candidate", 32)
	err := b.Unseal(ctx, cand)
	if vxBytesEq(cand, root) {
		vxReach("unseal: right key")
		vxAssert("the root key unseals", err == nil && !b.Sealed())
		vxAssert("earlier data is readable", vxReadable(b, val))
		vxAssert("new write ok", b.Put(ctx, &logical.StorageEntry{Key: "secret/b", Value: []byte{9}}) == nil)
		rec := phys.vals[phys.find("secret/b")]
		vxAssert("new writes use the current (key-bound) record format whatever the stored keyring's format", rec[4] == AESGCMVersion2)
	} else {
		vxReach("unseal: wrong key")
		vxAssert("a wrong key is rejected as invalid", err == ErrBarrierInvalidKey)
		vxAssert("a wrong key leaves the barrier sealed without key material", b.Sealed() && b.keyring == nil)
	}
	short := vxBytes("short", vxChoose("shortLen", 3)*8)
	if len(short) != 16 && len(short) != 32 {
		b2 := vxNewBarrier(phys)
		vxAssert("a partial / wrong-size key leaves the barrier sealed", b2.Unseal(ctx, short) != nil && b2.Sealed())
	}
}

// (c) Rotate with a crash after ANY prefix of its storage writes (or none): after restart the root key unseals and
// the earlier record is readable; without crash new writes carry the new term and both records are readable.
func VxRotateCrash() {
	ctx := context.Background()
	phys, root, val := vxInitStore(false)
	b := vxNewBarrier(phys)
	vxAssert("unseal ok", b.Unseal(ctx, root) == nil)
	// earlier, completed rotations (each followed by a write under the new term)
	pre := vxParam("prerot")
	for i := 0; i < pre; i++ {
		_, perr := b.Rotate(ctx)
		vxAssert("earlier rotation ok", perr == nil)
		vxAssert("write under an earlier term ok", b.Put(ctx, &logical.StorageEntry{Key: "secret/t" + string(rune('0'+i)), Value: []byte{byte(10 + i)}}) == nil)
	}
	crash := vxChoose("crash after k writes (4 = no crash)", 5)
	if crash < 4 {
		phys.crashAt = phys.writes + crash
	}
	term, err := b.Rotate(ctx)
	if crash == 4 {
		vxReach("rotate: completed")
		vxAssert("rotate ok, term advanced", err == nil && term == uint32(2+pre))
		vxAssert("write after rotate ok", b.Put(ctx, &logical.StorageEntry{Key: "secret/new", Value: []byte{5}}) == nil)
		rec := phys.vals[phys.find("secret/new")]
		vxAssert("new writes use the newest key term", rec[3] == byte(2+pre) && rec[0] == 0 && rec[1] == 0 && rec[2] == 0)
		vxAssert("old record still readable by the same barrier", vxReadable(b, val))
	} else {
		vxReach("rotate: crashed")
	}
	phys.crashAt = -1
	r := vxNewBarrier(phys) // restart
	vxAssert("after restart the root key unseals", r.Unseal(ctx, root) == nil)
	vxAssert("after restart the earlier record is readable", vxReadable(r, val))
	for i := 0; i < pre; i++ {
		e, gerr := r.Get(ctx, "secret/t"+string(rune('0'+i)))
		vxAssert("after restart every record written under an intermediate term is readable", gerr == nil && e != nil && len(e.Value) == 1 && e.Value[0] == byte(10+i))
	}
	if crash == 4 {
		e, err := r.Get(ctx, "secret/new")
		vxAssert("after restart the record written under the new term is readable", err == nil && e != nil && len(e.Value) == 1 && e.Value[0] == 5)
	}
}

// (c') Rotate / RotateRootKey hit by ONE storage failure at ANY call, node keeps running, rotates again later, then
// restarts: some currently valid root key (old or new) unseals and earlier data is readable.
func VxRootRotationFault() {
	ctx := context.Background()
	phys, root, val := vxInitStore(false)
	b := vxNewBarrier(phys)
	vxAssert("unseal ok", b.Unseal(ctx, root) == nil)
	newRoot := vxBytes("newRoot", 32)
	same := vxBytesEq(newRoot, root) // rotating to the very same key bytes is allowed (and must stay harmless)
	fail := vxChoose("failing call (4 = none)", 5)
	if fail < 4 {
		phys.failAt = phys.calls + fail
	}
	err := b.RotateRootKey(ctx, newRoot)
	phys.failAt = -1
	if fail == 4 {
		vxReach("root rotation: completed")
		vxAssert("root rotation ok", err == nil)
	} else if err != nil {
		vxReach("root rotation: failed")
	}
	vxAssert("barrier still serves earlier data", vxReadable(b, val))
	if err != nil {
		vxAssert("after a failed root rotation the barrier still verifies its (old) root key", b.VerifyRoot(root) == nil)
	}
	// the node keeps running: a later keyring persist (encryption-key rotation)
	_, rerr := b.Rotate(ctx)
	vxAssert("later rotate ok", rerr == nil)
	r := vxNewBarrier(phys) // restart
	okOld := r.Unseal(ctx, root) == nil
	if !okOld {
		okNew := r.Unseal(ctx, newRoot) == nil
		vxAssert("after restart a currently valid root key (old or new) unseals", okNew)
		vxAssert("new root key is only required when the rotation was reported successful", err == nil)
	} else {
		vxAssert("old root key only keeps working when the rotation was not completed", err != nil || same)
	}
	vxAssert("after restart the earlier record is readable", vxReadable(r, val))
}

// (c”) Rotate hit by ONE storage failure at ANY of its calls, node keeps running and the rotation is retried (drawing
// fresh key material): what is written afterwards is readable by the running barrier AND after a restart, i.e. it was
// encrypted under a key that is in the persisted keyring - an abandoned candidate key is never used.
func VxRotateFaultThenRetry() {
	ctx := context.Background()
	phys, root, val := vxInitStore(false)
	b := vxNewBarrier(phys)
	vxAssert("unseal ok", b.Unseal(ctx, root) == nil)
	fail := vxChoose("failing call (6 = none)", 7)
	if fail < 6 {
		phys.failAt = phys.calls + fail
	}
	_, err := b.Rotate(ctx)
	phys.failAt = -1
	if err != nil {
		vxReach("rotate: failed, retried")
		vxAssert("after a failed rotation the barrier still serves earlier data", vxReadable(b, val))
		_, err = b.Rotate(ctx)
	}
	vxAssert("the (re)tried rotation succeeds", err == nil)
	nv := vxByte("value written after the rotation")
	vxAssert("write after rotation ok", b.Put(ctx, &logical.StorageEntry{Key: "secret/new", Value: []byte{nv}}) == nil)
	e, gerr := b.Get(ctx, "secret/new")
	vxAssert("the running barrier reads back what it wrote", gerr == nil && e != nil && len(e.Value) == 1 && e.Value[0] == nv)
	vxAssert("and still serves earlier data", vxReadable(b, val))
	r := vxNewBarrier(phys) // restart (or a standby reloading the keyring)
	vxAssert("after restart the root key unseals", r.Unseal(ctx, root) == nil)
	vxAssert("after restart the earlier record is readable", vxReadable(r, val))
	e, gerr = r.Get(ctx, "secret/new")
	vxAssert("after restart the record written after the retried rotation is readable (it was encrypted under a persisted key)", gerr == nil && e != nil && len(e.Value) == 1 && e.Value[0] == nv)
	vxReach("rotate fault: restarted")
}

// the periodic auto-rotate check (which persists the keyring to save encryption counts) racing a rotation: the
// rotation request arrives while the check is writing the keyring (second logical thread, started right before the
// check's first physical write; it is held by the barrier lock and resumed when the check releases it). Afterwards the
// store on disk must hold the rotated keyring: what was written under the new term is readable after a restart.
func VxAutoRotateCheckRacesRotate() {
	ctx := context.Background()
	phys, root, val := vxInitStore(false)
	b := vxNewBarrier(phys)
	vxAssert("unseal ok", b.Unseal(ctx, root) == nil)
	vxAssert("a write, so that there are encryption counts to persist", b.Put(ctx, &logical.StorageEntry{Key: "secret/b", Value: []byte{3}}) == nil)
	rootRotation := vxBool("the racing request is a root-key rotation (else an encryption-key rotation)")
	newRoot := vxBytes("newRoot", 32)
	done := false
	vxBeforePhysPut = func() {
		vxSpawn(func() {
			if rootRotation {
				vxAssert("root rotation ok", b.RotateRootKey(ctx, newRoot) == nil)
			} else {
				_, rerr := b.Rotate(ctx)
				vxAssert("rotation ok", rerr == nil)
			}
			vxAssert("write after the rotation ok", b.Put(ctx, &logical.StorageEntry{Key: "secret/new", Value: []byte{5}}) == nil)
			done = true
		})
	}
	reason, cerr := b.CheckBarrierAutoRotate(ctx)
	vxAssert("auto-rotate check ok", cerr == nil)
	if reason != "" {
		// the (symbolic) clock says a rotation is due: the check only reports that and writes nothing
		vxAssert("a check that reports a due rotation writes nothing", vxBeforePhysPut != nil)
		vxBeforePhysPut = nil
		return
	}
	vxAssert("the check did write the keyring (the scheduling point was reached)", vxBeforePhysPut == nil)
	vxAssert("the rotation completes once the check has released the barrier lock", done)
	vxReach("auto-rotate check raced by a rotation")
	r := vxNewBarrier(phys) // restart
	okOld := r.Unseal(ctx, root) == nil
	if !okOld {
		vxAssert("after restart a valid root key (old, or new after a root rotation) unseals", rootRotation && r.Unseal(ctx, newRoot) == nil)
	} else {
		vxAssert("the old root key only keeps working if the root key was not rotated (or rotated to the same bytes)", !rootRotation || vxBytesEq(newRoot, root))
	}
	vxAssert("after restart the earlier record is readable", vxReadable(r, val))
	e, gerr := r.Get(ctx, "secret/new")
	vxAssert("after restart the record written under the rotated keyring is readable (the check's stale keyring did not overwrite the rotation)", gerr == nil && e != nil && len(e.Value) == 1 && e.Value[0] == 5)
}

// RotateRootKey with a crash after any prefix of its writes
func VxRootRotationCrash() {
	ctx := context.Background()
	phys, root, val := vxInitStore(false)
	b := vxNewBarrier(phys)
	vxAssert("unseal ok", b.Unseal(ctx, root) == nil)
	newRoot := vxBytes("newRoot", 32)
	same := vxBytesEq(newRoot, root)
	crash := vxChoose("crash after k writes (4 = no crash)", 5)
	if crash < 4 {
		phys.crashAt = phys.writes + crash
	}
	err := b.RotateRootKey(ctx, newRoot)
	vxAssert("root rotation reported ok", err == nil)
	phys.crashAt = -1
	r := vxNewBarrier(phys)
	okOld := r.Unseal(ctx, root) == nil
	okNew := false
	if !okOld {
		okNew = r.Unseal(ctx, newRoot) == nil
	}
	vxReach("root rotation crash: restarted")
	vxAssert("after a crash inside root rotation, the old or the new root key unseals", okOld || okNew)
	vxAssert("and the earlier record is readable", vxReadable(r, val))
	if crash == 4 {
		vxAssert("completed rotation: the new root key is the valid one", (okNew && !okOld) || (same && okOld))
		// the node keeps running after the rotation: a later keyring persist must still be under the valid root key
		_, rerr := b.Rotate(ctx)
		vxAssert("rotate after root rotation ok", rerr == nil)
		r2 := vxNewBarrier(phys)
		vxAssert("after a later keyring persist and a restart the new root key still unseals", r2.Unseal(ctx, newRoot) == nil)
		vxAssert("and the earlier record is still readable", vxReadable(r2, val))
	}
}

// standby following the upgrade path ends with the active node's keyring
func VxStandbyUpgrade() {
	ctx := context.Background()
	phys, root, val := vxInitStore(false)
	active := vxNewBarrier(phys)
	standby := vxNewBarrier(phys)
	vxAssert("both unseal", active.Unseal(ctx, root) == nil && standby.Unseal(ctx, root) == nil)
	n := 1 + vxChoose("second rotation", 2)
	for i := 0; i < n; i++ {
		t, err := active.Rotate(ctx)
		vxAssert("rotate ok", err == nil)
		vxAssert("create upgrade ok", active.CreateUpgrade(ctx, t) == nil)
	}
	for i := 0; i < 4; i++ {
		did, _, err := standby.CheckUpgrade(ctx)
		vxAssert("check upgrade ok", err == nil)
		if !did {
			break
		}
	}
	vxReach("standby: upgraded")
	vxAssert("standby has the active term", standby.keyring.activeTerm == active.keyring.activeTerm && len(standby.keyring.keys) == len(active.keyring.keys))
	for term, k := range active.keyring.keys {
		sk := standby.keyring.keys[term]
		vxAssert("standby holds the same key for every term", sk != nil && vxBytesEq(sk.Value, k.Value))
	}
	vxAssert("write on the active under the newest term is readable on the standby", active.Put(ctx, &logical.StorageEntry{Key: "secret/a", Value: val}) == nil && vxReadable(standby, val))
}
