package vault

// C10 (e) — barrier rekey (new unseal key shares + new root key) with a crash after ANY prefix of its storage
// writes: the real Core.performBarrierRekey, the real defaultSeal (SetStoredKeys / GetStoredKeys / SetBarrierConfig,
// writeStoredKeys / readStoredKeys, seal.access), the real AESGCMBarrier (RotateRootKey, Put, Unseal, Get, persist /
// reload of keyring and root key) over an ideal AEAD and a physical model that loses every write after the crash
// point. After a restart, the unseal procedure (unseal key -> stored root key -> barrier.Unseal) must succeed with
// the OLD unseal key unless the rekey completed (only then were the new shares handed to the operators), and with the
// NEW key if it completed; data written before stays readable.
//
//vx:pkg github.com/openbao/openbao/v2/internal/vault
//vx:assume AES-GCM (barrier and Shamir key-encryption key) is ideal: fresh collision-free ciphertexts, Open / Decrypt succeed only on what was sealed under the same key bytes (and additional data); json and protobuf (de)serialisation are boxes; physical storage is an association list whose writes are all lost from a symbolic crash point on; the unseal key (KEK) that Shamir shares reconstruct is modelled by its bytes
//vx:bodies context,encoding/binary,crypto/subtle,github.com/openbao/openbao/v2/internal/vault/barrier,github.com/openbao/openbao/v2/internal/vault/seal,github.com/openbao/openbao/sdk/v2/logical,github.com/openbao/openbao/sdk/v2/physical,github.com/openbao/openbao/v2/internal/helper/namespace
//vx:redirect (*github.com/openbao/openbao/v2/internal/vault/barrier.AESGCMBarrier).aeadFromKey vxKAEADFromKey
//vx:redirect encoding/json.Marshal vxKJSONMarshal
//vx:redirect encoding/json.Unmarshal vxKJSONUnmarshal
//vx:redirect github.com/openbao/openbao/sdk/v2/helper/jsonutil.DecodeJSON vxKDecodeJSON
//vx:redirect google.golang.org/protobuf/proto.Marshal vxKProtoMarshal
//vx:redirect google.golang.org/protobuf/proto.Unmarshal vxKProtoUnmarshal
//vx:redirect crypto/rand.Read vxKRandRead
//vx:redirect (*github.com/openbao/go-kms-wrapping/v2/aead.Wrapper).SetAesGcmKeyBytes vxKSetKey
//vx:redirect (*github.com/openbao/go-kms-wrapping/v2/aead.Wrapper).Encrypt vxKWrapEncrypt
//vx:redirect (*github.com/openbao/go-kms-wrapping/v2/aead.Wrapper).Decrypt vxKWrapDecrypt
//vx:redirect (github.com/openbao/go-kms-wrapping/v2.WrapperType).String vxKTypeString
//vx:redirect (*github.com/openbao/openbao/v2/internal/vault.SealManager).namespaceBarrier vxKNamespaceBarrier
//vx:noop github.com/hashicorp/go-metrics/compat.*
//vx:noop github.com/openbao/openbao/v2/internal/vault/barrier.termLabel
//vx:unwind 200

import (
	"bytes"
	"context"
	"crypto/cipher"

	log "github.com/hashicorp/go-hclog"
	wrapping "github.com/openbao/go-kms-wrapping/v2"
	"github.com/openbao/go-kms-wrapping/v2/aead"
	"github.com/openbao/openbao/sdk/v2/logical"
	"github.com/openbao/openbao/sdk/v2/physical"
	"github.com/openbao/openbao/v2/internal/helper/namespace"
	"github.com/openbao/openbao/v2/internal/vault/barrier"
	"github.com/openbao/openbao/v2/internal/vault/seal"
	"google.golang.org/protobuf/proto"
)

type vxKLogger struct{ log.Logger }

func (vxKLogger) Debug(msg string, args ...interface{}) {}
func (vxKLogger) Trace(msg string, args ...interface{}) {}
func (vxKLogger) Info(msg string, args ...interface{})  {}
func (vxKLogger) Warn(msg string, args ...interface{})  {}
func (vxKLogger) Error(msg string, args ...interface{}) {}

func vxKEq(a, b []byte) bool { return bytes.Equal(a, b) }

func vxKTypeString(t wrapping.WrapperType) string { return string(t) }

// ---- ideal AEAD for the barrier ----

type vxKSeal struct{ key, aad, pt, ct []byte }

var vxKSeals []vxKSeal

type vxKAEAD struct{ key []byte }

func vxKAEADFromKey(b *barrier.AESGCMBarrier, key []byte) (cipher.AEAD, error) {
	return &vxKAEAD{key: append([]byte(nil), key...)}, nil
}
func (a *vxKAEAD) NonceSize() int { return 12 }
func (a *vxKAEAD) Overhead() int  { return 28 }
func (a *vxKAEAD) Seal(dst, nonce, pt, aad []byte) []byte {
	ct := vxBytes("ciphertext", len(pt)+28)
	for _, r := range vxKSeals {
		if len(r.ct) == len(ct) {
			vxAssume(!vxKEq(r.ct, ct))
		}
	}
	vxKSeals = append(vxKSeals, vxKSeal{key: a.key, aad: append([]byte(nil), aad...), pt: append([]byte(nil), pt...), ct: ct})
	return append(dst, ct...)
}
func (a *vxKAEAD) Open(dst, nonce, ct, aad []byte) ([]byte, error) {
	for _, r := range vxKSeals {
		if len(r.ct) == len(ct) && vxKEq(r.ct, ct) && vxKEq(r.key, a.key) && vxKEq(r.aad, aad) {
			return append(dst, r.pt...), nil
		}
	}
	return nil, vxErr("cipher: message authentication failed")
}

// ---- ideal AEAD wrapper for the unseal key (Shamir KEK) ----

var vxKWrapKeys = map[*aead.Wrapper][]byte{}

type vxKBlob struct{ key, pt, ct []byte }

var vxKBlobs []vxKBlob

func vxKSetKey(w *aead.Wrapper, key []byte) error {
	vxKWrapKeys[w] = append([]byte(nil), key...)
	return nil
}
func vxKWrapEncrypt(w *aead.Wrapper, ctx context.Context, pt []byte, opt ...wrapping.Option) (*wrapping.BlobInfo, error) {
	ct := vxBytes("kek-ciphertext", 8)
	for _, r := range vxKBlobs {
		vxAssume(!vxKEq(r.ct, ct))
	}
	vxKBlobs = append(vxKBlobs, vxKBlob{key: vxKWrapKeys[w], pt: append([]byte(nil), pt...), ct: ct})
	return &wrapping.BlobInfo{Ciphertext: ct}, nil
}
func vxKWrapDecrypt(w *aead.Wrapper, ctx context.Context, in *wrapping.BlobInfo, opt ...wrapping.Option) ([]byte, error) {
	for _, r := range vxKBlobs {
		if vxKEq(r.ct, in.Ciphertext) && vxKEq(r.key, vxKWrapKeys[w]) {
			return append([]byte(nil), r.pt...), nil
		}
	}
	return nil, vxErr("cipher: message authentication failed")
}

// ---- serialiser boxes, randomness ----

func vxKJSONMarshal(v any) ([]byte, error) { return vxBox(v), nil }
func vxKJSONUnmarshal(data []byte, v any) error {
	if !vxUnbox(data, v) {
		return vxErr("invalid JSON")
	}
	return nil
}
func vxKDecodeJSON(data []byte, out interface{}) error { return vxKJSONUnmarshal(data, out) }
func vxKProtoMarshal(m proto.Message) ([]byte, error)  { return vxBox(m), nil }
func vxKProtoUnmarshal(b []byte, m proto.Message) error {
	if !vxUnbox(b, m) {
		return vxErr("invalid protobuf")
	}
	return nil
}
func vxKRandRead(b []byte) (int, error) {
	for i := range b {
		b[i] = vxByte("rand")
	}
	return len(b), nil
}

// ---- physical model with a crash point ----

type vxKPhys struct {
	keys    []string
	vals    [][]byte
	writes  int
	crashAt int
	log     []string
}

func (m *vxKPhys) find(k string) int {
	for i := range m.keys {
		if m.keys[i] == k {
			return i
		}
	}
	return -1
}
func (m *vxKPhys) Put(ctx context.Context, e *physical.Entry) error {
	m.log = append(m.log, "put "+e.Key)
	m.writes++
	if m.crashAt >= 0 && m.writes-1 >= m.crashAt {
		return nil
	}
	v := append([]byte(nil), e.Value...)
	if i := m.find(e.Key); i >= 0 {
		m.vals[i] = v
		return nil
	}
	m.keys, m.vals = append(m.keys, e.Key), append(m.vals, v)
	return nil
}
func (m *vxKPhys) Get(ctx context.Context, k string) (*physical.Entry, error) {
	if i := m.find(k); i >= 0 {
		return &physical.Entry{Key: k, Value: append([]byte(nil), m.vals[i]...)}, nil
	}
	return nil, nil
}
func (m *vxKPhys) Delete(ctx context.Context, k string) error {
	m.log = append(m.log, "delete "+k)
	m.writes++
	if m.crashAt >= 0 && m.writes-1 >= m.crashAt {
		return nil
	}
	if i := m.find(k); i >= 0 {
		m.keys = append(m.keys[:i:i], m.keys[i+1:]...)
		m.vals = append(m.vals[:i:i], m.vals[i+1:]...)
	}
	return nil
}
func (m *vxKPhys) List(ctx context.Context, p string) ([]string, error) { return nil, nil }
func (m *vxKPhys) ListPage(ctx context.Context, p, a string, l int) ([]string, error) {
	return nil, nil
}

// ---- a node: barrier + seal over the physical store ----

func vxKNode(phys *vxKPhys, kek []byte) (*Core, *defaultSeal, barrier.SecurityBarrier) {
	b := barrier.NewAESGCMBarrier(phys, nil)
	w := &seal.ShamirWrapper{Wrapper: &aead.Wrapper{}}
	vxKSetKey(w.Wrapper, kek)
	c := &Core{logger: vxKLogger{}, physical: phys, barrier: b}
	s := &defaultSeal{core: c, access: seal.NewAccess(w)}
	s.SetConfigAccess(b)
	c.seal = s
	return c, s, b
}

// a separately sealed namespace: its barrier and seal keep their own records below the namespace's storage prefix
var vxKNS = &namespace.Namespace{ID: "n1", UUID: "u1", Path: "n1/"}

func vxKNodeNS(phys *vxKPhys, kek []byte) (*Core, *defaultSeal, barrier.SecurityBarrier) {
	b := barrier.NewAESGCMBarrier(phys, vxKNS)
	w := &seal.ShamirWrapper{Wrapper: &aead.Wrapper{}}
	vxKSetKey(w.Wrapper, kek)
	c := &Core{logger: vxKLogger{}, physical: phys, barrier: b}
	s := &defaultSeal{core: c, access: seal.NewAccess(w)}
	s.SetConfigAccess(b)
	s.SetMetaPrefix(NamespaceStoragePathPrefix(vxKNS))
	return c, s, b
}

func vxKUnsealWithNS(phys *vxKPhys, kek []byte) (barrier.SecurityBarrier, bool) {
	_, s, b := vxKNodeNS(phys, kek)
	keys, err := s.GetStoredKeys(context.Background())
	if err != nil || len(keys) != 1 {
		return nil, false
	}
	if b.Unseal(context.Background(), keys[0]) != nil {
		return nil, false
	}
	return b, true
}

// the unseal procedure of a restarted node: unseal key -> stored root key -> barrier
func vxKUnsealWith(phys *vxKPhys, kek []byte) (barrier.SecurityBarrier, bool) {
	_, s, b := vxKNode(phys, kek)
	keys, err := s.GetStoredKeys(context.Background())
	if err != nil || len(keys) != 1 {
		return nil, false
	}
	if b.Unseal(context.Background(), keys[0]) != nil {
		return nil, false
	}
	return b, true
}

func vxKReadable(b barrier.SecurityBarrier, val []byte) bool {
	e, err := b.Get(context.Background(), "secret/a")
	return err == nil && e != nil && vxKEq(e.Value, val)
}

func VxBarrierRekeyCrash() {
	ctx := context.Background()
	phys := &vxKPhys{crashAt: -1}
	oldKEK, newKEK := vxBytes("old unseal key", 32), vxBytes("new unseal key", 32)
	vxAssume(!vxKEq(oldKEK, newKEK))
	root := vxBytes("root key", 32)
	c, s, b := vxKNode(phys, oldKEK)
	vxAssert("initialize ok", b.Initialize(ctx, root, nil) == nil)
	vxAssert("unseal ok", b.Unseal(ctx, root) == nil)
	vxAssert("stored keys ok", s.SetStoredKeys(ctx, [][]byte{root}) == nil)
	val := vxBytes("value", 2)
	vxAssert("write ok", b.Put(ctx, &logical.StorageEntry{Key: "secret/a", Value: val}) == nil)
	c.rootRotationConfig = &SealConfig{SecretShares: 1, SecretThreshold: 1, Nonce: "n"}
	_, sane := vxKUnsealWith(phys, oldKEK)
	vxAssert("before the rekey the old unseal key opens the store", sane)

	w0 := phys.writes
	crash := vxChoose("crash after k writes of the rekey (8 = no crash)", 9)
	if crash < 8 {
		phys.crashAt = phys.writes + crash
	}
	rerr := c.performBarrierRekey(ctx, newKEK)
	nwrites := phys.writes - w0
	vxAssert("rekey reports success", rerr == nil)
	completed := crash == 8 || crash >= nwrites
	phys.crashAt = -1

	// restart
	bOld, okOld := vxKUnsealWith(phys, oldKEK)
	bNew, okNew := vxKUnsealWith(phys, newKEK)
	if completed {
		vxReach("rekey: completed")
		vxAssert("after a completed rekey the new unseal key opens the store", okNew)
		if okNew {
			vxAssert("and earlier data is readable", vxKReadable(bNew, val))
		}
		vxAssert("after a completed rekey the old unseal key no longer opens the store", !okOld)
		return
	}
	vxReach("rekey: crashed inside")
	// the new shares are only handed to the operators when the rekey call returns: before that the old ones must work
	vxAssert("a crash inside barrier rekey leaves a store the old unseal key opens", okOld)
	if okOld {
		vxAssert("and earlier data is readable after the crash", vxKReadable(bOld, val))
	}
	_ = bNew
}

// the same operation for a separately sealed namespace: SealManager.performRootRotation (rotate.go) has the shape of
// performBarrierRekey - stored root key under the NEW unseal key, root-key rotation, new seal key, seal configuration,
// as separate writes - and is checked the same way.
var vxKNSBarrier barrier.SecurityBarrier

func vxKNamespaceBarrier(sm *SealManager, nsPath string) barrier.SecurityBarrier { return vxKNSBarrier }

func VxNamespaceRootRotationCrash() {
	ctx := context.Background()
	phys := &vxKPhys{crashAt: -1}
	oldKEK, newKEK := vxBytes("old unseal key", 32), vxBytes("new unseal key", 32)
	vxAssume(!vxKEq(oldKEK, newKEK))
	root := vxBytes("root key", 32)
	c, s, b := vxKNodeNS(phys, oldKEK)
	vxAssert("initialize ok", b.Initialize(ctx, root, nil) == nil)
	vxAssert("unseal ok", b.Unseal(ctx, root) == nil)
	vxAssert("stored keys ok", s.SetStoredKeys(ctx, [][]byte{root}) == nil)
	val := vxBytes("value", 2)
	vxAssert("write ok", b.Put(ctx, &logical.StorageEntry{Key: "secret/a", Value: val}) == nil)
	// a record of the ROOT namespace that happens to have the same name as one of the namespace's own records
	rootRecord := []byte("root namespace's own shamir-kek record")
	phys.keys, phys.vals = append(phys.keys, barrier.ShamirKekPath), append(phys.vals, rootRecord)
	sm := &SealManager{core: c, logger: vxKLogger{}}
	vxKNSBarrier = b
	cfg := &SealConfig{SecretShares: 1, SecretThreshold: 1, Nonce: "n"}
	_, sane := vxKUnsealWithNS(phys, oldKEK)
	vxAssert("before the rotation the old unseal key opens the namespace", sane)

	w0 := phys.writes
	crash := vxChoose("crash after k writes of the rotation (8 = no crash)", 9)
	if crash < 8 {
		phys.crashAt = phys.writes + crash
	}
	l0 := len(phys.log)
	rerr := sm.performRootRotation(ctx, vxKNS, newKEK, cfg, s)
	nwrites := phys.writes - w0
	for _, op := range phys.log[l0:] {
		vxAssert("a namespace's root rotation writes only below that namespace's storage prefix", vxKUnderNS(op))
	}
	ri := phys.find(barrier.ShamirKekPath)
	vxAssert("records of the root namespace are left alone by a namespace's rotation", ri >= 0 && vxKEq(phys.vals[ri], rootRecord))
	vxAssert("rotation reports success", rerr == nil)
	completed := crash == 8 || crash >= nwrites
	phys.crashAt = -1
	bOld, okOld := vxKUnsealWithNS(phys, oldKEK)
	bNew, okNew := vxKUnsealWithNS(phys, newKEK)
	if completed {
		vxReach("namespace rotation: completed")
		vxAssert("after a completed rotation the new unseal key opens the namespace", okNew)
		if okNew {
			vxAssert("and earlier data is readable", vxKReadable(bNew, val))
		}
		vxAssert("after a completed rotation the old unseal key no longer opens the namespace", !okOld)
		return
	}
	vxReach("namespace rotation: crashed inside")
	vxAssert("a crash inside a namespace's root rotation leaves a namespace the old unseal key opens", okOld)
	if okOld {
		vxAssert("and earlier data is readable after the crash", vxKReadable(bOld, val))
	}
	_ = bNew
}

func vxKUnderNS(op string) bool {
	// op = "put <key>" / "delete <key>"
	for i := 0; i < len(op); i++ {
		if op[i] == ' ' {
			k := op[i+1:]
			p := "namespaces/u1/"
			return len(k) >= len(p) && k[:len(p)] == p
		}
	}
	return false
}
