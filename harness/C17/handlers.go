package transit

// C17 — transit encrypt / decrypt handlers bind every batch item to its OWN inputs: the real pathEncryptWrite and
// pathDecryptWrite, for batches of 1..3 items with symbolic ciphertext / plaintext, context, associated data and key
// version per item, hand to the key policy exactly item i's ciphertext (plaintext), context, associated data and
// version - never another item's - and report the result at position i.
//
//vx:pkg github.com/openbao/openbao/v2/internal/builtin/logical/transit
//vx:assume the key policy's EncryptWithFactory / DecryptWithFactory are replaced by a recording stub whose result names the inputs it was given (their own behaviour is decided by harness/C17/transit.go); batch item decoding (mapstructure) is a typed copy; base64 is the identity; policy lookup returns a locked AES-256 policy
//vx:bodies context,encoding/base64,github.com/openbao/openbao/sdk/v2/logical,github.com/openbao/openbao/sdk/v2/helper/keysutil,github.com/openbao/openbao/sdk/v2/helper/errutil
//vx:redirect (*github.com/openbao/openbao/sdk/v2/helper/keysutil.Policy).DecryptWithFactory vxPolicyDecrypt
//vx:redirect (*github.com/openbao/openbao/sdk/v2/helper/keysutil.Policy).EncryptWithFactory vxPolicyEncrypt
//vx:redirect (*github.com/openbao/openbao/v2/internal/builtin/logical/transit.backend).GetPolicy vxGetPolicy
//vx:redirect (*github.com/openbao/openbao/sdk/v2/helper/keysutil.Policy).Unlock vxPolicyUnlock
//vx:redirect (*github.com/openbao/openbao/sdk/v2/framework.Backend).GetRandomReader vxRandReader
//vx:redirect github.com/openbao/openbao/v2/internal/builtin/logical/transit.decodeDecryptBatchRequestItems vxDecodeBatch
//vx:redirect github.com/openbao/openbao/v2/internal/builtin/logical/transit.decodeEncryptBatchRequestItems vxDecodeBatch
//vx:redirect (*encoding/base64.Encoding).DecodeString vxB64Dec
//vx:redirect (*github.com/openbao/openbao/sdk/v2/framework.FieldData).Get vxGet
//vx:redirect (*github.com/openbao/openbao/sdk/v2/framework.FieldData).GetOk vxGetOk
//vx:redirect (*github.com/openbao/openbao/sdk/v2/framework.FieldData).GetOkErr vxGetOkErr
//vx:redirect github.com/openbao/openbao/sdk/v2/logical.StartTxStorage vxStartTx
//vx:redirect github.com/openbao/openbao/sdk/v2/logical.EndTxStorage vxEndTx
//vx:redirect encoding/json.Marshal vxJSONMarshal
//vx:redirect github.com/openbao/openbao/sdk/v2/logical.RespondWithStatusCode vxRespondWithStatus
//vx:param items quick=2 thorough=3
//vx:unwind 100

import (
	"context"
	"encoding/base64"
	"io"

	"github.com/openbao/openbao/sdk/v2/framework"
	"github.com/openbao/openbao/sdk/v2/helper/keysutil"
	"github.com/openbao/openbao/sdk/v2/logical"
)

type vxCall struct {
	ctx, aad, value string
	ver             int
	hasAAD          bool
	nAAD            int
}

var (
	vxCalls  []vxCall
	vxPolicy *keysutil.Policy
	vxFailAt int
)

func vxFactories(fs []any) (string, bool, int) {
	aad, has, n := "", false, 0
	for _, f := range fs {
		if a, ok := f.(AssocDataFactory); ok {
			b, _ := a.GetAssociatedData()
			aad, has = string(b), true
			n++
		}
	}
	return aad, has, n
}

func vxPolicyDecrypt(p *keysutil.Policy, ctx, nonce []byte, value string, factories ...any) (string, error) {
	aad, has, n := vxFactories(factories)
	vxCalls = append(vxCalls, vxCall{ctx: string(ctx), aad: aad, value: value, hasAAD: has, nAAD: n})
	if len(vxCalls)-1 == vxFailAt {
		return "", vxErr("cipher: message authentication failed")
	}
	return "pt<" + value + "|" + string(ctx) + "|" + aad + ">", nil
}

func vxPolicyEncrypt(p *keysutil.Policy, ver int, ctx, nonce []byte, value string, factories ...any) (string, error) {
	aad, has, n := vxFactories(factories)
	vxCalls = append(vxCalls, vxCall{ctx: string(ctx), aad: aad, value: value, ver: ver, hasAAD: has, nAAD: n})
	if len(vxCalls)-1 == vxFailAt {
		return "", vxErr("requested version for encryption is less than the minimum encryption key version")
	}
	return "ct<" + value + "|" + string(ctx) + "|" + aad + ">", nil
}

func vxGetPolicy(b *backend, ctx context.Context, req keysutil.PolicyRequest, r io.Reader) (*keysutil.Policy, bool, error) {
	vxLocked++
	return vxPolicy, false, nil
}

var vxLocked int

func vxPolicyUnlock(p *keysutil.Policy)           { vxLocked-- }
func vxRandReader(b *framework.Backend) io.Reader { return nil }

func vxDecodeBatch(src any, dst *[]BatchRequestItem) error {
	items, ok := src.([]BatchRequestItem)
	if !ok {
		return vxErr("batch_input is not a list of items")
	}
	*dst = append([]BatchRequestItem(nil), items...)
	return nil
}

func vxB64Dec(e *base64.Encoding, s string) ([]byte, error) { return []byte(s), nil }
func vxJSONMarshal(v any) ([]byte, error)                   { return vxBox(v), nil }

// partial failures are answered with an HTTP status and the same body: keep the body inspectable
var vxStatus int

func vxRespondWithStatus(resp *logical.Response, req *logical.Request, code int) (*logical.Response, error) {
	vxStatus = code
	return resp, nil
}

func vxGetOk(d *framework.FieldData, k string) (any, bool) { v, ok := d.Raw[k]; return v, ok }
func vxGetOkErr(d *framework.FieldData, k string) (any, bool, error) {
	v, ok := d.Raw[k]
	return v, ok, nil
}
func vxGet(d *framework.FieldData, k string) any {
	if v, ok := d.Raw[k]; ok {
		return v
	}
	switch k {
	case "key_version":
		return 0
	case "convergent_encryption", "partial_failure_response_code":
		return false
	}
	return ""
}
func vxStartTx(ctx context.Context, req *logical.Request) (func(), error) { return func() {}, nil }
func vxEndTx(ctx context.Context, req *logical.Request) error             { return nil }

func vxItemStr(tag string) string {
	n := vxChoose(tag+" length", 3)
	return string(vxBytes(tag, n))
}

func vxBatch(encrypt bool) []BatchRequestItem {
	n := 1 + vxChoose("batch size", vxParam("items"))
	withCtx := vxBool("derived key: every item carries a context")
	items := make([]BatchRequestItem, n)
	for i := range items {
		if encrypt {
			items[i].Plaintext = "p" + vxItemStr("plaintext")
			items[i].KeyVersion = vxChoose("key_version", 3)
		} else {
			items[i].Ciphertext = "c" + vxItemStr("ciphertext")
		}
		if withCtx {
			items[i].Context = "x" + vxItemStr("context")
		}
		if vxBool("item carries associated data") {
			items[i].AssociatedData = "a" + vxItemStr("associated data")
		}
	}
	return items
}

func vxSetup() *backend {
	vxCalls, vxLocked, vxStatus = nil, 0, 0
	vxPolicy = keysutil.NewPolicy(keysutil.PolicyConfig{Name: "k", Type: keysutil.KeyType_AES256_GCM96})
	vxPolicy.LatestVersion = 3
	vxFailAt = vxChoose("policy call that fails (last = none)", 4)
	if vxFailAt == 3 {
		vxFailAt = -1
	}
	return &backend{Backend: &framework.Backend{}}
}

func VxDecryptBatchBinding() {
	b := vxSetup()
	items := vxBatch(false)
	d := &framework.FieldData{Raw: map[string]any{"name": "k", "batch_input": items}}
	resp, err := b.pathDecryptWrite(context.Background(), &logical.Request{Operation: logical.UpdateOperation}, d)
	vxAssert("batch request is answered", err == nil && resp != nil)
	vxAssert("the policy lock is released", vxLocked == 0)
	res, ok := resp.Data["batch_results"].([]DecryptBatchResponseItem)
	vxAssert("one result per item", ok && len(res) == len(items))
	vxAssert("one policy call per item", len(vxCalls) == len(items))
	for i, it := range items {
		c := vxCalls[i]
		vxAssert("item i is decrypted with its own ciphertext and context", c.value == it.Ciphertext && c.ctx == it.Context)
		vxAssert("item i is decrypted with exactly its own associated data (none if it has none)", c.aad == it.AssociatedData && c.hasAAD == (it.AssociatedData != "") && c.nAAD <= 1)
		if i == vxFailAt {
			vxReach("decrypt batch: failing item")
			vxAssert("a failing item reports its error and no plaintext", res[i].Error != "" && res[i].Plaintext == "")
		} else {
			vxAssert("result i is the plaintext of item i", res[i].Error == "" && res[i].Plaintext == "pt<"+it.Ciphertext+"|"+it.Context+"|"+it.AssociatedData+">")
		}
	}
	vxReach("decrypt batch: done")
}

func VxEncryptBatchBinding() {
	b := vxSetup()
	items := vxBatch(true)
	d := &framework.FieldData{Raw: map[string]any{"name": "k", "batch_input": items}}
	resp, err := b.pathEncryptWrite(context.Background(), &logical.Request{Operation: logical.UpdateOperation}, d)
	vxAssert("batch request is answered", err == nil && resp != nil)
	vxAssert("the policy lock is released", vxLocked == 0)
	res, ok := resp.Data["batch_results"].([]EncryptBatchResponseItem)
	vxAssert("one result per item", ok && len(res) == len(items))
	vxAssert("one policy call per item", len(vxCalls) == len(items))
	for i, it := range items {
		c := vxCalls[i]
		vxAssert("item i is encrypted with its own plaintext, context and key version", c.value == it.Plaintext && c.ctx == it.Context && c.ver == it.KeyVersion)
		vxAssert("item i is encrypted with exactly its own associated data (none if it has none)", c.aad == it.AssociatedData && c.hasAAD == (it.AssociatedData != "") && c.nAAD <= 1)
		if i == vxFailAt {
			vxReach("encrypt batch: failing item")
			vxAssert("a failing item reports its error and no ciphertext", res[i].Error != "" && res[i].Ciphertext == "")
		} else {
			want := it.KeyVersion
			if want == 0 {
				want = 3
			}
			vxAssert("result i is the ciphertext of item i under the version it asked for (0 = latest)", res[i].Error == "" && res[i].Ciphertext == "ct<"+it.Plaintext+"|"+it.Context+"|"+it.AssociatedData+">" && res[i].KeyVersion == want)
		}
	}
	vxReach("encrypt batch: done")
}
