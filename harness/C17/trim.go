package transit

// C17 — key versions that may still be needed are never trimmed: the real pathTrimUpdate for ALL integer values of
// the requested min_available_version, the current min_available_version, min_decryption_version and
// min_encryption_version, with the policy write succeeding or failing: a trim is accepted only if the requested
// version is positive, not below the current one and not above min_decryption_version or min_encryption_version
// (both of which must be set) - so no version a ciphertext may still be decrypted or encrypted under is ever dropped -,
// a refused trim changes nothing, and a failed policy write restores the cached value.
//
//vx:pkg github.com/openbao/openbao/v2/internal/builtin/logical/transit
//vx:include handlers.go
//vx:assume (this file) Policy.Persist is a recording stub (archive handling itself: harness/C17/transit.go VxArchiving); the response formatter is dropped
//vx:redirect (*github.com/openbao/openbao/v2/internal/builtin/logical/transit.backend).GetPolicyExclusive vxGetPolicy
//vx:redirect (*github.com/openbao/openbao/sdk/v2/helper/keysutil.Policy).Persist vxTrimPersist
//vx:noop (*github.com/openbao/openbao/v2/internal/builtin/logical/transit.backend).formatKeyPolicy

import (
	"context"

	"github.com/openbao/openbao/sdk/v2/framework"
	"github.com/openbao/openbao/sdk/v2/helper/keysutil"
	"github.com/openbao/openbao/sdk/v2/logical"
)

var (
	vxTrimPersisted []int
	vxTrimFail      bool
)

func vxTrimPersist(p *keysutil.Policy, ctx context.Context, s logical.Storage) error {
	if vxTrimFail {
		return vxErr("policy write failed")
	}
	vxTrimPersisted = append(vxTrimPersisted, p.MinAvailableVersion)
	return nil
}

func VxTrim() {
	vxCalls, vxLocked, vxStatus = nil, 0, 0
	vxTrimPersisted = nil
	b := &backend{Backend: &framework.Backend{}}
	p := keysutil.NewPolicy(keysutil.PolicyConfig{Name: "k", Type: keysutil.KeyType_AES256_GCM96})
	p.LatestVersion = 9
	cur, minDec, minEnc, want := vxInt("current min_available_version"), vxInt("min_decryption_version"), vxInt("min_encryption_version"), vxInt("requested min_available_version")
	vxAssume(cur >= 0 && minDec >= 0 && minEnc >= 0)
	p.MinAvailableVersion, p.MinDecryptionVersion, p.MinEncryptionVersion = cur, minDec, minEnc
	vxPolicy = p
	vxTrimFail = vxBool("policy write fails")
	d := &framework.FieldData{Raw: map[string]any{"name": "k", "min_available_version": want}}
	_, err := b.pathTrimUpdate()(context.Background(), &logical.Request{Operation: logical.UpdateOperation}, d)
	vxAssert("the policy lock is released", vxLocked == 0)
	if len(vxTrimPersisted) == 0 {
		vxReach("trim: refused or failed")
		vxAssert("a refused or failed trim leaves the cached policy as it was", p.MinAvailableVersion == cur)
		if !vxTrimFail {
			legal := want > 0 && want >= cur && minEnc != 0 && minDec != 0 && want <= minEnc && want <= minDec
			vxAssert("a legal trim is not refused", !legal)
		}
		return
	}
	vxReach("trim: accepted")
	vxAssert("an accepted trim is persisted once, with the requested value", err == nil && len(vxTrimPersisted) == 1 && vxTrimPersisted[0] == want && p.MinAvailableVersion == want)
	vxAssert("versions are only ever trimmed from the lower end, never back", want >= cur && want > 0)
	vxAssert("no version that may still be used for decryption is trimmed (requested <= min_decryption_version, which is set)", minDec != 0 && want <= minDec)
	vxAssert("no version that may still be used for encryption is trimmed (requested <= min_encryption_version, which is set)", minEnc != 0 && want <= minEnc)
}
