package keysutil

// C17 — transit key policy: round trip, input binding, version window, rotation/archiving, HMAC key selection.
//
// The real EncryptWithFactory / DecryptWithFactory / SymmetricEncryptRaw / SymmetricDecryptRaw / GetKey / DeriveKey /
// convergentVersion / getVersionPrefix / getTemplateParts / HMACKey / RotateInMemory / handleArchiving / Persist are
// executed symbolically. Cryptographic primitives are replaced by ideal models (assumptions of the claim):
//   - AEAD (AES-GCM, ChaCha20-Poly1305, XChaCha20-Poly1305): Seal yields fresh arbitrary bytes, deterministic in
//     (key, nonce, aad, plaintext); Open succeeds only on (key, nonce, aad, body) that a Seal produced;
//   - KDF (HKDF / counter mode): random oracle on (key, context) yielding a byte stream, collision free;
//   - HMAC-SHA256 (convergent nonce): random oracle on (key, message);
//   - base64: identity on byte strings (a bijection between byte strings and their encodings is all that is used);
//   - random bytes: arbitrary.
//
//vx:pkg github.com/openbao/openbao/sdk/v2/helper/keysutil
//vx:assume AEAD (AES-GCM, ChaCha20-Poly1305, XChaCha20-Poly1305) is ideal: fresh collision-free ciphertext bodies, deterministic in (key, nonce, aad, plaintext); Open succeeds only on what Seal produced under the same key, nonce and aad
//vx:assume HKDF / counter-mode KDF / HMAC-SHA256 are collision-free random oracles
//vx:assume base64 is modelled as the identity on byte strings; random draws of at least 96 bits never collide
//vx:assume the legacy counter-mode KDF only occurs with AES-256 policies
//vx:assume bounds: plaintext/context/aad lengths and key versions as listed under coverage.bounds; version field of forged ciphertexts 1-2 arbitrary bytes, forged body arbitrary bytes of the genuine length
//vx:bodies io,encoding/base64
//vx:redirect crypto/aes.NewCipher vxAESNewCipher
//vx:redirect crypto/cipher.NewGCM vxNewGCM
//vx:redirect crypto/cipher.NewGCMWithRandomNonce vxNewGCMRand
//vx:redirect golang.org/x/crypto/chacha20poly1305.New vxChaNew
//vx:redirect golang.org/x/crypto/chacha20poly1305.NewX vxChaNewX
//vx:redirect golang.org/x/crypto/hkdf.New vxHKDFNew
//vx:redirect github.com/openbao/openbao/sdk/v2/helper/kdf.CounterMode vxCounterMode
//vx:redirect crypto/hmac.New vxHMACNew
//vx:redirect (*encoding/base64.Encoding).DecodeString vxB64Dec
//vx:redirect (*encoding/base64.Encoding).EncodeToString vxB64Enc
//vx:redirect github.com/hashicorp/go-uuid.GenerateRandomBytes vxRandBytes
//vx:redirect github.com/hashicorp/go-uuid.GenerateRandomBytesWithReader vxRandBytesReader
//vx:redirect (*github.com/openbao/openbao/sdk/v2/helper/keysutil.Policy).LoadArchive vxLoadArchive
//vx:redirect (*github.com/openbao/openbao/sdk/v2/helper/keysutil.Policy).storeArchive vxStoreArchive
//vx:redirect (*github.com/openbao/openbao/sdk/v2/helper/keysutil.Policy).Serialize vxSerialize
//vx:param pt quick=2 thorough=3
//vx:param maxver quick=3 thorough=4
//vx:param muttypes quick=2 thorough=4
//vx:param mutver quick=2 thorough=3
//vx:param mutpt quick=1 thorough=2

import (
	"bytes"
	"context"
	"crypto/cipher"
	"encoding/base64"
	"hash"
	"io"
	"strconv"

	"github.com/openbao/openbao/sdk/v2/helper/kdf"
	"github.com/openbao/openbao/sdk/v2/logical"
)

func vxEq(a, b []byte) bool { return bytes.Equal(a, b) }

// ---- ideal AEAD ----

type vxSealRec struct{ key, nonce, aad, pt, body []byte }

var vxSeals []vxSealRec

type vxBlock struct{ key []byte }

func (b *vxBlock) BlockSize() int          { return 16 }
func (b *vxBlock) Encrypt(dst, src []byte) { panic("vx: raw block cipher use is outside the model") }
func (b *vxBlock) Decrypt(dst, src []byte) { panic("vx: raw block cipher use is outside the model") }

type vxAEAD struct {
	key   []byte
	nsize int
	rnd   bool
}

func vxAESNewCipher(key []byte) (cipher.Block, error) {
	if len(key) != 16 && len(key) != 24 && len(key) != 32 {
		return nil, vxErr("crypto/aes: invalid key size")
	}
	return &vxBlock{key: append([]byte(nil), key...)}, nil
}
func vxNewGCM(b cipher.Block) (cipher.AEAD, error) {
	return &vxAEAD{key: b.(*vxBlock).key, nsize: 12}, nil
}
func vxNewGCMRand(b cipher.Block) (cipher.AEAD, error) {
	return &vxAEAD{key: b.(*vxBlock).key, nsize: 12, rnd: true}, nil
}
func vxChaNew(key []byte) (cipher.AEAD, error) {
	if len(key) != 32 {
		return nil, vxErr("chacha20poly1305: bad key length")
	}
	return &vxAEAD{key: append([]byte{1}, key...), nsize: 12}, nil
}
func vxChaNewX(key []byte) (cipher.AEAD, error) {
	if len(key) != 32 {
		return nil, vxErr("chacha20poly1305: bad key length")
	}
	return &vxAEAD{key: append([]byte{2}, key...), nsize: 24}, nil
}

func (a *vxAEAD) NonceSize() int {
	if a.rnd {
		return 0
	}
	return a.nsize
}
func (a *vxAEAD) Overhead() int {
	if a.rnd {
		return a.nsize + 16
	}
	return 16
}

func (a *vxAEAD) Seal(dst, nonce, pt, aad []byte) []byte {
	pfx := []byte(nil)
	if a.rnd {
		if len(nonce) != 0 {
			panic("crypto/cipher: incorrect nonce length given to GCMWithRandomNonce")
		}
		nonce = vxBytes("aead-nonce", a.nsize)
		pfx = nonce
	} else if len(nonce) != a.nsize {
		panic("crypto/cipher: incorrect nonce length given to AEAD")
	}
	for _, r := range vxSeals {
		if len(r.pt) == len(pt) && vxEq(r.key, a.key) && vxEq(r.nonce, nonce) && vxEq(r.aad, aad) && vxEq(r.pt, pt) {
			return append(append(dst, pfx...), r.body...) // deterministic
		}
	}
	if !a.rnd {
		for _, r := range vxSeals {
			if vxEq(r.key, a.key) && vxEq(r.nonce, nonce) {
				// the AEAD contract the ideal model rests on: a caller-supplied nonce is used once per key,
				// except for re-encrypting the very same message (convergent mode)
				vxAssert("an AEAD nonce is never reused under one key for a different message", len(r.pt) == len(pt) && vxEq(r.pt, pt) && vxEq(r.aad, aad))
			}
		}
	}
	body := vxBytes("aead-body", len(pt)+16)
	for _, r := range vxSeals {
		if len(r.body) == len(body) {
			// IND$ idealisation: a fresh ciphertext body (which ends in a 128-bit tag) collides with no earlier one
			vxAssume(!vxEq(r.body, body))
		}
	}
	vxSeals = append(vxSeals, vxSealRec{key: a.key, nonce: append([]byte(nil), nonce...), aad: append([]byte(nil), aad...), pt: append([]byte(nil), pt...), body: body})
	return append(append(dst, pfx...), body...)
}

func (a *vxAEAD) Open(dst, nonce, ct, aad []byte) ([]byte, error) {
	if a.rnd {
		if len(ct) < a.nsize {
			return nil, vxErr("cipher: message authentication failed")
		}
		nonce, ct = ct[:a.nsize], ct[a.nsize:]
	} else if len(nonce) != a.nsize {
		panic("crypto/cipher: incorrect nonce length given to AEAD")
	}
	for _, r := range vxSeals {
		if len(r.body) == len(ct) && vxEq(r.body, ct) && vxEq(r.key, a.key) && vxEq(r.nonce, nonce) && vxEq(r.aad, aad) {
			return append(dst, r.pt...), nil
		}
	}
	return nil, vxErr("cipher: message authentication failed")
}

// ---- ideal KDF: random oracle (key, context) -> 64-byte stream ----

type vxKDFRec struct{ key, ctx, out []byte }

var vxKDFs []vxKDFRec

func vxOracle(key, ctx []byte) []byte {
	for _, r := range vxKDFs {
		if len(r.key) == len(key) && len(r.ctx) == len(ctx) && vxEq(r.key, key) && vxEq(r.ctx, ctx) {
			return r.out
		}
	}
	out := vxBytes("kdf-out", 64)
	for _, r := range vxKDFs {
		vxAssume(!vxEq(r.out[:12], out[:12])) // collision free, even on the shortest prefix used (a 96-bit nonce)
	}
	vxKDFs = append(vxKDFs, vxKDFRec{key: append([]byte(nil), key...), ctx: append([]byte(nil), ctx...), out: out})
	return out
}

type vxStream struct {
	b   []byte
	off int
}

func (s *vxStream) Read(p []byte) (int, error) {
	if s.off >= len(s.b) {
		return 0, io.EOF
	}
	n := copy(p, s.b[s.off:])
	s.off += n
	return n, nil
}

func vxHKDFNew(h func() hash.Hash, secret, salt, info []byte) io.Reader {
	return &vxStream{b: vxOracle(secret, append(append([]byte{0}, info...), salt...))}
}

func vxCounterMode(prf kdf.PRF, prfLen uint32, key []byte, context []byte, bits uint32) ([]byte, error) {
	return vxOracle(key, append([]byte{1}, context...))[:bits/8], nil
}

// ---- ideal HMAC (convergent nonce derivation): random oracle (key, message) -> 32 bytes ----

type vxMAC struct {
	key, msg []byte
}

func vxHMACNew(h func() hash.Hash, key []byte) hash.Hash {
	return &vxMAC{key: append([]byte(nil), key...)}
}
func (m *vxMAC) Write(p []byte) (int, error) { m.msg = append(m.msg, p...); return len(p), nil }
func (m *vxMAC) Sum(b []byte) []byte {
	return append(b, vxOracle(m.key, append([]byte{2}, m.msg...))[:32]...)
}
func (m *vxMAC) Reset()         { m.msg = nil }
func (m *vxMAC) Size() int      { return 32 }
func (m *vxMAC) BlockSize() int { return 64 }

// ---- base64 = identity; randomness = arbitrary ----

func vxB64Dec(e *base64.Encoding, s string) ([]byte, error) { return []byte(s), nil }
func vxB64Enc(e *base64.Encoding, b []byte) string          { return string(b) }

var vxRands [][]byte

// arbitrary bytes; draws of at least 96 bits do not collide with each other (nonces, keys)
func vxRandBytes(n int) ([]byte, error) {
	b := vxBytes("rand", n)
	if n >= 12 {
		for _, r := range vxRands {
			if len(r) == n {
				vxAssume(!vxEq(r, b))
			}
		}
		vxRands = append(vxRands, b)
	}
	return b, nil
}
func vxRandBytesReader(n int, r io.Reader) ([]byte, error) { return vxRandBytes(n) }

// ---- archive / policy persistence model ----

var (
	vxArchive      *archivedKeys
	vxArchiveFail  bool
	vxArchiveSaved int
)

func vxLoadArchive(p *Policy, ctx context.Context, s logical.Storage) (*archivedKeys, error) {
	c := &archivedKeys{Keys: append([]KeyEntry(nil), vxArchive.Keys...)}
	return c, nil
}
func vxStoreArchive(p *Policy, ctx context.Context, s logical.Storage, a *archivedKeys) error {
	if vxArchiveFail {
		return vxErr("archive write failed")
	}
	vxArchiveSaved++
	vxArchive = &archivedKeys{Keys: append([]KeyEntry(nil), a.Keys...)}
	return nil
}
func vxSerialize(p *Policy) ([]byte, error) { return []byte("policy"), nil }

type vxStore struct {
	fail bool
	puts int
}

func (s *vxStore) List(context.Context, string) ([]string, error) { return nil, nil }
func (s *vxStore) ListPage(context.Context, string, string, int) ([]string, error) {
	return nil, nil
}
func (s *vxStore) Get(context.Context, string) (*logical.StorageEntry, error) { return nil, nil }
func (s *vxStore) Delete(context.Context, string) error                       { return nil }
func (s *vxStore) Put(ctx context.Context, e *logical.StorageEntry) error {
	if s.fail {
		return vxErr("policy write failed")
	}
	s.puts++
	return nil
}

// ---- policy construction ----

type vxAAD struct{ b []byte }

func (a vxAAD) GetAssociatedData() ([]byte, error) { return a.b, nil }

func vxKeyLen(t KeyType) int {
	if t == KeyType_AES128_GCM96 {
		return 16
	}
	return 32
}

// a symmetric policy with `latest` versions of independent arbitrary key bytes (pairwise distinct: 2^-128 otherwise)
func vxPolicy(latest int) *Policy { return vxPolicyN(latest, 4) }

func vxPolicyN(latest, ntypes int) *Policy {
	types := []KeyType{KeyType_AES256_GCM96, KeyType_XChaCha20_Poly1305, KeyType_AES128_GCM96, KeyType_ChaCha20_Poly1305}
	p := NewPolicy(PolicyConfig{Name: "k", Type: types[vxChoose("key type", ntypes)]})
	p.Keys = keyEntryMap{}
	for v := 1; v <= latest; v++ {
		k := vxBytes("key"+strconv.Itoa(v), vxKeyLen(p.Type))
		for w := 1; w < v; w++ {
			vxAssume(!vxEq(p.Keys[strconv.Itoa(w)].Key, k))
		}
		p.Keys[strconv.Itoa(v)] = KeyEntry{Key: k, HMACKey: vxBytes("hmackey"+strconv.Itoa(v), 32)}
	}
	p.LatestVersion = latest
	p.MinDecryptionVersion = vxInt("min_decryption_version")
	p.MinEncryptionVersion = vxInt("min_encryption_version")
	p.ArchiveVersion = latest
	mode := vxChoose("mode(plain,derived,convergent)", 3)
	if mode >= 1 {
		p.Derived = true
		p.KDF = Kdf_hkdf_sha256
		// the counter-mode KDF exists only on legacy policies (created before AES-128/ChaCha support: AES-256 only);
		// every policy created by this code base gets HKDF (lock_manager.go). With a 16-byte key type the legacy KDF
		// would make Decrypt's length check fail - unreachable configuration, excluded here.
		if p.Type == KeyType_AES256_GCM96 && vxBool("legacy counter-mode kdf") {
			p.KDF = Kdf_hmac_sha256_counter
		}
	}
	if mode == 2 {
		p.ConvergentEncryption = true
		p.ConvergentVersion = currentConvergentVersion
	}
	return p
}

func vxPrefix(v int) string { return "vault:v" + strconv.Itoa(v) + ":" }

// the key version a ciphertext names, under the documented format
func vxHasPrefix(ct string, v int) bool {
	p := vxPrefix(v)
	return len(ct) >= len(p) && ct[:len(p)] == p
}

// ---- entries ----

// Round trip, binding of context and associated data, version window on both sides, prefix = version used.
func VxEncryptDecrypt() {
	latest := 1 + vxChoose("latest version", vxParam("maxver"))
	p := vxPolicy(latest)
	ver := vxInt("requested version")
	if ver >= 0 && ver <= latest {
		ver = vxConc(ver) // versions in range are concretised by case split: the prefix is built with strconv.Itoa
	}
	ctx := vxBytes("context", vxChoose("context length", 3))
	aad := vxBytes("aad", vxChoose("aad length", 3))
	pt := string(vxBytes("plaintext", vxChoose("plaintext length", vxParam("pt")+1)))

	ct, err := p.EncryptWithFactory(ver, ctx, nil, pt, vxAAD{aad})
	used := ver
	if ver == 0 {
		used = latest
	}
	refuse := ver < 0 || ver > latest || (ver != 0 && ver < p.MinEncryptionVersion) || (p.Derived && len(ctx) == 0)
	if p.ConvergentEncryption && p.KDF == Kdf_hmac_sha256_counter {
		refuse = true // counter-mode KDF yields 32 bytes; convergent v3 needs 64: refused ("length too small")
	}
	if err != nil {
		vxReach("encrypt refused")
		vxAssert("encrypt refuses only what the version window / derivation rules exclude", refuse)
		return
	}
	vxReach("encrypt ok")
	vxAssert("encrypt with a version outside [min_encryption_version, latest] (or derived without context) is refused", !refuse)
	vxAssert("ciphertext names the key version that was used (0 = latest)", vxHasPrefix(ct, used))
	last := vxSeals[len(vxSeals)-1]
	base := p.Keys[strconv.Itoa(used)].Key
	if !p.Derived {
		vxAssert("encryption key is the key of the version named", vxEq(last.key[len(last.key)-len(base):], base))
	}
	vxAssert("associated data and plaintext reach the AEAD unchanged", vxEq(last.aad, aad) && vxEq(last.pt, []byte(pt)))

	// decrypt with the same inputs
	got, derr := p.DecryptWithFactory(ctx, nil, ct, vxAAD{aad})
	tooOld := p.MinDecryptionVersion > 0 && used < p.MinDecryptionVersion
	if tooOld {
		vxReach("decrypt refused: below min_decryption_version")
		vxAssert("ciphertext below min_decryption_version is refused", derr != nil && got == "")
	} else {
		vxReach("decrypt ok")
		vxAssert("decrypt(encrypt(x)) = x with the same key, context and associated data", derr == nil && got == pt)
	}

	// a different context (derived keys) or different associated data never decrypts
	ctx2 := vxBytes("other context", len(ctx))
	aad2 := vxBytes("other aad", vxChoose("other aad length", 3))
	if vxBool("vary context") {
		if p.Derived {
			vxAssume(!vxEq(ctx2, ctx))
			g2, e2 := p.DecryptWithFactory(ctx2, nil, ct, vxAAD{aad})
			vxReach("decrypt with other context")
			vxAssert("a different derivation context never decrypts", e2 != nil && g2 == "")
		}
	} else {
		vxAssume(len(aad2) != len(aad) || !vxEq(aad2, aad))
		g2, e2 := p.DecryptWithFactory(ctx, nil, ct, vxAAD{aad2})
		vxReach("decrypt with other aad")
		vxAssert("different associated data never decrypts", e2 != nil && g2 == "")
	}
}

// Two ciphertexts exist (versions va and vb, plaintexts pa and pb). The adversary submits the body of one under an
// arbitrary version field, or arbitrary bytes under the right prefix: the result is an error or exactly the
// plaintext that was encrypted under the version the submitted prefix names - never anything else.
func VxCiphertextMutation() {
	latest := 2 + vxChoose("latest version", vxParam("mutver")-1)
	p := vxPolicyN(latest, vxParam("muttypes"))
	vxAssume(p.MinEncryptionVersion <= 1)
	ctx := vxBytes("context", 1)
	aad := vxBytes("aad", vxChoose("aad length", 2))
	n := 1 + vxChoose("plaintext length", vxParam("mutpt"))
	pa, pb := string(vxBytes("plaintext a", n)), string(vxBytes("plaintext b", n))
	va := 1 + vxChoose("version a", latest)
	vb := 1 + vxChoose("version b", latest)
	ca, ea := p.EncryptWithFactory(va, ctx, nil, pa, vxAAD{aad})
	cb, eb := p.EncryptWithFactory(vb, ctx, nil, pb, vxAAD{aad})
	if ea != nil || eb != nil {
		return
	}
	bodyA := ca[len(vxPrefix(va)):]
	_ = cb
	var forged string
	which := vxChoose("mutation(version field rewritten, body arbitrary, both)", 3)
	verField := string(vxBytes("version field", 1+vxChoose("version field length", 2)))
	switch which {
	case 0:
		forged = "vault:v" + verField + ":" + bodyA
	case 1:
		forged = vxPrefix(va) + string(vxBytes("forged body", len(bodyA)))
	default:
		forged = "vault:v" + verField + ":" + string(vxBytes("forged body", len(bodyA)))
	}
	got, err := p.DecryptWithFactory(ctx, nil, forged, vxAAD{aad})
	if err != nil {
		vxReach("forged ciphertext refused")
		vxAssert("no plaintext is returned with an error", got == "")
		return
	}
	vxReach("forged ciphertext accepted")
	// accepted: it must be one of the two genuine ciphertexts, named by its own version, above the minimum
	isA := forgedNames(forged, va) && forged[len(forged)-len(bodyA):] == bodyA
	isB := forgedNames(forged, vb) && forged[len(forged)-len(bodyA):] == cb[len(vxPrefix(vb)):]
	vxAssert("an accepted ciphertext is a genuine one under the version it was produced with", (isA && got == pa) || (isB && got == pb))
	if isA {
		vxAssert("accepted version is not below min_decryption_version", !(p.MinDecryptionVersion > 0 && va < p.MinDecryptionVersion))
	}
}

// the submitted string names version v: its version field is a decimal spelling of v (strconv.Atoi accepts leading
// zeros and a '+' sign), or "0" for v = 1 (documented compatibility rule)
func forgedNames(s string, v int) bool {
	f := s[len("vault:v"):]
	i := 0
	for i < len(f) && f[i] != ':' {
		i++
	}
	n, err := strconv.Atoi(f[:i])
	if err != nil {
		return false
	}
	if n == 0 {
		n = 1
	}
	return n == v
}

// Convergent encryption is deterministic per key version, context and plaintext, and separates those inputs.
func VxConvergent() {
	latest := 1 + vxChoose("latest version", 2)
	p := vxPolicy(latest)
	vxAssume(p.ConvergentEncryption && p.KDF == Kdf_hkdf_sha256 && p.MinEncryptionVersion <= 0 && p.MinDecryptionVersion <= 1)
	ctx := vxBytes("context", 2)
	n := vxChoose("plaintext length", vxParam("pt")+1)
	pt := string(vxBytes("plaintext", n))
	v := 1 + vxChoose("version", latest)
	c1, e1 := p.EncryptWithFactory(v, ctx, nil, pt)
	c2, e2 := p.EncryptWithFactory(v, ctx, nil, pt)
	vxAssert("convergent encrypt succeeds", e1 == nil && e2 == nil)
	vxReach("convergent: same inputs")
	vxAssert("convergent encryption is deterministic", c1 == c2)
	pt2 := string(vxBytes("other plaintext", n))
	ctx2 := vxBytes("other context", 2)
	switch vxChoose("vary(plaintext, context, version)", 3) {
	case 0:
		vxAssume(pt2 != pt)
		c3, e3 := p.EncryptWithFactory(v, ctx, nil, pt2)
		vxReach("convergent: other plaintext")
		vxAssert("another plaintext gives another ciphertext", e3 == nil && c3 != c1)
	case 1:
		vxAssume(!vxEq(ctx2, ctx))
		c3, e3 := p.EncryptWithFactory(v, ctx2, nil, pt)
		vxReach("convergent: other context")
		vxAssert("another context gives another ciphertext", e3 == nil && c3 != c1)
	default:
		if latest > 1 {
			w := 1 + (v % latest)
			c3, e3 := p.EncryptWithFactory(w, ctx, nil, pt)
			vxReach("convergent: other version")
			vxAssert("another key version gives another ciphertext", e3 == nil && c3 != c1)
		}
	}
	got, err := p.DecryptWithFactory(ctx, nil, c1)
	vxAssert("convergent round trip", err == nil && got == pt)
	_, ne := p.EncryptWithFactory(v, ctx, vxBytes("nonce", 12), pt)
	vxAssert("a caller-chosen nonce is refused for convergent v3 keys", ne != nil)
}

// A caller-supplied nonce is refused for non-convergent keys (nonce reuse would break the AEAD).
func VxNonceRefused() {
	p := vxPolicy(1)
	vxAssume(!p.ConvergentEncryption && p.MinEncryptionVersion <= 0)
	_, err := p.EncryptWithFactory(0, vxBytes("context", 1), vxBytes("nonce", 1+vxChoose("nonce length", 24)), "x")
	vxReach("nonce refused")
	vxAssert("a caller-chosen nonce is refused for non-convergent keys", err != nil)
}

// Rotation: one step from an arbitrary policy state - the latest version advances by exactly one, every earlier key
// is kept byte for byte, old ciphertexts stay decryptable, new encryptions use the new version.
func VxRotate() {
	latest := 1 + vxChoose("latest version", vxParam("maxver"))
	p := vxPolicy(latest)
	vxAssume(p.MinEncryptionVersion <= 0 && p.MinDecryptionVersion >= 0 && p.MinDecryptionVersion <= 1)
	ctx := vxBytes("context", 1)
	pt := string(vxBytes("plaintext", 1))
	v := 1 + vxChoose("version", latest)
	ct, err := p.EncryptWithFactory(v, ctx, nil, pt)
	if err != nil {
		return
	}
	old := map[string][]byte{}
	for k, e := range p.Keys {
		old[k] = e.Key
	}
	rot := 1 + vxChoose("rotations", 2)
	for i := 0; i < rot; i++ {
		vxAssert("rotate ok", p.RotateInMemory(nil) == nil)
	}
	vxReach("rotated")
	vxAssert("latest version advanced by one per rotation", p.LatestVersion == latest+rot && len(p.Keys) == latest+rot)
	for k, b := range old {
		vxAssert("earlier key versions are unchanged by rotation", vxEq(p.Keys[k].Key, b))
	}
	nk := p.Keys[strconv.Itoa(latest+rot)]
	vxAssert("new key has the length of the key type and an HMAC key", len(nk.Key) == vxKeyLen(p.Type) && len(nk.HMACKey) == 32)
	got, derr := p.DecryptWithFactory(ctx, nil, ct)
	vxAssert("ciphertext of an older version decrypts after rotation", derr == nil && got == pt)
	c2, e2 := p.EncryptWithFactory(0, ctx, nil, pt)
	vxAssert("encryption after rotation uses the new latest version", e2 == nil && vxHasPrefix(c2, latest+rot))
}

// Archiving (Persist -> handleArchiving) from an arbitrary consistent state: raising min_decryption_version moves
// exactly the versions below it out of the working set - never a version inside [min_decryption_version, latest] -
// the archive keeps every version, lowering it again restores byte-identical keys, and a failed archive/policy
// write leaves the working set untouched.
func VxArchiving() {
	latest := 2 + vxChoose("latest version", vxParam("maxver")-1)
	p := vxPolicy(latest)
	p.MinAvailableVersion = 0
	p.ArchiveMinVersion = 0
	newMin := 1 + vxChoose("new min_decryption_version", latest)
	p.MinDecryptionVersion = 1
	vxAssume(p.MinEncryptionVersion == 0 || p.MinEncryptionVersion >= newMin)
	// archive as a previous Persist left it (index = version; slot 0 unused), possibly lagging by one rotation
	lag := vxChoose("archive lag", 2)
	vxArchive = &archivedKeys{Keys: make([]KeyEntry, latest+1-lag)}
	for v := 1; v <= latest-lag; v++ {
		vxArchive.Keys[v] = p.Keys[strconv.Itoa(v)]
	}
	p.ArchiveVersion = latest - lag
	all := map[int][]byte{}
	for v := 1; v <= latest; v++ {
		all[v] = p.Keys[strconv.Itoa(v)].Key
	}
	st := &vxStore{fail: vxBool("policy write fails")}
	vxArchiveFail = vxBool("archive write fails")

	p.MinDecryptionVersion = newMin
	err := p.Persist(context.Background(), st)
	if err != nil {
		vxReach("persist failed")
		vxAssert("persist fails only when a write failed", vxArchiveFail || st.fail)
		vxAssert("failed persist leaves every key version in the working set", len(p.Keys) == latest)
		for v := 1; v <= latest; v++ {
			vxAssert("failed persist leaves key bytes unchanged", vxEq(p.Keys[strconv.Itoa(v)].Key, all[v]))
		}
		return
	}
	vxReach("persist ok")
	for v := 1; v <= latest; v++ {
		e, ok := p.Keys[strconv.Itoa(v)]
		if v >= newMin {
			vxAssert("no version inside [min_decryption_version, latest] leaves the working set", ok && vxEq(e.Key, all[v]))
		} else {
			vxAssert("versions below min_decryption_version leave the working set", !ok)
		}
		vxAssert("the archive holds every version byte for byte", len(vxArchive.Keys) == latest+1 && vxEq(vxArchive.Keys[v].Key, all[v]))
	}
	vxAssert("archive version is up to date", p.ArchiveVersion == latest)
	// ciphertexts below the minimum are refused, at or above accepted
	ctx := vxBytes("context", 1)
	// lower the minimum again: keys come back from the archive
	back := 1 + vxChoose("lowered min_decryption_version", newMin)
	p.MinDecryptionVersion = back
	vxArchiveFail, st.fail = false, false
	if e2 := p.Persist(context.Background(), st); e2 != nil {
		vxAssert("lowering the minimum succeeds", false)
		return
	}
	vxReach("restored from archive")
	for v := back; v <= latest; v++ {
		e, ok := p.Keys[strconv.Itoa(v)]
		vxAssert("lowering min_decryption_version restores byte-identical keys", ok && vxEq(e.Key, all[v]))
	}
	_ = ctx
}

// HMAC key selection by version.
func VxHMACKey() {
	latest := 1 + vxChoose("latest version", vxParam("maxver"))
	p := vxPolicy(latest)
	isHMACType := vxBool("hmac key type")
	if isHMACType {
		p.Type = KeyType_HMAC
	}
	v := vxInt("version")
	k, err := p.HMACKey(v)
	if v < 1 || v > latest {
		vxReach("hmac: version outside")
		vxAssert("HMAC key of a version outside 1..latest is refused", err != nil && k == nil)
		return
	}
	vxReach("hmac: version inside")
	v = vxConc(v)
	e := p.Keys[strconv.Itoa(v)]
	if isHMACType {
		vxAssert("HMAC key type: the key of exactly that version", err == nil && vxEq(k, e.Key))
	} else {
		vxAssert("the HMAC key of exactly that version", err == nil && vxEq(k, e.HMACKey))
	}
}

// A rotation whose archive write lands but whose policy write fails (or which fails earlier), then a retry on healthy
// storage: the retried rotation's key - not the aborted one's - is what the archive holds for the new version, so a
// later raise-and-lower of min_decryption_version restores exactly the key that encrypted the data.
func VxRotateRetryAfterFailedPersist() {
	latest := 1 + vxChoose("latest version", 2)
	p := vxPolicy(latest)
	vxAssume(!p.Derived && p.MinEncryptionVersion <= 0)
	p.MinDecryptionVersion = 1
	p.MinAvailableVersion, p.ArchiveMinVersion, p.ArchiveVersion = 0, 0, latest
	vxArchive = &archivedKeys{Keys: make([]KeyEntry, latest+1)}
	for v := 1; v <= latest; v++ {
		vxArchive.Keys[v] = p.Keys[strconv.Itoa(v)]
	}
	st := &vxStore{fail: vxBool("policy write fails")}
	vxArchiveFail = vxBool("archive write fails")
	first := p.Rotate(context.Background(), st, nil)
	if first != nil {
		vxReach("rotate: first attempt failed")
		vxAssert("a failed rotation leaves the policy at its previous version", p.LatestVersion == latest && len(p.Keys) == latest)
		st.fail, vxArchiveFail = false, false
		vxAssert("the retried rotation succeeds", p.Rotate(context.Background(), st, nil) == nil)
	} else {
		vxReach("rotate: first attempt ok")
	}
	nv := latest + 1
	vxAssert("one new version", p.LatestVersion == nv)
	cur := p.Keys[strconv.Itoa(nv)].Key
	pt := string(vxBytes("plaintext", 1))
	ct, err := p.EncryptWithFactory(0, nil, nil, pt)
	vxAssert("encrypt under the new version", err == nil && vxHasPrefix(ct, nv))
	vxAssert("the archive holds the key the policy uses for the new version", len(vxArchive.Keys) == nv+1 && vxEq(vxArchive.Keys[nv].Key, cur))
	// one more rotation, raise the minimum above nv, lower it again
	vxAssert("second rotation ok", p.Rotate(context.Background(), st, nil) == nil)
	p.MinDecryptionVersion = nv + 1
	vxAssert("raise ok", p.Persist(context.Background(), st) == nil)
	_, gone := p.Keys[strconv.Itoa(nv)]
	vxAssert("the version left the working set", !gone)
	p.MinDecryptionVersion = 1
	vxAssert("lower ok", p.Persist(context.Background(), st) == nil)
	got, derr := p.DecryptWithFactory(nil, nil, ct)
	vxReach("rotate retry: decrypt after raise and lower")
	vxAssert("a ciphertext of the retried version decrypts after min_decryption_version was raised and lowered", derr == nil && got == pt)
}
