package transit

// C17 — HMACs verify exactly when message, key version and hash algorithm match: the real pathHMACWrite and
// pathHMACVerify (single and batch form) over the real Policy.HMACKey / safeGetKeyEntry, with an ideal MAC. For every
// requested key version (0 = latest, in range, out of range), every min_encryption_version / min_decryption_version
// window, two hash algorithms, ALL messages up to the bound, and a verification request that presents the returned
// HMAC unchanged or with its version prefix rewritten to any other version, with the same or another message and the
// same or another algorithm, possibly after min_decryption_version was raised: generation is refused exactly outside
// the allowed window and otherwise names the version whose key it used; verification answers valid iff message,
// algorithm and version are the ones the HMAC was generated with, and refuses (never "valid") versions above latest or
// below min_decryption_version; in a batch, result i belongs to item i.
//
//vx:pkg github.com/openbao/openbao/v2/internal/builtin/logical/transit
//vx:include handlers.go
//vx:assume (this file) HMAC is an ideal MAC: an injective function of (hash algorithm, key bytes, message); hash constructors are replaced by tagged stand-ins; base64 is the identity on text without ':' (real base64 never contains ':'); batch decoding (mapstructure) is a typed copy; key versions carry pairwise distinct HMAC keys
//vx:redirect crypto/hmac.New vxHMACNew
//vx:redirect crypto/hmac.Equal vxHMACEqual
//vx:redirect (*encoding/base64.Encoding).EncodeToString vxB64Enc
//vx:redirect github.com/go-viper/mapstructure/v2.Decode vxMSDecode
//vx:param msg quick=1 thorough=2

import (
	"bytes"
	"context"
	"encoding/base64"
	"hash"
	"strconv"

	"github.com/openbao/openbao/sdk/v2/framework"
	"github.com/openbao/openbao/sdk/v2/helper/keysutil"
	"github.com/openbao/openbao/sdk/v2/logical"
)

type vxHashID struct {
	hash.Hash
	id string
}

type vxMac struct {
	hash.Hash
	alg string
	key []byte
	msg []byte
}

func (m *vxMac) Write(p []byte) (int, error) { m.msg = append(m.msg, p...); return len(p), nil }
func (m *vxMac) Sum(b []byte) []byte {
	out := append(b, []byte("mac("+m.alg+"|")...)
	out = append(out, m.key...)
	out = append(out, '|')
	out = append(out, m.msg...)
	return append(out, ')')
}

func vxHMACNew(h func() hash.Hash, key []byte) hash.Hash {
	id := h().(*vxHashID).id
	return &vxMac{alg: id, key: append([]byte(nil), key...)}
}
func vxHMACEqual(a, b []byte) bool                 { return bytes.Equal(a, b) }
func vxB64Enc(e *base64.Encoding, b []byte) string { return string(b) }
func vxMSDecode(src any, dst any) error {
	items, ok := src.([]batchRequestHMACItem)
	out, ok2 := dst.(*[]batchRequestHMACItem)
	if !ok || !ok2 {
		return vxErr("batch_input is not a list of items")
	}
	*out = append([]batchRequestHMACItem(nil), items...)
	return nil
}

func vxHMACPolicy(minDec, minEnc int) *keysutil.Policy {
	p := keysutil.NewPolicy(keysutil.PolicyConfig{Name: "k", Type: keysutil.KeyType_AES256_GCM96})
	p.LatestVersion, p.MinDecryptionVersion, p.MinEncryptionVersion = 3, minDec, minEnc
	p.Keys = map[string]keysutil.KeyEntry{}
	for v := minDec; v <= 3; v++ { // versions below min_decryption_version live in the archive only
		p.Keys[strconv.Itoa(v)] = keysutil.KeyEntry{HMACKey: []byte{'K', byte('0' + v)}}
	}
	return p
}

var vxAlgs = []string{"sha2-256", "sha2-512"}

func vxMsg(tag string) string {
	b := vxBytes(tag, 1+vxChoose(tag+" length", vxParam("msg")))
	for _, c := range b {
		vxAssume(c != ':')
	}
	return string(b)
}

func VxHMACGenerateVerify() {
	for _, a := range vxAlgs {
		id := a
		keysutil.HashFuncMap[keysutil.HashTypeMap[a]] = func() hash.Hash { return &vxHashID{id: id} }
	}
	vxCalls, vxLocked, vxStatus = nil, 0, 0
	b := &backend{Backend: &framework.Backend{}}
	minDec := 1 + vxChoose("min_decryption_version", 3)
	minEnc := vxChoose("min_encryption_version (0 = latest only... unset)", 4)
	vxAssume(minEnc == 0 || minEnc >= minDec)
	vxPolicy = vxHMACPolicy(minDec, minEnc)
	ctx := context.Background()

	// generate
	a1 := vxAlgs[vxChoose("algorithm used to generate", 2)]
	v1 := vxChoose("requested key_version (0 = latest, 4 = beyond latest)", 5)
	m1 := vxMsg("message")
	d := &framework.FieldData{Raw: map[string]any{"name": "k", "algorithm": a1, "input": m1, "key_version": v1}}
	resp, err := b.pathHMACWrite(ctx, &logical.Request{Operation: logical.UpdateOperation}, d)
	vxAssert("the policy lock is released", vxLocked == 0)
	used := v1
	if v1 == 0 {
		used = 3
	}
	allowed := used <= 3 && used >= minDec && (used == 3 || minEnc == 0 || used >= minEnc)
	if !allowed {
		vxReach("hmac: generation refused")
		vxAssert("an HMAC under a version outside the allowed window is refused", resp != nil && resp.IsError() && resp.Data["hmac"] == nil)
		return
	}
	vxAssert("generation succeeds inside the window", err == nil && resp != nil && !resp.IsError())
	got, _ := resp.Data["hmac"].(string)
	want := "vault:v" + strconv.Itoa(used) + ":mac(" + a1 + "|K" + strconv.Itoa(used) + "|" + m1 + ")"
	vxAssert("the HMAC names the version whose key it was computed with, over exactly the message and algorithm given", got == want)

	// later: min_decryption_version may have been raised
	minDec2 := minDec + vxChoose("min_decryption_version raised by", 4-minDec)
	vxPolicy = vxHMACPolicy(minDec2, 0)
	a2 := vxAlgs[vxChoose("algorithm used to verify", 2)]
	m2 := m1
	if vxBool("verify another message") {
		m2 = vxMsg("other message")
	}
	v2 := used
	presented := got
	if vxBool("version prefix rewritten") {
		v2 = 1 + vxChoose("rewritten version (4 = beyond latest)", 4)
		presented = "vault:v" + strconv.Itoa(v2) + ":mac(" + a1 + "|K" + strconv.Itoa(used) + "|" + m1 + ")"
	}
	batch := vxBool("batch form")
	var vd *framework.FieldData
	if batch {
		// item 0 is a decoy with a valid HMAC of its own, item 1 is the one under test
		decoy := batchRequestHMACItem{"input": "zz", "hmac": "vault:v3:mac(" + a2 + "|K3|zz)"}
		vd = &framework.FieldData{Raw: map[string]any{"name": "k", "algorithm": a2, "batch_input": []batchRequestHMACItem{decoy, {"input": m2, "hmac": presented}}}}
	} else {
		vd = &framework.FieldData{Raw: map[string]any{"name": "k", "algorithm": a2, "input": m2, "hmac": presented}}
	}
	vresp, verr := b.pathHMACVerify(ctx, &logical.Request{Operation: logical.UpdateOperation}, vd)
	vxAssert("the policy lock is released after verification", vxLocked == 0)
	valid, refused := false, false
	if batch {
		vxAssert("batch verification is answered", verr == nil && vresp != nil)
		res, ok := vresp.Data["batch_results"].([]batchResponseHMACItem)
		vxAssert("one result per item", ok && len(res) == 2)
		vxAssert("the decoy item (a correct HMAC under the latest version) verifies, whatever item 1 is", res[0].Valid && res[0].Error == "")
		valid, refused = res[1].Valid, res[1].Error != ""
	} else {
		refused = vresp == nil || vresp.IsError()
		if !refused {
			valid, _ = vresp.Data["valid"].(bool)
		}
	}
	vxAssert("a refused verification never says valid", !(refused && valid))
	switch {
	case v2 > 3 || v2 < minDec2:
		vxReach("hmac: verification refused by version window")
		vxAssert("a version above latest or below min_decryption_version is refused", refused && !valid)
	case a2 == a1 && m2 == m1 && v2 == used:
		vxReach("hmac: verifies")
		vxAssert("the HMAC verifies with the message, algorithm and version it was generated with", valid && !refused)
	default:
		vxReach("hmac: mismatch")
		vxAssert("an HMAC never verifies under another message, algorithm or key version", !valid)
	}
}
