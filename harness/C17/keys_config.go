package transit

// C17 — the version window stays well-formed under configuration changes: ONE step of the real pathKeysConfigWrite
// from an ARBITRARY well-formed policy (0 <= min_available <= min_decryption <= latest, min_encryption = 0 or in
// [min_decryption, latest], min_available <= min_encryption unless both unset) with ALL integer values of the
// requested min_decryption_version / min_encryption_version (each present or absent) and the policy write succeeding
// or failing: whatever is persisted is again well-formed - in particular min_decryption_version never drops below
// min_available_version (trimmed versions are never promised again) and never rises above the latest version -, and
// a refused or failed change leaves the cached policy exactly as it was. Together with VxTrim (same invariant after a
// trim) this is inductive over any history of config / trim operations.
//
//vx:pkg github.com/openbao/openbao/v2/internal/builtin/logical/transit
//vx:include handlers.go
//vx:include trim.go
//vx:assume (this file) Policy.Persist is the recording stub of trim.go; the response formatter is dropped
//vx:redirect (*github.com/openbao/openbao/v2/internal/builtin/logical/transit.backend).GetPolicyExclusive vxGetPolicy
//vx:redirect (*github.com/openbao/openbao/sdk/v2/helper/keysutil.Policy).Persist vxTrimPersist
//vx:redirect (*github.com/openbao/openbao/v2/internal/builtin/logical/transit.backend).formatKeyPolicy vxFormatKeyPolicy

import (
	"context"

	"github.com/openbao/openbao/sdk/v2/framework"
	"github.com/openbao/openbao/sdk/v2/helper/keysutil"
	"github.com/openbao/openbao/sdk/v2/logical"
)

func vxFormatKeyPolicy(b *backend, p *keysutil.Policy, context []byte) (*logical.Response, error) {
	return &logical.Response{Data: map[string]any{}}, nil
}

func vxWellFormed(avail, dec, enc, latest int) bool {
	if !(avail >= 0 && dec >= 1 && dec <= latest && avail <= dec) {
		return false
	}
	if enc != 0 && !(enc >= dec && enc <= latest && avail <= enc) {
		return false
	}
	if enc == 0 && avail > 0 {
		return false // trimming requires an explicit min_encryption_version
	}
	return enc >= 0
}

func VxKeysConfig() {
	vxCalls, vxLocked, vxStatus = nil, 0, 0
	vxTrimPersisted = nil
	b := &backend{Backend: &framework.Backend{}}
	p := keysutil.NewPolicy(keysutil.PolicyConfig{Name: "k", Type: keysutil.KeyType_AES256_GCM96})
	latest, avail, dec, enc := vxInt("latest version"), vxInt("min_available_version"), vxInt("min_decryption_version"), vxInt("min_encryption_version")
	vxAssume(latest >= 1 && vxWellFormed(avail, dec, enc, latest))
	p.LatestVersion, p.MinAvailableVersion, p.MinDecryptionVersion, p.MinEncryptionVersion = latest, avail, dec, enc
	vxPolicy = p
	vxTrimFail = vxBool("policy write fails")
	raw := map[string]any{"name": "k"}
	if vxBool("min_decryption_version supplied") {
		raw["min_decryption_version"] = vxInt("requested min_decryption_version")
	}
	if vxBool("min_encryption_version supplied") {
		raw["min_encryption_version"] = vxInt("requested min_encryption_version")
	}
	_, _ = b.pathKeysConfigWrite(context.Background(), &logical.Request{Operation: logical.UpdateOperation}, &framework.FieldData{Raw: raw})
	vxAssert("the policy lock is released", vxLocked == 0)
	if len(vxTrimPersisted) == 0 {
		vxReach("config: refused, failed or nothing to do")
		vxAssert("a refused or failed change leaves the cached version window as it was", p.MinDecryptionVersion == dec && p.MinEncryptionVersion == enc && p.MinAvailableVersion == avail)
		return
	}
	vxReach("config: persisted")
	vxAssert("persisted once", len(vxTrimPersisted) == 1 && p.MinAvailableVersion == avail)
	vxAssert("the persisted version window is well-formed: 1 <= min_decryption <= latest, min_encryption unset or within [min_decryption, latest]", p.MinDecryptionVersion >= 1 && p.MinDecryptionVersion <= latest && (p.MinEncryptionVersion == 0 || (p.MinEncryptionVersion >= p.MinDecryptionVersion && p.MinEncryptionVersion <= latest)))
	vxAssert("min_decryption_version never drops below min_available_version (trimmed versions are never promised again)", p.MinDecryptionVersion >= avail)
	vxAssert("min_encryption_version never drops below min_available_version", p.MinEncryptionVersion >= avail)
}
