package vault

// C05 (b') — token renewals: ONE step of the real ExpirationManager.RenewToken (namespace and lease resolution,
// renewable gate, renewAuthEntry, the token store's real authRenew handler with the real tokenStoreRole lookup,
// framework.CalculateTTL, persist, re-tracking) from an ARBITRARY token lease - any issue time not in the future, any
// current expiry - for a token created with or without a role, with ANY period / explicit maximum encoded onto the
// token itself and ANY period / explicit maximum (current or deprecated field) on its role, ALL mount values and ANY
// increment: after a successful renewal the expiry is <= issue time + the explicit maximum in force (the lesser of the
// token's own and its role's, as at creation), a periodic token gets at most its period (the lesser of the token's own
// and its role's), a non-periodic token stays within issue time + mount maximum, the issue time is never rewritten,
// and what is persisted and tracked is the renewed lease. The bound refers to the issue time only, so it is inductive
// over any number of renewals.
//
//vx:pkg github.com/openbao/openbao/v2/internal/vault
//vx:include renew.go
//vx:assume (this file) the token entry lookup returns the stored entry; the role is read through the real tokenStoreRole over a one-key view with a boxed entry; salting is "s-"+id; identity group refresh is outside (no entity on the token)
//vx:bodies github.com/openbao/openbao/sdk/v2/helper/tokenutil
//vx:redirect (*github.com/openbao/openbao/v2/internal/vault.TokenStore).Lookup vxTLookup
//vx:redirect (*github.com/openbao/openbao/v2/internal/vault.TokenStore).rolesView vxTRolesView
//vx:redirect (*github.com/openbao/openbao/v2/internal/vault.TokenStore).SaltID vxTSaltID
//vx:redirect (*github.com/openbao/openbao/v2/internal/vault.Core).NamespaceByID vxTNamespaceByID
//vx:redirect github.com/openbao/openbao/sdk/v2/helper/jsonutil.DecodeJSON vxTDecodeJSON
//vx:redirect github.com/openbao/openbao/sdk/v2/framework.CalculateTTL vxTCalculateTTL
//vx:assume (this file) compositional: framework.CalculateTTL is replaced by a stub that records its arguments and grants an arbitrary non-negative ttl - its own contract (expiry <= start + every maximum handed to it, <= period for periodic tokens) is decided for ALL values by VxCalculateTTL; this harness decides that RenewToken hands it the right period, explicit maximum, backend maximum and START TIME and persists exactly what it granted

import (
	"context"
	"time"

	"github.com/openbao/openbao/sdk/v2/logical"
	"github.com/openbao/openbao/v2/internal/helper/namespace"
	"github.com/openbao/openbao/v2/internal/vault/barrier"
	"github.com/openbao/openbao/v2/internal/vault/routing"
)

var (
	vxTToken *logical.TokenEntry
	vxTRole  []byte
)

func vxTLookup(ts *TokenStore, ctx context.Context, id string) (*logical.TokenEntry, error) {
	if vxTToken != nil && vxTToken.ID == id {
		return vxTToken, nil
	}
	return nil, nil
}

type vxTView struct{ barrier.View }

func (v *vxTView) Get(ctx context.Context, k string) (*logical.StorageEntry, error) {
	if k == "r" && vxTRole != nil {
		return &logical.StorageEntry{Key: k, Value: vxTRole}, nil
	}
	return nil, nil
}
func vxTRolesView(ts *TokenStore, ns *namespace.Namespace) barrier.View { return &vxTView{} }
func vxTSaltID(ts *TokenStore, ctx context.Context, id string) (string, error) {
	return "s-" + id, nil
}
func vxTNamespaceByID(c *Core, ctx context.Context, id string) (*namespace.Namespace, error) {
	if id == namespace.RootNamespaceID {
		return namespace.RootNamespace, nil
	}
	return nil, nil
}
func vxTDecodeJSON(data []byte, out interface{}) error {
	if !vxUnbox(data, out) {
		return vxErr("invalid JSON")
	}
	return nil
}

type vxTCalcArgs struct {
	increment, backendTTL, period, backendMax, explicitMax time.Duration
	start                                                  time.Time
	sysMax                                                 time.Duration
}

var (
	vxTCalc    []vxTCalcArgs
	vxTGranted time.Duration
)

func vxTCalculateTTL(sysView logical.SystemView, increment, backendTTL, period, backendMaxTTL, explicitMaxTTL time.Duration, startTime time.Time) (time.Duration, []string, error) {
	vxTCalc = append(vxTCalc, vxTCalcArgs{increment, backendTTL, period, backendMaxTTL, explicitMaxTTL, startTime, sysView.MaxLeaseTTL()})
	if vxTGranted < 0 {
		return 0, nil, vxErr("past the max TTL")
	}
	return vxTGranted, nil, nil
}

func VxRenewTokenStep() {
	vxTCalc = nil
	vxTGranted = time.Duration(vxInt64("ttl granted by CalculateTTL (negative = refused)"))
	vxAssume(vxTGranted != 0) // a granted ttl is positive (mount default > 0; decided on the real function by VxRenewStep: "renewed expiry is in the future")
	ts := &TokenStore{}
	vxRTokenStore = ts
	m := &ExpirationManager{router: &routing.Router{}, core: &Core{}, tokenStore: ts}
	vxRSysV = vxRSys{def: time.Duration(vxInt64("mount default ttl")), max: time.Duration(vxInt64("mount max ttl"))}
	vxAssume(vxRSysV.def > 0 && vxRSysV.max >= vxRSysV.def)

	// the token and (optionally) its role
	te := &logical.TokenEntry{ID: "tokid", Path: "auth/token/create", NamespaceID: namespace.RootNamespaceID, Policies: []string{"default"}, Type: logical.TokenTypeService}
	te.Period = time.Duration(vxInt64("period encoded onto the token"))
	te.ExplicitMaxTTL = time.Duration(vxInt64("explicit max encoded onto the token"))
	vxAssume(te.Period >= 0 && te.ExplicitMaxTTL >= 0)
	effPeriod, effExplicit := te.Period, te.ExplicitMaxTTL
	vxTRole = nil
	if vxBool("token was created through a role") {
		te.Role = "r"
		te.Path = "auth/token/create/r"
		var role tsRoleEntry
		rp, re := time.Duration(vxInt64("role period")), time.Duration(vxInt64("role explicit max"))
		vxAssume(rp >= 0 && re >= 0)
		if vxBool("role stored with the deprecated field names") {
			role.Period, role.ExplicitMaxTTL = rp, re
		} else {
			role.TokenPeriod, role.TokenExplicitMaxTTL = rp, re
		}
		vxTRole = vxBox(role)
		effPeriod, effExplicit = vxRMinPos(te.Period, rp), vxRMinPos(te.ExplicitMaxTTL, re)
	}
	vxTToken = te

	// its lease, in an arbitrary state
	issue := vxInstant("lease IssueTime")
	expire := vxInstant("lease ExpireTime")
	vxAssume(vxTimeLT(time.Time{}, issue))
	auth := &logical.Auth{ClientToken: "tokid", Policies: te.Policies, LeaseOptions: logical.LeaseOptions{TTL: time.Hour, Renewable: vxBool("token renewable")}}
	leaseID := te.Path + "/s-tokid"
	le := &leaseEntry{LeaseID: leaseID, ClientToken: "tokid", ClientTokenType: logical.TokenTypeService, Path: te.Path, IssueTime: issue, ExpireTime: expire, namespace: namespace.RootNamespace, Auth: auth}
	if vxBool("lease carries a revocation error") {
		le.RevokeErr = "x"
	}
	vxRLease, vxRPersisted, vxRTracked = le, nil, nil
	increment := time.Duration(vxInt64("requested increment"))
	vxAssume(increment >= 0)

	before := time.Now()
	vxAssume(vxTimeLE(issue, before))
	ctx := namespace.RootContext(context.Background())
	resp, err := m.RenewToken(ctx, &logical.Request{}, te, increment)
	after := time.Now()
	vxAssume(vxTimeLE(after, before))
	vxAssert("the lease lock is released", vxHeld(&vxRLock) == 0)
	renewed := err == nil && resp != nil && resp.Auth != nil && vxRPersisted != nil
	if !renewed {
		vxReach("renew token: refused or failed")
		vxAssert("a refused token renewal persists and tracks nothing", vxRPersisted == nil && vxRTracked == nil)
		vxAssert("a refused token renewal leaves the lease as it was", le.ExpireTime.Equal(expire) && le.IssueTime.Equal(issue))
		return
	}
	vxReach("renew token: granted")
	vxAssert("only live, revocable, renewable token leases are renewed", le.RevokeErr == "" && !expire.IsZero() && !expire.Before(before) && auth.Renewable)
	vxAssert("the renew handler saw the original issue time", vxRSeenIssue.Equal(issue))
	p := vxRPersisted
	vxAssert("issue time is never rewritten by a token renewal", p.IssueTime.Equal(issue))
	vxAssert("the ttl is computed exactly once", len(vxTCalc) == 1)
	a := vxTCalc[0]
	vxAssert("the ttl is computed from the lease's ORIGINAL issue time (so every maximum bounds issue time + max, inductively)", a.start.Equal(issue))
	vxAssert("with the mount's maximum", a.sysMax == vxRSysV.max)
	vxAssert("with the explicit maximum in force: the lesser of the token's own and its role's current one", a.explicitMax == effExplicit)
	vxAssert("with the period in force: the lesser of the token's own and its role's current one", a.period == effPeriod)
	vxAssert("with the requested increment and the lease's own ttl / max ttl", a.increment == increment && a.backendTTL == auth.TTL && a.backendMax == auth.MaxTTL)
	if effExplicit > 0 {
		vxReach("renew token: explicit maximum in force")
	}
	if effPeriod > 0 {
		vxReach("renew token: periodic")
	}
	vxAssert("what is granted is what was computed", resp.Auth.TTL == vxTGranted)
	vxAssert("the ttl reported is the expiry granted", p.ExpireTime.Equal(before.Add(resp.Auth.TTL)))
	vxAssert("the renewed lease is what gets tracked", vxRTracked != nil && vxRTracked.ExpireTime.Equal(p.ExpireTime))
	vxAssert("the response names the token", resp.Auth.ClientToken == "tokid")
}
