package vault

// C05 (d) — every lease is tracked for expiry: one step of the real ExpirationManager.updatePendingInternal from an
// ARBITRARY tracking state (the lease may already sit in the pending, nonexpiring and/or irrevocable map) for an
// arbitrary lease (any expiry instant, token/secret lease, any policy list shape, root or other namespace, revoke
// error or not): afterwards the lease is irrevocable-tracked iff it carries a revocation error, parked as
// non-expiring only if it is a root-namespace root token with no expiry, and otherwise sits in `pending` with a timer
// armed (or re-armed) for exactly expiry - now. (c) leaseEntry.renewable refuses expired, irrevocable, non-expiring
// and non-renewable leases.
//
//vx:pkg github.com/openbao/openbao/v2/internal/vault
//vx:assume timers are replaced by a recording stub (time.AfterFunc / Timer.Stop / Timer.Reset record their calls; firing is outside the claim); clock model: instants are whole seconds; metrics dropped
//vx:bodies context,github.com/openbao/openbao/sdk/v2/logical,github.com/openbao/openbao/v2/internal/helper/namespace
//vx:redirect time.AfterFunc vxAfterFunc
//vx:redirect (*time.Timer).Stop vxTimerStop
//vx:redirect (*time.Timer).Reset vxTimerReset
//vx:redirect (*github.com/openbao/openbao/v2/internal/vault.ExpirationManager).leaseInfoForExport vxLeaseInfoForExport
//vx:noop github.com/hashicorp/go-metrics/compat.*
//vx:unwind 100

import (
	"context"
	"time"

	"github.com/openbao/openbao/sdk/v2/logical"
	"github.com/openbao/openbao/v2/internal/helper/namespace"
)

type vxTimerRec struct {
	t       *time.Timer
	armed   bool
	d       time.Duration
	resets  int
	stops   int
	created bool
}

var vxTimers []*vxTimerRec

func vxTimerOf(t *time.Timer) *vxTimerRec {
	for _, r := range vxTimers {
		if r.t == t {
			return r
		}
	}
	r := &vxTimerRec{t: t}
	vxTimers = append(vxTimers, r)
	return r
}

func vxAfterFunc(d time.Duration, f func()) *time.Timer {
	t := &time.Timer{}
	r := vxTimerOf(t)
	r.armed, r.d, r.created = true, d, true
	return t
}
func vxTimerStop(t *time.Timer) bool {
	r := vxTimerOf(t)
	was := r.armed
	r.armed = false
	r.stops++
	return was
}
func vxTimerReset(t *time.Timer, d time.Duration) bool {
	r := vxTimerOf(t)
	was := r.armed
	r.armed, r.d = true, d
	r.resets++
	return was
}

func vxLeaseInfoForExport(m *ExpirationManager, le *leaseEntry) *leaseEntry {
	c := &leaseEntry{LeaseID: le.LeaseID, ExpireTime: le.ExpireTime, namespace: le.namespace}
	if le.Auth != nil {
		c.Auth = &logical.Auth{}
	}
	return c
}

func vxLease() *leaseEntry {
	le := &leaseEntry{LeaseID: "auth/token/create/h", Path: "auth/token/create", ExpireTime: vxInstant("lease ExpireTime")}
	vxAssume(vxTimeLE(time.Time{}, le.ExpireTime))
	if vxBool("lease has no expiry (zero ExpireTime)") {
		le.ExpireTime = time.Time{}
	}
	if vxBool("token lease") {
		le.Auth = &logical.Auth{}
		switch vxChoose("token policies([root],[root,default],[default],[])", 4) {
		case 0:
			le.Auth.Policies = []string{"root"}
		case 1:
			le.Auth.Policies = []string{"root", "default"}
		case 2:
			le.Auth.Policies = []string{"default"}
		}
		le.Auth.TTL = time.Duration(vxInt64("auth ttl"))
		vxAssume(le.Auth.TTL >= 0)
		le.Auth.Renewable = vxBool("auth renewable")
		if vxBool("auth max ttl set") {
			le.Auth.MaxTTL = time.Hour
		}
	} else {
		le.Secret = &logical.Secret{}
		le.Secret.TTL = time.Hour
		le.Secret.Renewable = vxBool("secret renewable")
	}
	switch vxChoose("namespace(root,child,nil)", 3) {
	case 0:
		le.namespace = namespace.RootNamespace
	case 1:
		le.namespace = &namespace.Namespace{ID: "child", Path: "child/"}
	}
	if vxBool("lease carries a revocation error") {
		le.RevokeErr = "revocation failed"
	}
	return le
}

func VxUpdatePending() {
	vxTimers = nil
	m := &ExpirationManager{uniquePolicies: map[string][]string{}, quitContext: context.Background()}
	le := vxLease()
	inPending := vxBool("already in pending")
	inNonexp := vxBool("already in nonexpiring")
	inIrrev := vxBool("already in irrevocable")
	var oldTimer *time.Timer
	if inPending {
		oldTimer = vxAfterFunc(time.Minute, nil)
		vxTimerOf(oldTimer).created = false
		m.pending.Store(le.LeaseID, pendingInfo{timer: oldTimer, cachedLeaseInfo: &leaseEntry{LeaseID: le.LeaseID}})
		m.leaseCount = 1
	}
	if inNonexp {
		m.nonexpiring.Store(le.LeaseID, pendingInfo{cachedLeaseInfo: &leaseEntry{LeaseID: le.LeaseID}})
	}
	if inIrrev {
		m.irrevocable.Store(le.LeaseID, &leaseEntry{LeaseID: le.LeaseID})
		m.irrevocableLeaseCount = 1
	}
	countBefore := m.leaseCount
	before := time.Now()
	m.updatePendingInternal(le)
	after := time.Now()
	vxAssume(vxTimeLE(after, before)) // freeze the clock across the call: pins the instant the unit read

	pRaw, nowPending := m.pending.Load(le.LeaseID)
	_, nowNonexp := m.nonexpiring.Load(le.LeaseID)
	_, nowIrrev := m.irrevocable.Load(le.LeaseID)
	rootTok := le.Auth != nil && le.Auth.TTL == 0 && len(le.Auth.Policies) == 1 && le.Auth.Policies[0] == "root" && le.namespace != nil && le.namespace.ID == namespace.RootNamespaceID
	switch {
	case le.ExpireTime.IsZero() && rootTok:
		vxReach("tracking: non-expiring root token")
		vxAssert("a non-expiring root token of the root namespace is parked as non-expiring, with no timer", nowNonexp && !nowPending)
		if oldTimer != nil {
			vxAssert("its old timer is stopped", !vxTimerOf(oldTimer).armed)
		}
	case le.RevokeErr != "":
		vxReach("tracking: irrevocable")
		vxAssert("a lease with a revocation error is tracked as irrevocable and leaves pending", nowIrrev && !nowPending)
		if oldTimer != nil {
			vxAssert("its old timer is stopped", !vxTimerOf(oldTimer).armed)
		}
	default:
		vxReach("tracking: pending")
		vxAssert("every other lease is in pending", nowPending)
		if nowPending {
			pi := pRaw.(pendingInfo)
			vxAssert("with a timer", pi.timer != nil)
			r := vxTimerOf(pi.timer)
			vxAssert("that is armed", r.armed)
			vxAssert("for exactly expiry - now", r.d == le.ExpireTime.Sub(before))
			if inPending {
				vxAssert("an existing timer is re-armed, not duplicated", pi.timer == oldTimer && r.resets == 1)
			} else {
				vxAssert("a new timer is created", r.created)
			}
		}
		vxAssert("only leases with a revocation error are (newly) tracked as irrevocable", nowIrrev == inIrrev)
	}
	if !inPending && !inIrrev && (nowPending || nowIrrev) {
		vxAssert("a newly tracked lease is counted once", m.leaseCount == countBefore+1)
	}
	if inPending && nowPending {
		vxAssert("re-tracking does not change the count", m.leaseCount == countBefore)
	}
	_ = nowNonexp
}

// renewable: expired, irrevocable, non-expiring and non-renewable leases cannot be renewed
func VxRenewable() {
	le := vxLease()
	if vxBool("batch token lease") {
		le.ClientTokenType = logical.TokenTypeBatch
	}
	before := time.Now()
	ok, err := le.renewable()
	after := time.Now()
	vxAssume(vxTimeLE(after, before))
	expired := le.ExpireTime.Before(before)
	nonRenewable := (le.Secret != nil && !le.Secret.Renewable) || (le.Auth != nil && !le.Auth.Renewable)
	if ok {
		vxReach("renewable: yes")
		vxAssert("a renewable lease is live, revocable, expiring and marked renewable", err == nil && !expired && le.RevokeErr == "" && !le.ExpireTime.IsZero() && !nonRenewable && le.ClientTokenType != logical.TokenTypeBatch)
	} else {
		vxReach("renewable: no")
		vxAssert("a lease is refused only for one of the documented reasons", expired || le.RevokeErr != "" || le.ExpireTime.IsZero() || nonRenewable || le.ClientTokenType == logical.TokenTypeBatch)
	}
}
