package vault

// C05 (e) — a lease whose revocation keeps failing stays tracked until it is marked irrevocable: ONE step of the real
// revocationJob.OnFailure (the handler of a failed expiry-time revocation) from an ARBITRARY retry state - any number
// of earlier attempts 0..maxRevokeAttempts, a recoverable or an unrecoverable error, the lease still in storage or
// gone: afterwards the lease is EITHER still pending with its attempt counter advanced by one and its timer re-armed
// (so another attempt will happen), OR - exactly when the retry budget is used up or the error is unrecoverable -
// marked irrevocable (persisted with its error, in the irrevocable map, out of pending), OR no longer in storage.
// It never silently drops out of tracking. Inductive over any number of failed attempts.
//
//vx:pkg github.com/openbao/openbao/v2/internal/vault
//vx:include tracking.go
//vx:assume (this file) the back-off delay (floating point, random jitter) is a stub returning a positive duration; lease load / persist are recording stubs; a storage failure while loading the lease at the moment of exhaustion is outside (fault sequences are not in this property's quantifier)
//vx:bodies github.com/openbao/openbao/v2/internal/helper/locking,errors,internal/reflectlite
//vx:redirect (*github.com/openbao/openbao/v2/internal/vault.revocationJob).revokeExponentialBackoff vxRTBackoff
//vx:redirect (*github.com/openbao/openbao/v2/internal/vault.ExpirationManager).loadEntry vxRTLoad
//vx:redirect (*github.com/openbao/openbao/v2/internal/vault.ExpirationManager).persistEntry vxRTPersist
//vx:noop (*github.com/openbao/openbao/v2/internal/helper/metricsutil.ClusterMetricSink).*
//vx:noop github.com/openbao/openbao/v2/internal/helper/metricsutil.*

import (
	"context"
	"time"

	log "github.com/hashicorp/go-hclog"
	"github.com/openbao/openbao/sdk/v2/logical"
	"github.com/openbao/openbao/v2/internal/helper/locking"
	"github.com/openbao/openbao/v2/internal/helper/metricsutil"
	"github.com/openbao/openbao/v2/internal/helper/namespace"
)

type vxRLog struct{ log.Logger }

func (vxRLog) Debug(msg string, args ...interface{}) {}
func (vxRLog) Trace(msg string, args ...interface{}) {}
func (vxRLog) Info(msg string, args ...interface{})  {}
func (vxRLog) Warn(msg string, args ...interface{})  {}
func (vxRLog) Error(msg string, args ...interface{}) {}

var (
	vxRTStored    *leaseEntry
	vxRTPersisted *leaseEntry
)

func vxRTBackoff(r *revocationJob, attempt uint8) time.Duration {
	return time.Duration(attempt+1) * time.Second
}
func vxRTLoad(m *ExpirationManager, ctx context.Context, id string) (*leaseEntry, error) {
	return vxRTStored, nil
}
func vxRTPersist(m *ExpirationManager, ctx context.Context, le *leaseEntry) error {
	c := *le
	vxRTPersisted = &c
	return nil
}

func VxRevocationRetryStep() {
	vxTimers = nil
	vxRTPersisted = nil
	m := &ExpirationManager{uniquePolicies: map[string][]string{}, quitContext: context.Background(), pendingLock: &locking.SyncRWMutex{},
		core: &Core{metricSink: &metricsutil.ClusterMetricSink{}}, logger: vxRLog{}}
	id := "kv/creds/a/h"
	attempts := vxChoose("revocation attempts so far", maxRevokeAttempts+1)
	timer := vxAfterFunc(time.Minute, nil)
	vxTimerOf(timer).armed = false // it has just fired
	m.pending.Store(id, pendingInfo{timer: timer, revokesAttempted: uint8(attempts), cachedLeaseInfo: &leaseEntry{LeaseID: id}})
	m.leaseCount = 1
	vxRTStored = nil
	if vxBool("lease still in storage") {
		vxRTStored = &leaseEntry{LeaseID: id, Path: "kv/creds/a", namespace: namespace.RootNamespace, ExpireTime: time.Now(), Secret: &logical.Secret{}}
	}
	var cause error
	unrecoverable := vxBool("the failure is unrecoverable")
	if unrecoverable {
		cause = logical.ErrUnsupportedOperation
	} else {
		cause = vxErr("backend unreachable")
	}
	job := &revocationJob{leaseID: id, ns: namespace.RootNamespace, m: m, nsCtx: namespace.RootContext(context.Background())}
	job.OnFailure(cause)
	vxAssert("the tracking lock is released", vxHeld(m.pendingLock) == 0)
	pRaw, stillPending := m.pending.Load(id)
	_, irrev := m.irrevocable.Load(id)
	exhausted := attempts+1 >= maxRevokeAttempts || unrecoverable
	switch {
	case !exhausted:
		vxReach("retry: another attempt is scheduled")
		vxAssert("within the retry budget the lease stays pending", stillPending && !irrev)
		if stillPending {
			pi := pRaw.(pendingInfo)
			vxAssert("the attempt counter advances by exactly one", int(pi.revokesAttempted) == attempts+1)
			vxAssert("the timer is re-armed, so another attempt will happen", pi.timer == timer && vxTimerOf(timer).armed && vxTimerOf(timer).d > 0)
		}
	case vxRTStored == nil:
		vxReach("retry: lease gone from storage")
		vxAssert("a lease that is no longer in storage is not marked irrevocable", !irrev)
	default:
		vxReach("retry: marked irrevocable")
		vxAssert("when the retry budget is used up (or the error is unrecoverable) the lease is marked irrevocable and leaves pending", irrev && !stillPending)
		vxAssert("the irrevocable state is persisted with its error", vxRTPersisted != nil && vxRTPersisted.RevokeErr != "")
	}
}
