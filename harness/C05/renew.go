package vault

// C05 (b) — no sequence of renewals moves a lease past issue time + effective maximum: ONE step of the real
// ExpirationManager.Renew (renewable gate, renewEntry, framework.CalculateTTL, persist, re-tracking) from an ARBITRARY
// lease state - any issue time not in the future, any current expiry - with the backend's renew handler returning an
// ARBITRARY ttl / max ttl and ALL mount default / maximum values: after a successful renewal
// ExpireTime <= IssueTime + min+(mount maximum, backend maximum), IssueTime is unchanged, what is persisted and
// what is tracked is the renewed lease, and the ttl reported equals the expiry granted. Since the bound only refers to
// the (never rewritten) issue time, it is inductive over any number of renewals.
//
//vx:pkg github.com/openbao/openbao/v2/internal/vault
//vx:assume clock model: instants are whole seconds, time.Now is non-decreasing and frozen across the call; the backend's renew handler (router.Route) returns an arbitrary non-negative ttl and max ttl, or an error / nil / error response; lease load, persist and tracking are recording stubs; mount default ttl > 0 and <= mount max ttl
//vx:bodies context,github.com/openbao/openbao/sdk/v2/logical,github.com/openbao/openbao/v2/internal/helper/namespace,github.com/openbao/openbao/sdk/v2/framework,github.com/openbao/openbao/v2/internal/vault/routing
//vx:redirect (*github.com/openbao/openbao/v2/internal/vault.ExpirationManager).loadEntry vxRLoadEntry
//vx:redirect (*github.com/openbao/openbao/v2/internal/vault.ExpirationManager).persistEntry vxRPersistEntry
//vx:redirect (*github.com/openbao/openbao/v2/internal/vault.ExpirationManager).updatePending vxRUpdatePending
//vx:redirect (*github.com/openbao/openbao/v2/internal/vault.ExpirationManager).lockForLeaseID vxRLockFor
//vx:redirect (*github.com/openbao/openbao/v2/internal/vault/routing.Router).MatchingSystemView vxRSysView
//vx:redirect (*github.com/openbao/openbao/v2/internal/vault/routing.Router).Route vxRRoute
//vx:noop github.com/hashicorp/go-metrics/compat.*
//vx:unwind 100

import (
	"context"
	"sync"
	"time"

	"github.com/openbao/openbao/sdk/v2/logical"
	"github.com/openbao/openbao/v2/internal/helper/namespace"
	"github.com/openbao/openbao/v2/internal/vault/routing"
)

type vxRSys struct {
	logical.SystemView
	def, max time.Duration
}

func (v vxRSys) DefaultLeaseTTL() time.Duration { return v.def }
func (v vxRSys) MaxLeaseTTL() time.Duration     { return v.max }

var (
	vxRLease      *leaseEntry
	vxRPersisted  *leaseEntry
	vxRTracked    *leaseEntry
	vxRSysV       vxRSys
	vxRLock       sync.RWMutex
	vxRRespKind   int
	vxRRespTTL    time.Duration
	vxRRespMax    time.Duration
	vxRSeenIssue  time.Time
	vxRTokenStore *TokenStore
)

func vxRLoadEntry(m *ExpirationManager, ctx context.Context, id string) (*leaseEntry, error) {
	return vxRLease, nil
}
func vxRPersistEntry(m *ExpirationManager, ctx context.Context, le *leaseEntry) error {
	c := *le
	vxRPersisted = &c
	return nil
}
func vxRUpdatePending(m *ExpirationManager, le *leaseEntry)    { c := *le; vxRTracked = &c }
func vxRLockFor(m *ExpirationManager, id string) *sync.RWMutex { return &vxRLock }
func vxRSysView(r *routing.Router, ctx context.Context, path string) logical.SystemView {
	return vxRSysV
}

// the secrets engine's renew handler
func vxRRoute(r *routing.Router, ctx context.Context, req *logical.Request) (*logical.Response, error) {
	if req.Auth != nil && vxRTokenStore != nil {
		// a token's renewal is routed to the token store's own renew handler (framework AuthRenew callback)
		vxRSeenIssue = req.Auth.IssueTime
		return vxRTokenStore.authRenew(ctx, req, nil)
	}
	if req.Secret != nil {
		vxRSeenIssue = req.Secret.IssueTime
	}
	switch vxRRespKind {
	case 1:
		return nil, vxErr("backend refused the renewal")
	case 2:
		return nil, nil
	case 3:
		return logical.ErrorResponse("cannot renew"), nil
	}
	s := &logical.Secret{LeaseOptions: logical.LeaseOptions{TTL: vxRRespTTL, MaxTTL: vxRRespMax, Renewable: true}}
	return &logical.Response{Secret: s, Data: map[string]any{"k": "v"}}, nil
}

func vxRMinPos(a, b time.Duration) time.Duration {
	switch {
	case a <= 0:
		return b
	case b <= 0:
		return a
	case a < b:
		return a
	}
	return b
}

func VxRenewStep() {
	m := &ExpirationManager{router: &routing.Router{}}
	vxRSysV = vxRSys{def: time.Duration(vxInt64("mount default ttl")), max: time.Duration(vxInt64("mount max ttl"))}
	vxAssume(vxRSysV.def > 0 && vxRSysV.max >= vxRSysV.def)
	issue := vxInstant("lease IssueTime")
	expire := vxInstant("lease ExpireTime")
	vxAssume(vxTimeLT(time.Time{}, issue))
	le := &leaseEntry{LeaseID: "kv/creds/x/h", Path: "kv/creds/x", IssueTime: issue, ExpireTime: expire, namespace: namespace.RootNamespace,
		Secret: &logical.Secret{LeaseOptions: logical.LeaseOptions{TTL: time.Hour, Renewable: vxBool("lease renewable")}}}
	if vxBool("lease carries a revocation error") {
		le.RevokeErr = "x"
	}
	vxRLease, vxRPersisted, vxRTracked = le, nil, nil
	vxRRespKind = vxChoose("backend renew outcome(secret,error,nil,error response)", 4)
	vxRRespTTL, vxRRespMax = time.Duration(vxInt64("backend ttl")), time.Duration(vxInt64("backend max ttl"))
	vxAssume(vxRRespTTL >= 0 && vxRRespMax >= 0)
	increment := time.Duration(vxInt64("requested increment"))
	vxAssume(increment >= 0)

	before := time.Now()
	vxAssume(vxTimeLE(issue, before)) // issue time is not in the future
	resp, err := m.Renew(context.Background(), le.LeaseID, increment)
	after := time.Now()
	vxAssume(vxTimeLE(after, before))
	vxAssert("the lease lock is released", vxHeld(&vxRLock) == 0)
	renewed := err == nil && resp != nil && resp.Secret != nil && vxRPersisted != nil
	if !renewed {
		vxReach("renew: refused or failed")
		vxAssert("a refused renewal persists and tracks nothing", vxRPersisted == nil && vxRTracked == nil)
		vxAssert("a refused renewal leaves the lease as it was", le.ExpireTime.Equal(expire) && le.IssueTime.Equal(issue))
		return
	}
	vxReach("renew: granted")
	vxAssert("only live, revocable, renewable leases are renewed", le.RevokeErr == "" && !expire.IsZero() && !expire.Before(before) && vxRRespKind == 0)
	vxAssert("the backend saw the original issue time", vxRSeenIssue.Equal(issue))
	p := vxRPersisted
	vxAssert("issue time is never rewritten by a renewal", p.IssueTime.Equal(issue))
	eff := vxRMinPos(vxRSysV.max, vxRRespMax)
	vxAssert("renewed expiry <= issue time + effective maximum (inductive over renewals)", !p.ExpireTime.After(issue.Add(eff)))
	vxAssert("renewed expiry is in the future", p.ExpireTime.After(before))
	vxAssert("the ttl reported is the expiry granted", p.ExpireTime.Equal(before.Add(resp.Secret.TTL)))
	vxAssert("the renewed lease is what gets tracked", vxRTracked != nil && vxRTracked.ExpireTime.Equal(p.ExpireTime))
	vxAssert("last renewal time recorded", p.LastRenewalTime.Equal(before))
}
