package framework

// C05(a) — CalculateTTL: for ALL 64-bit durations and instants the granted expiry never exceeds issue time + any
// configured maximum; periodic tokens are capped by period and explicit max; no spurious refusal.
//
//vx:pkg github.com/openbao/openbao/sdk/v2/framework
//vx:bodies strings,internal/stringslite

import (
	"time"

	"github.com/openbao/openbao/sdk/v2/logical"
)

type vxSysView struct {
	logical.SystemView
	def, max time.Duration
}

func (v vxSysView) DefaultLeaseTTL() time.Duration { return v.def }
func (v vxSysView) MaxLeaseTTL() time.Duration     { return v.max }

func VxCalculateTTL() {
	sv := vxSysView{def: time.Duration(vxInt64("sysDefault")), max: time.Duration(vxInt64("sysMax"))}
	inc, bttl, period := time.Duration(vxInt64("increment")), time.Duration(vxInt64("backendTTL")), time.Duration(vxInt64("period"))
	bmax, emax := time.Duration(vxInt64("backendMax")), time.Duration(vxInt64("explicitMax"))
	vxAssume(sv.def > 0) // documented: the system default TTL is positive
	start := vxInstant("issueTime")
	vxAssume(vxTimeLE(time.Time{}, start)) // zero = "issue now"
	before := time.Now()
	ttl, _, err := CalculateTTL(sv, inc, bttl, period, bmax, emax, start)
	now := time.Now()
	// the clock stub returns arbitrary non-decreasing instants; freezing it across the call pins the instant
	// CalculateTTL read (before <= inside <= now) without touching the unit
	vxAssume(vxTimeLE(now, before))
	issue := start
	if start.IsZero() {
		issue = now
	} else {
		vxAssume(vxTimeLE(start, now)) // issue time is not in the future
	}
	if err != nil {
		vxReach("ttl: refused")
		if sv.max > 0 {
			// not refused without cause: some bound is already passed
			passed := false
			if period > 0 {
				passed = emax > 0 && vxTimeLE(issue.Add(emax), now)
			} else {
				passed = vxTimeLE(issue.Add(sv.max), now) || (bmax > 0 && vxTimeLE(issue.Add(bmax), now)) || (emax > 0 && vxTimeLE(issue.Add(emax), now))
			}
			vxAssert("refusal only when a maximum has passed", passed)
		}
		return
	}
	vxAssert("ttl positive", ttl > 0)
	expiry := now.Add(ttl)
	if period > 0 {
		vxReach("ttl: periodic")
		vxAssert("periodic: ttl <= period", ttl <= period)
		vxAssert("periodic: ttl <= system max", ttl <= sv.max)
		if bmax > 0 {
			vxAssert("periodic: ttl <= backend max", ttl <= bmax)
		}
		if emax > 0 {
			vxReach("ttl: periodic with explicit max")
			vxAssert("periodic: ttl <= explicit max", ttl <= emax)
			vxAssert("periodic: expiry <= issue + explicit max", vxTimeLE(expiry, issue.Add(emax)))
		}
		return
	}
	vxReach("ttl: plain")
	vxAssert("expiry <= issue + system max", vxTimeLE(expiry, issue.Add(sv.max)))
	if bmax > 0 {
		vxReach("ttl: backend max set")
		vxAssert("expiry <= issue + backend max", vxTimeLE(expiry, issue.Add(bmax)))
	}
	if emax > 0 {
		vxReach("ttl: explicit max set")
		vxAssert("expiry <= issue + explicit max", vxTimeLE(expiry, issue.Add(emax)))
	}
	// the TTL actually requested is honoured when it fits
	want := sv.def
	if inc > 0 {
		want = inc
	} else if bttl > 0 {
		want = bttl
	}
	vxAssert("ttl never exceeds what was asked for", ttl <= want)
}
