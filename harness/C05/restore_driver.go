package vault

// C05 (e') — restore-mode accounting: leases read from storage are only put under expiry tracking while the manager
// is in restore mode, and restore mode is a COUNTER of restores in flight (the global one an active node starts with,
// plus one per namespace being unsealed). The real Restore / RestoreNamespace / restore epilogue (the worker pool is
// dropped - no leases are collected by the driver itself - so what runs is collect, the bookkeeping and the deferred
// epilogue) in every order of {global restore finishes, a namespace restore is in flight / starts / finishes}:
// while any restore is in flight the counter is positive and the real processRestore tracks a stored lease; when all
// have finished it is exactly zero (never negative, so a later namespace unseal enters restore mode again).
//
//vx:pkg github.com/openbao/openbao/v2/internal/vault
//vx:include restore.go
//vx:include tracking.go
//vx:assume (this file) the driver's worker pool (sync.WaitGroup.Go, channels) is dropped and the collectors return no leases; the per-lease step processRestore is executed by the harness itself, as in restore.go
//vx:redirect (*github.com/openbao/openbao/v2/internal/vault.ExpirationManager).collectLeases vxRDCollect
//vx:redirect (*github.com/openbao/openbao/v2/internal/vault.ExpirationManager).collectNamespaceLeases vxRDCollectNS
//vx:noop (*sync.WaitGroup).Go
//vx:bodies github.com/hashicorp/errwrap

import (
	"context"
	"time"

	log "github.com/hashicorp/go-hclog"
	"github.com/openbao/openbao/sdk/v2/helper/locksutil"
	"github.com/openbao/openbao/sdk/v2/logical"
	"github.com/openbao/openbao/v2/internal/helper/locking"
	"github.com/openbao/openbao/v2/internal/helper/namespace"
)

type vxSLog struct{ log.Logger }

func (vxSLog) Debug(msg string, args ...interface{}) {}
func (vxSLog) Trace(msg string, args ...interface{}) {}
func (vxSLog) Info(msg string, args ...interface{})  {}
func (vxSLog) Warn(msg string, args ...interface{})  {}
func (vxSLog) Error(msg string, args ...interface{}) {}

func vxRDCollect(m *ExpirationManager) (map[*namespace.Namespace][]string, int, error) {
	return map[*namespace.Namespace][]string{}, 0, nil
}
func vxRDCollectNS(m *ExpirationManager, ns *namespace.Namespace) ([]string, error) { return nil, nil }

func vxRDTrackedAfterProcess(m *ExpirationManager, id string) bool {
	vxSStored["n1|"+id] = vxBox(leaseEntry{LeaseID: id, Path: "kv/creds/a", IssueTime: time.Now(), ExpireTime: time.Now().Add(time.Hour), Secret: &logical.Secret{LeaseOptions: logical.LeaseOptions{TTL: time.Hour}}})
	err := m.processRestore(namespace.ContextWithNamespace(context.Background(), vxSN1), id)
	vxAssert("processing a stored lease succeeds", err == nil)
	return vxSTracked(m, id) == 1
}

func VxRestoreModeAccounting() {
	vxTimers = nil
	vxSStored = map[string][]byte{}
	m := &ExpirationManager{uniquePolicies: map[string][]string{}, quitContext: context.Background(), pendingLock: &locking.SyncRWMutex{},
		restoreLocks: locksutil.CreateLocks(), useCache: true, core: &Core{}, logger: vxSLog{}, quitCh: make(chan struct{})}
	m.restoreMode.Add(1) // an active node's manager starts in restore mode for the global restore
	switch vxChoose("order(namespace unseal in flight when the global restore finishes, global restore first then namespace unseal)", 2) {
	case 0:
		m.restoreMode.Add(1) // RestoreNamespace(n1) has begun (it increments before it restores) and is still working
		vxAssert("global restore ok", m.Restore(nil) == nil)
		vxReach("restore: global restore finished while a namespace restore is in flight")
		vxAssert("a namespace restore still in flight keeps the manager in restore mode", m.inRestoreMode())
		vxAssert("so the stored leases it has not processed yet are still put under expiry tracking", vxRDTrackedAfterProcess(m, "kv/creds/a/h1.n1"))
		m.restoreMode.Add(-1) // the namespace restore's own epilogue
		vxAssert("when every restore has finished the manager has left restore mode", !m.inRestoreMode() && m.restoreMode.Load() == 0)
	default:
		vxAssert("global restore ok", m.Restore(nil) == nil)
		vxAssert("after the global restore the manager has left restore mode", !m.inRestoreMode() && m.restoreMode.Load() == 0)
		if vxBool("the global restore is run once more on the same manager") {
			m.restoreMode.Add(1)
			vxAssert("second global restore ok", m.Restore(nil) == nil)
			vxAssert("the counter is back at zero, not below", m.restoreMode.Load() == 0)
		}
		vxAssert("namespace restore ok", m.RestoreNamespace(vxSN1, nil) == nil)
		vxReach("restore: namespace restore after the global one")
		vxAssert("after the namespace restore the counter is exactly zero again", m.restoreMode.Load() == 0)
		m.restoreMode.Add(1) // a later namespace unseal enters restore mode ...
		vxAssert("... and its stored leases are tracked", m.inRestoreMode() && vxRDTrackedAfterProcess(m, "kv/creds/a/h2.n1"))
	}
}
