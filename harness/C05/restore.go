package vault

// C05 (e) — every stored lease is tracked again after a namespace is sealed and unsealed: the real
// ExpirationManager.StopNamespace (what a namespace seal calls) from an ARBITRARY in-memory state over a universe of
// four leases (root namespace, two of the sealed namespace, one of another namespace) - each lease independently
// in pending / nonexpiring / irrevocable / none, with or without a per-lease lock entry, marked "already loaded by a
// restore" (restoreLoaded) or not - followed by the real processRestore / loadEntryInternal of the unseal for a lease
// of that namespace that is in storage: StopNamespace forgets everything about the namespace (all five maps) and
// nothing about any other; the counters follow; and the restore then tracks the stored lease again (the
// representation invariant "marked loaded => tracked", which makes processRestore's skip sound, is assumed before and
// asserted after).
//
//vx:pkg github.com/openbao/openbao/v2/internal/vault
//vx:assume (this file) the restore worker pool (goroutines, channels) of restore() is not executed - its per-lease step processRestore is; lease storage is a key set per namespace with boxed entries; the restore-mode counter is >= 1 while a restore runs (RestoreNamespace increments it before restore())
//vx:include tracking.go
//vx:bodies github.com/openbao/openbao/sdk/v2/helper/locksutil,github.com/openbao/openbao/v2/internal/helper/locking
//vx:redirect (*github.com/openbao/openbao/v2/internal/vault.ExpirationManager).leaseView vxSLeaseView
//vx:redirect github.com/openbao/openbao/v2/internal/vault.decodeLeaseEntry vxSDecodeLease
//vx:redirect github.com/openbao/openbao/sdk/v2/helper/locksutil.LockIndexForKey vxSLockIndex

import (
	"context"
	"time"

	"github.com/openbao/openbao/sdk/v2/helper/locksutil"
	"github.com/openbao/openbao/sdk/v2/logical"
	"github.com/openbao/openbao/v2/internal/helper/locking"
	"github.com/openbao/openbao/v2/internal/helper/namespace"
	"github.com/openbao/openbao/v2/internal/vault/barrier"
)

var (
	vxSN1     = &namespace.Namespace{ID: "n1", Path: "n1/"}
	vxSN2     = &namespace.Namespace{ID: "n2", Path: "n2/"}
	vxSLeases = []string{"kv/creds/a/h0", "kv/creds/a/h1.n1", "kv/creds/a/h2.n1", "kv/creds/a/h3.n2"}
	vxSNsOf   = []string{namespace.RootNamespaceID, "n1", "n1", "n2"}
	vxSStored map[string][]byte // "<ns id>|<lease id>" -> boxed entry
)

type vxSView struct {
	barrier.View
	ns string
}

func (v *vxSView) Get(ctx context.Context, k string) (*logical.StorageEntry, error) {
	if b, ok := vxSStored[v.ns+"|"+k]; ok {
		return &logical.StorageEntry{Key: k, Value: b}, nil
	}
	return nil, nil
}

func vxSLeaseView(m *ExpirationManager, ns *namespace.Namespace) barrier.View {
	return &vxSView{ns: ns.ID}
}

func vxSDecodeLease(buf []byte) (*leaseEntry, error) {
	out := new(leaseEntry)
	if !vxUnbox(buf, out) {
		return nil, vxErr("invalid lease entry")
	}
	return out, nil
}

func vxSLockIndex(key string) uint8 { return 0 }

func vxSTracked(m *ExpirationManager, id string) int {
	n := 0
	if _, ok := m.pending.Load(id); ok {
		n++
	}
	if _, ok := m.nonexpiring.Load(id); ok {
		n++
	}
	if _, ok := m.irrevocable.Load(id); ok {
		n++
	}
	return n
}

func VxStopNamespaceThenRestore() {
	vxTimers = nil
	vxSStored = map[string][]byte{}
	m := &ExpirationManager{uniquePolicies: map[string][]string{}, quitContext: context.Background(), pendingLock: &locking.SyncRWMutex{},
		restoreLocks: locksutil.CreateLocks(), useCache: true}
	// arbitrary in-memory state
	where := make([]int, len(vxSLeases))
	loaded := make([]bool, len(vxSLeases))
	locked := make([]bool, len(vxSLeases))
	nTracked, nIrrev := 0, 0
	for i, id := range vxSLeases {
		where[i] = vxChoose("tracking of "+id+"(none,pending,nonexpiring,irrevocable)", 4)
		// representation invariant: only non-expiring root tokens OF THE ROOT NAMESPACE are parked in nonexpiring
		// (updatePendingInternal, decided by VxUpdatePending)
		vxAssume(where[i] != 2 || vxSNsOf[i] == namespace.RootNamespaceID)
		switch where[i] {
		case 1:
			t := vxAfterFunc(time.Minute, nil)
			m.pending.Store(id, pendingInfo{timer: t, cachedLeaseInfo: &leaseEntry{LeaseID: id}})
			nTracked++
		case 2:
			m.nonexpiring.Store(id, pendingInfo{timer: vxAfterFunc(time.Minute, nil), cachedLeaseInfo: &leaseEntry{LeaseID: id}})
		case 3:
			m.irrevocable.Store(id, &leaseEntry{LeaseID: id})
			nTracked++
			nIrrev++
		}
		loaded[i] = vxBool("marked loaded by a restore: " + id)
		vxAssume(!loaded[i] || where[i] != 0) // representation invariant: marked loaded => tracked
		if loaded[i] {
			m.restoreLoaded.Store(id, struct{}{})
		}
		locked[i] = i%2 == 1 && vxBool("has a per-lease lock entry: "+id)
		if locked[i] {
			m.lockForLeaseID(id)
		}
	}
	m.leaseCount, m.irrevocableLeaseCount = nTracked, nIrrev
	otherRestore := vxBool("another namespace's restore is in flight")
	if otherRestore {
		m.restoreMode.Add(1)
	}

	m.StopNamespace(vxSN1)

	vxAssert("the tracking lock is released", vxHeld(m.pendingLock) == 0)
	gone, goneIrrev := 0, 0
	for i, id := range vxSLeases {
		_, stillLoaded := m.restoreLoaded.Load(id)
		_, stillLocked := m.lockPerLease.Load(id)
		if vxSNsOf[i] == "n1" {
			vxAssert("a sealed namespace's leases are no longer tracked", vxSTracked(m, id) == 0)
			vxAssert("a sealed namespace's leases are no longer marked as loaded by a restore", !stillLoaded)
			vxAssert("a sealed namespace's per-lease locks are dropped", !stillLocked)
			if where[i] == 1 || where[i] == 3 {
				gone++
			}
			if where[i] == 3 {
				goneIrrev++
			}
		} else {
			want := 0
			if where[i] != 0 {
				want = 1
			}
			vxAssert("sealing one namespace leaves the tracking of every other namespace's leases alone", vxSTracked(m, id) == want && stillLoaded == loaded[i] && stillLocked == locked[i])
		}
	}
	vxAssert("the lease counters follow", m.leaseCount == nTracked-gone && m.irrevocableLeaseCount == nIrrev-goneIrrev)
	for _, r := range vxTimers {
		_ = r
	}

	// the namespace is unsealed again: RestoreNamespace -> restore -> processRestore for each stored lease
	k := 1 + vxChoose("which lease of the namespace is restored", 2)
	id := vxSLeases[k]
	inStorage := vxBool("that lease is in storage")
	if inStorage {
		le := leaseEntry{LeaseID: id, Path: "kv/creds/a", IssueTime: time.Now(), ExpireTime: time.Now().Add(time.Hour), Secret: &logical.Secret{LeaseOptions: logical.LeaseOptions{TTL: time.Hour}}}
		if vxBool("stored lease carries a revocation error") {
			le.RevokeErr = "x"
		}
		vxSStored["n1|"+id] = vxBox(le)
	}
	m.restoreMode.Add(1)
	err := m.processRestore(namespace.ContextWithNamespace(context.Background(), vxSN1), id)
	vxAssert("restoring a lease succeeds", err == nil)
	vxAssert("restore locks are released", vxHeld(&m.restoreRequestLock) == 0 && vxHeld(&m.restoreLocks[0].RWMutex) == 0)
	if inStorage {
		vxReach("restore: stored lease of a re-unsealed namespace")
		vxAssert("a lease present in storage is tracked for expiry after its namespace is unsealed again", vxSTracked(m, id) == 1)
		_, nowLoaded := m.restoreLoaded.Load(id)
		vxAssert("and is marked loaded (invariant: marked loaded => tracked)", nowLoaded)
	} else {
		vxReach("restore: lease gone from storage")
		vxAssert("a lease that is not in storage is not tracked", vxSTracked(m, id) == 0)
	}
	for i, other := range vxSLeases {
		if _, l := m.restoreLoaded.Load(other); l {
			vxAssert("invariant kept: marked loaded => tracked", vxSTracked(m, other) >= 1)
		}
		_ = i
	}
}
