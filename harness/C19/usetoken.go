package vault

// C19 — UseToken: the use count is consumed from the value re-read inside the per-token lock, never from the
// caller's (possibly stale) copy; the last use marks the token revocation-pending; exhausted tokens are refused.
//
//vx:pkg github.com/openbao/openbao/v2/internal/vault
//vx:redirect (*github.com/openbao/openbao/v2/internal/vault.TokenStore).lookupInternal vxLookupInternal
//vx:redirect (*github.com/openbao/openbao/v2/internal/vault.TokenStore).store vxStoreToken
//vx:redirect github.com/openbao/openbao/sdk/v2/helper/locksutil.LockForKey vxLockForKey
//vx:noop github.com/hashicorp/go-metrics/compat.*

import (
	"context"

	"github.com/openbao/openbao/sdk/v2/helper/locksutil"
	"github.com/openbao/openbao/sdk/v2/logical"
)

// ---- model of token storage (assumption: lookupInternal returns a fresh copy of the stored entry, nil when the
// entry is absent or awaiting deferred revocation (NumUses < 0) unless a tainted lookup is requested; store
// replaces the stored entry) ----

var (
	vxDB        *logical.TokenEntry
	vxLock      *locksutil.LockEntry
	vxLookups   int
	vxStores    int
	vxStoreFail bool
	vxLookupErr bool
)

func vxLockForKey(locks []*locksutil.LockEntry, key string) *locksutil.LockEntry { return vxLock }

func vxLookupInternal(ts *TokenStore, ctx context.Context, id string, salted, tainted bool) (*logical.TokenEntry, error) {
	vxLookups++
	vxAssert("token entry is re-read while the per-token lock is held", vxHeld(vxLock) > 0)
	if !tainted {
		// the read that feeds the decrement must sit in the same critical section as the store: under the WRITE lock
		// (a read under the read lock - or outside any lock - lets two requests decrement the same value)
		vxReadUnderW = vxHeldW(vxLock)
	}
	if vxLookupErr {
		return nil, vxErr("storage read failed")
	}
	if vxDB == nil || vxDB.ID != id {
		return nil, nil
	}
	if vxDB.NumUses < 0 && !tainted {
		return nil, nil
	}
	c := *vxDB
	return &c, nil
}

var vxReadUnderW bool

func vxStoreToken(ts *TokenStore, ctx context.Context, te *logical.TokenEntry) error {
	vxStores++
	vxAssert("the use count that is stored was read inside the same write-locked critical section", vxReadUnderW)
	vxAssert("token entry is stored while the per-token write lock is held", vxHeldW(vxLock))
	if vxStoreFail {
		return vxErr("storage write failed")
	}
	c := *te
	vxDB = &c
	return nil
}

func VxUseToken() {
	ts := &TokenStore{}
	vxLock = &locksutil.LockEntry{}
	n := vxInt("stored NumUses")
	stale := vxInt("caller copy NumUses")
	present := vxBool("present in storage")
	vxStoreFail = vxBool("store fails")
	vxLookupErr = vxBool("lookup fails")
	if present {
		vxDB = &logical.TokenEntry{ID: "tok", NumUses: n, Policies: []string{"p"}}
		// a token is unlimited (0) for its whole life or use-limited for its whole life
		vxAssume((stale == 0) == (n == 0))
	}
	arg := &logical.TokenEntry{ID: "tok", NumUses: stale}
	out, err := ts.UseToken(context.Background(), arg)
	vxAssert("lock released on every exit", vxHeld(vxLock) == 0)
	if stale == 0 {
		vxReach("usetoken: unlimited token")
		vxAssert("unlimited token: returned unchanged without storage access", err == nil && out == arg && vxLookups == 0 && vxStores == 0)
		return
	}
	vxAssert("use-limited token: entry re-read exactly once", vxLookups == 1)
	switch {
	case vxLookupErr:
		vxReach("usetoken: re-read error")
		vxAssert("re-read error refuses the use", err != nil && out == nil && vxStores == 0)
	case !present || n < 0:
		vxReach("usetoken: gone or exhausted")
		vxAssert("absent / exhausted token is refused and nothing is written", err != nil && out == nil && vxStores == 0)
	default:
		vxAssert("exactly one store", vxStores == 1)
		if vxStoreFail {
			vxReach("usetoken: store failed")
			vxAssert("failed store refuses the use", err != nil && out == nil)
			return
		}
		vxAssert("use granted", err == nil && out != nil)
		if n == 1 {
			vxReach("usetoken: last use")
			vxAssert("last use marks the token revocation-pending in storage", vxDB.NumUses == tokenRevocationPending && out.NumUses == tokenRevocationPending)
		} else {
			vxReach("usetoken: decrement")
			vxAssert("stored count is the count read inside the lock minus one (not derived from the caller's copy)", vxDB.NumUses == n-1 && out.NumUses == n-1)
		}
		vxAssert("identity and policies untouched", vxDB.ID == "tok" && len(vxDB.Policies) == 1)
	}
}

// m = 3 requests that all looked the token up before any of them consumed a use (each holds the same stale copy):
// at most n of them are granted, the rest refused, and the token ends revocation-pending.
func VxUseTokenStaleCopies() {
	ts := &TokenStore{}
	vxLock = &locksutil.LockEntry{}
	n := vxInt("NumUses")
	vxAssume(n >= 1)
	vxDB = &logical.TokenEntry{ID: "tok", NumUses: n}
	granted := 0
	for i := 0; i < 3; i++ {
		copyOfEntry := &logical.TokenEntry{ID: "tok", NumUses: n}
		if _, err := ts.UseToken(context.Background(), copyOfEntry); err == nil {
			granted++
		}
	}
	switch {
	case n == 1:
		vxReach("stale copies: n=1")
		vxAssert("n=1: exactly one of three stale-copy uses is granted", granted == 1 && vxDB.NumUses == tokenRevocationPending)
	case n == 2:
		vxReach("stale copies: n=2")
		vxAssert("n=2: exactly two of three stale-copy uses are granted", granted == 2 && vxDB.NumUses == tokenRevocationPending)
	default:
		vxAssert("n>=3: all three granted, count reduced by three (or pending)", granted == 3 && (vxDB.NumUses == n-3 || (n == 3 && vxDB.NumUses == tokenRevocationPending)))
	}
}
