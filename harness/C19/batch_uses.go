package vault

// C19 — a use limit is only ever attached to a token that can enforce it. Batch tokens are not persisted and their
// encrypted form carries no use count, so a batch token reported with num_uses = n would authorise any number of
// requests. The real handleCreateCommon (request side and role side) must refuse the combination. And a use-limited
// token (any positive use count, any endpoint - create, create-orphan, orphan role, no_parent) never mints a token.
//
//vx:pkg github.com/openbao/openbao/v2/internal/vault
//vx:assume same stubs as harness/C07/create.go
//vx:include ../C07/create.go
//vx:param parents quick=1 thorough=2
//vx:unwind 200

import (
	"github.com/openbao/openbao/sdk/v2/framework"
	"github.com/openbao/openbao/sdk/v2/logical"
	"github.com/openbao/openbao/v2/internal/helper/namespace"
)

func VxUseLimitNeverOnBatchTokens() {
	ts, r := vxSetup(0, true, true, false)
	var role *tsRoleEntry
	if vxBool("through a role") {
		role = &tsRoleEntry{Name: "r", Orphan: true}
		role.TokenNumUses = vxInt("role num uses")
		vxAssume(role.TokenNumUses >= 0)
		role.TokenType = []logical.TokenType{logical.TokenTypeDefault, logical.TokenTypeService, logical.TokenTypeBatch, logical.TokenTypeDefaultBatch}[vxChoose("role token type", 4)]
	}
	req := &logical.Request{ClientToken: "parent", Path: "create", MountPoint: "auth/token/"}
	orphanEndpoint := vxBool("create-orphan endpoint")
	resp, _ := ts.handleCreateCommon(vxCtx(namespace.RootNamespace), req, &framework.FieldData{Raw: r.raw}, orphanEndpoint, role)
	if vxCreates == 0 {
		vxReach("use limit: creation refused")
		return
	}
	vxReach("use limit: token created")
	te := vxCreated
	// a use-limited token spends its uses on requests; it must never be able to turn one of them into a token that is
	// not bound by the limit - whatever the endpoint (create, create-orphan, role with orphan=true, no_parent)
	vxAssert("a use-limited token never mints a token (child or orphan) - not with uses left and not on its last use (use count already negative: awaiting revocation)", vxParent.NumUses == 0)
	if te.Parent == "" {
		vxReach("use limit: orphan token created")
	}
	vxAssert("a batch token is never created with a use limit (it could not be enforced)", !(te.Type == logical.TokenTypeBatch && te.NumUses != 0))
	vxAssert("the use limit reported to the requester is the one stored", resp != nil && resp.Auth != nil && resp.Auth.NumUses == te.NumUses)
	if te.Type == logical.TokenTypeBatch {
		vxReach("use limit: batch token created")
		vxAssert("batch tokens are not periodic and carry no explicit max", te.Period == 0 && te.ExplicitMaxTTL == 0)
	}
}
