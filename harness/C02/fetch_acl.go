package vault

// C02 (f) — which policies a token is judged by: the real Core.fetchACLTokenEntryAndEntity for EVERY token-lookup
// outcome (found / absent / error), token namespace (root or child), request namespace, policy list shape (including
// the single response-wrapping policy), entity outcome and identity policies (own and other namespace), inline policy
// and request path (ordinary or one of the three wrapping paths): no token entry => permission denied and no ACL;
// the ACL is built from exactly the token's own policies under the TOKEN's namespace plus the identity policies it is
// entitled to, in the TOKEN's namespace (never the request's) - with the single documented exception of a pure
// response-wrapping token on the unwrap / lookup / rewrap paths -, and an inline policy is parsed in the token's
// namespace.
//
//vx:pkg github.com/openbao/openbao/v2/internal/vault
//vx:assume (this file) token lookup, entity / identity-policy derivation and the policy store's ACL construction are recording stubs (their own behaviour: VxLookupInternal, VxPolicyStore*, C03); CIDR-bound tokens are outside; HCL parsing of the inline policy is a recording stub
//vx:bodies context,strings,internal/stringslite,github.com/openbao/openbao/sdk/v2/logical,github.com/openbao/openbao/v2/internal/helper/namespace,github.com/openbao/openbao/sdk/v2/helper/policyutil,github.com/hashicorp/go-secure-stdlib/strutil,sort,slices
//vx:redirect (*github.com/openbao/openbao/v2/internal/vault.TokenStore).Lookup vxFALookup
//vx:redirect (*github.com/openbao/openbao/v2/internal/vault.Core).NamespaceByID vxFANamespaceByID
//vx:redirect (*github.com/openbao/openbao/v2/internal/vault.Core).fetchEntityAndDerivedPolicies vxFAEntity
//vx:redirect (*github.com/openbao/openbao/v2/internal/vault/policy.Store).ACL vxFAACL
//vx:redirect github.com/openbao/openbao/v2/internal/vault/policy.ParseACLPolicy vxFAParse
//vx:noop github.com/hashicorp/go-metrics/compat.*
//vx:unwind 300

import (
	"context"

	log "github.com/hashicorp/go-hclog"
	"github.com/openbao/openbao/sdk/v2/logical"
	"github.com/openbao/openbao/v2/internal/helper/identity"
	"github.com/openbao/openbao/v2/internal/helper/namespace"
	"github.com/openbao/openbao/v2/internal/vault/policy"
)

type vxFALog struct{ log.Logger }

func (vxFALog) Debug(msg string, args ...interface{}) {}
func (vxFALog) Trace(msg string, args ...interface{}) {}
func (vxFALog) Info(msg string, args ...interface{})  {}
func (vxFALog) Warn(msg string, args ...interface{})  {}
func (vxFALog) Error(msg string, args ...interface{}) {}

var (
	vxFAChild      = &namespace.Namespace{ID: "n1", Path: "n1/"}
	vxFAToken      *logical.TokenEntry
	vxFALookupErr  bool
	vxFAEnt        *identity.Entity
	vxFAIdentPol   map[string][]string
	vxFAEntityErr  bool
	vxFAACLNS      string
	vxFAACLNames   map[string][]string
	vxFAACLInline  int
	vxFAACLCalls   int
	vxFAParseNS    string
	vxFAEntityArgs string
	vxFAACLExtra   []*policy.Policy
)

func vxFALookup(ts *TokenStore, ctx context.Context, id string) (*logical.TokenEntry, error) {
	if vxFALookupErr {
		return nil, vxErr("storage failure")
	}
	return vxFAToken, nil
}
func vxFANamespaceByID(c *Core, ctx context.Context, id string) (*namespace.Namespace, error) {
	switch id {
	case namespace.RootNamespaceID:
		return namespace.RootNamespace, nil
	case "n1":
		return vxFAChild, nil
	}
	return nil, nil
}
func vxFAEntity(c *Core, ctx context.Context, tokenNS *namespace.Namespace, entityID string, skip bool) (*identity.Entity, map[string][]string, error) {
	vxFAEntityArgs = tokenNS.ID + "|" + entityID
	if skip {
		vxFAEntityArgs += "|no-identity-policies"
	}
	if vxFAEntityErr {
		return nil, nil, vxErr("identity store failure")
	}
	return vxFAEnt, vxFAIdentPol, nil
}
func vxFAACL(ps *policy.Store, ctx context.Context, entity *identity.Entity, names map[string][]string, extra ...*policy.Policy) (*policy.ACL, error) {
	ns, _ := namespace.FromContext(ctx)
	vxFAACLCalls++
	vxFAACLNS, vxFAACLNames, vxFAACLInline = ns.ID, names, len(extra)
	vxFAACLExtra = extra
	return &policy.ACL{}, nil
}
func vxFAParse(ns *namespace.Namespace, rules string) (*policy.Policy, error) {
	vxFAParseNS = ns.ID
	return &policy.Policy{Namespace: ns, Raw: rules}, nil
}

func vxFAHas(l []string, s string) bool {
	for _, x := range l {
		if x == s {
			return true
		}
	}
	return false
}

func VxFetchACLUsesTheTokensNamespace() {
	c := &Core{logger: vxFALog{}, tokenStore: &TokenStore{}, policyStore: &policy.Store{}}
	vxFAACLCalls, vxFAACLNS, vxFAACLNames, vxFAParseNS, vxFAEntityArgs = 0, "", nil, "", ""
	vxFALookupErr = vxBool("token lookup fails")
	tokNS := namespace.RootNamespace
	if vxBool("token belongs to child namespace n1") {
		tokNS = vxFAChild
	}
	reqNS := namespace.RootNamespace
	if vxBool("request in child namespace n1") {
		reqNS = vxFAChild
	}
	vxFAToken = nil
	shape := vxChoose("token policies([p],[p,q],[response-wrapping],[response-wrapping,p])", 4)
	if vxBool("token found") {
		vxFAToken = &logical.TokenEntry{ID: "tok", NamespaceID: tokNS.ID, TTL: 3600e9}
		vxFAToken.Policies = [][]string{{"p"}, {"p", "q"}, {policy.ResponseWrappingPolicyName}, {policy.ResponseWrappingPolicyName, "p"}}[shape]
		if vxBool("token has an entity") {
			vxFAToken.EntityID = "ent"
		}
		vxFAToken.NoIdentityPolicies = vxBool("token opts out of identity policies")
		if vxBool("token carries an inline policy") {
			vxFAToken.InlinePolicy = "inline"
		}
	}
	vxFAEntityErr = vxBool("identity lookup fails")
	vxFAEnt, vxFAIdentPol = nil, map[string][]string{}
	switch vxChoose("identity policies(none, own namespace, other namespace, both)", 4) {
	case 1:
		vxFAIdentPol[tokNS.ID] = []string{"idp"}
	case 2:
		vxFAIdentPol["other"] = []string{"idq"}
	case 3:
		vxFAIdentPol[tokNS.ID] = []string{"idp"}
		vxFAIdentPol["other"] = []string{"idq"}
	}
	path := []string{"secret/foo", "sys/wrapping/unwrap", "sys/wrapping/lookup", "sys/wrapping/rewrap", "xsys/wrapping/unwrapx"}[vxChoose("request path", 5)]
	req := &logical.Request{Operation: logical.UpdateOperation, Path: path, ClientToken: "tok"}
	if vxBool("no token presented") {
		req.ClientToken = ""
	}
	ctx := namespace.ContextWithNamespace(context.Background(), reqNS)
	acl, te, _, _, err := c.fetchACLTokenEntryAndEntity(ctx, req)
	if err != nil {
		vxReach("fetch: refused")
		vxAssert("a refusal hands out no ACL and no token entry", acl == nil && te == nil)
		vxAssert("no ACL is ever built for a refused token", vxFAACLCalls == 0 || vxFAEntityErr)
		vxAssert("a request is refused only for a missing token, a failed lookup or a failed identity lookup", req.ClientToken == "" || vxFALookupErr || vxFAToken == nil || vxFAEntityErr)
		return
	}
	vxReach("fetch: ACL built")
	vxAssert("an ACL is built only for a presented token that was found", req.ClientToken != "" && !vxFALookupErr && vxFAToken != nil && te == vxFAToken && acl != nil && vxFAACLCalls == 1)
	vxAssert("identity policies are derived for the token's namespace and entity, honouring its opt-out", vxFAEntityArgs == tokNS.ID+"|"+vxFAToken.EntityID || (vxFAToken.NoIdentityPolicies && vxFAEntityArgs == tokNS.ID+"|"+vxFAToken.EntityID+"|no-identity-policies"))
	own := vxFAACLNames[tokNS.ID]
	for _, p := range vxFAToken.Policies {
		vxAssert("every policy of the token is looked up under the TOKEN's namespace", vxFAHas(own, p))
	}
	for nsID, l := range vxFAACLNames {
		for _, p := range l {
			fromToken := nsID == tokNS.ID && vxFAHas(vxFAToken.Policies, p)
			fromIdentity := vxFAHas(vxFAIdentPol[nsID], p)
			vxAssert("the ACL names only the token's own policies and the identity policies it is entitled to", fromToken || fromIdentity)
		}
	}
	pureWrapping := shape == 2 && len(vxFAACLNames) == 1 && len(own) == 1
	wrapPath := path == "sys/wrapping/unwrap" || path == "sys/wrapping/lookup" || path == "sys/wrapping/rewrap" || path == "xsys/wrapping/unwrapx"
	if pureWrapping && (path == "sys/wrapping/unwrap" || path == "sys/wrapping/lookup" || path == "sys/wrapping/rewrap") {
		vxReach("fetch: wrapping token on a wrapping path")
		vxAssert("a pure response-wrapping token on the wrapping paths is judged in the request's namespace", vxFAACLNS == reqNS.ID)
	} else if !(pureWrapping && wrapPath) {
		if tokNS.ID != reqNS.ID {
			vxReach("fetch: token and request namespaces differ")
		}
		vxAssert("policies are resolved in the TOKEN's namespace, never the request's", vxFAACLNS == tokNS.ID)
	}
	if vxFAToken.InlinePolicy != "" {
		vxAssert("an inline policy is parsed in the token's namespace and handed to the ACL", vxFAParseNS == tokNS.ID && vxFAACLInline == 1)
	} else {
		vxAssert("no inline policy, none handed over", vxFAACLInline == 0)
	}
}

// inline policies are per token: two tokens of DIFFERENT namespaces carrying inline policies (same text or not), used
// one after the other on one Core in either order - the policy object handed to each ACL is the token's own text parsed
// in the token's OWN namespace (a parsed policy is namespace-qualified: its paths are prefixed with the namespace it
// was parsed in), never something carried over from the earlier request.
func VxInlinePolicyIsPerToken() {
	c := &Core{logger: vxFALog{}, tokenStore: &TokenStore{}, policyStore: &policy.Store{}}
	vxFALookupErr, vxFAEntityErr, vxFAEnt, vxFAIdentPol = false, false, nil, map[string][]string{}
	texts := []string{"inline-a", "inline-b"}
	first := vxBool("the child-namespace token goes first")
	sameText := vxBool("both tokens carry the same inline policy text")
	for i := 0; i < 3; i++ {
		tokNS := namespace.RootNamespace
		if (i%2 == 0) == first {
			tokNS = vxFAChild
		}
		text := texts[0]
		if !sameText && tokNS == vxFAChild {
			text = texts[1]
		}
		vxFAToken = &logical.TokenEntry{ID: "tok", NamespaceID: tokNS.ID, TTL: 3600e9, Policies: []string{"p"}, InlinePolicy: text}
		vxFAACLExtra = nil
		reqNS := tokNS
		if vxBool("request in child namespace n1") {
			reqNS = vxFAChild
		}
		_, te, _, _, err := c.fetchACLTokenEntryAndEntity(namespace.ContextWithNamespace(context.Background(), reqNS), &logical.Request{Operation: logical.ReadOperation, Path: "secret/foo", ClientToken: "tok"})
		vxAssert("the token is accepted", err == nil && te == vxFAToken)
		vxAssert("exactly one inline policy is handed to the ACL", len(vxFAACLExtra) == 1 && vxFAACLExtra[0] != nil)
		vxAssert("the inline policy handed to the ACL is the token's own text parsed in the token's OWN namespace, whatever earlier requests carried", vxFAACLExtra[0].Namespace == tokNS && vxFAACLExtra[0].Raw == text)
	}
	vxReach("inline: three requests")
}
