package vault

// C02 — the real Core.CheckToken + performPolicyChecks for EVERY token / entity / policy outcome: a nil error
// (authorised) is returned only for a token that was found, whose entity (if any) exists and is enabled, and whose
// ACL allows the operation, with sudo additionally required on root-protected paths; root-protected paths are refused
// for unauthenticated requests; every refusal still hands back the token entry so the use can be counted.
//
//vx:pkg github.com/openbao/openbao/v2/internal/vault
//vx:bodies context,github.com/openbao/openbao/v2/internal/vault/routing,github.com/openbao/openbao/sdk/v2/helper/consts,github.com/openbao/openbao/sdk/v2/logical,github.com/openbao/openbao/v2/internal/helper/namespace,github.com/hashicorp/go-multierror,github.com/hashicorp/errwrap,github.com/openbao/openbao/sdk/v2/helper/policyutil,github.com/hashicorp/go-secure-stdlib/strutil,github.com/openbao/openbao/sdk/v2/helper/errutil
//vx:redirect (*github.com/openbao/openbao/v2/internal/vault.Core).fetchACLTokenEntryAndEntity vxFetchACL
//vx:redirect (*github.com/openbao/openbao/v2/internal/vault/policy.ACL).AllowOperation vxAllowOperation
//vx:redirect (*github.com/openbao/openbao/v2/internal/vault/routing.Router).RootPath vxRootPath
//vx:redirect (*github.com/openbao/openbao/v2/internal/vault/routing.Router).RouteExistenceCheck vxExistenceCheck
//vx:redirect (*github.com/openbao/openbao/sdk/v2/logical.TokenEntry).CreateClientID vxClientID
//vx:noop github.com/hashicorp/go-metrics/compat.*
//vx:unwind 200

import (
	"context"

	log "github.com/hashicorp/go-hclog"
	"github.com/openbao/openbao/sdk/v2/logical"
	"github.com/openbao/openbao/v2/internal/helper/identity"
	"github.com/openbao/openbao/v2/internal/helper/namespace"
	"github.com/openbao/openbao/v2/internal/vault/policy"
	"github.com/openbao/openbao/v2/internal/vault/routing"
)

type vxCLogger struct{ log.Logger }

func (vxCLogger) Debug(msg string, args ...interface{}) {}
func (vxCLogger) Trace(msg string, args ...interface{}) {}
func (vxCLogger) Info(msg string, args ...interface{})  {}
func (vxCLogger) Warn(msg string, args ...interface{})  {}
func (vxCLogger) Error(msg string, args ...interface{}) {}

type vxCT struct {
	fetchErr       bool // token absent / expired / revoked / exhausted / wrong namespace / CIDR mismatch ...
	hasEntityID    bool
	entityFound    bool
	entityDisabled bool
	rootPath       bool
	aclAllowed     bool
	aclSudo        bool
	aclIsRoot      bool
	existsErr      int
	sawRootPrivs   bool
}

var vxC *vxCT

func vxFetchACL(c *Core, ctx context.Context, req *logical.Request) (*policy.ACL, *logical.TokenEntry, *identity.Entity, map[string][]string, error) {
	if vxC.fetchErr {
		return nil, nil, nil, nil, logical.ErrPermissionDenied
	}
	te := &logical.TokenEntry{ID: "tok", Policies: []string{"p"}, NamespaceID: namespace.RootNamespaceID}
	var ent *identity.Entity
	if vxC.hasEntityID {
		te.EntityID = "ent"
		if vxC.entityFound {
			ent = &identity.Entity{ID: "ent", Disabled: vxC.entityDisabled}
		}
	}
	return &policy.ACL{}, te, ent, map[string][]string{}, nil
}

func vxAllowOperation(a *policy.ACL, ctx context.Context, req *logical.Request, capCheckOnly bool) *policy.ACLResults {
	return &policy.ACLResults{Allowed: vxC.aclAllowed || vxC.aclIsRoot, RootPrivs: vxC.aclSudo || vxC.aclIsRoot, IsRoot: vxC.aclIsRoot}
}

func vxRootPath(r *routing.Router, ctx context.Context, path string) bool { return vxC.rootPath }

func vxExistenceCheck(r *routing.Router, ctx context.Context, req *logical.Request) (*logical.Response, bool, bool, error) {
	switch vxC.existsErr {
	case 1:
		return nil, false, false, logical.ErrUnsupportedPath
	case 2:
		return nil, false, false, logical.ErrRelativePath
	case 3:
		return nil, false, false, vxErr("backend exploded")
	}
	return nil, true, true, nil
}

func vxClientID(te *logical.TokenEntry) (string, bool) { return "client-id", true }

func VxCheckToken() {
	ctx := namespace.RootContext(context.Background())
	c := &Core{router: &routing.Router{}, logger: vxCLogger{}}
	vxC = &vxCT{fetchErr: vxBool("token lookup fails"), hasEntityID: vxBool("token has entity"), entityFound: vxBool("entity found"),
		entityDisabled: vxBool("entity disabled"), rootPath: vxBool("root-protected path"), aclAllowed: vxBool("acl allows"),
		aclSudo: vxBool("acl grants sudo"), aclIsRoot: vxBool("root policy"), existsErr: vxChoose("existence check", 4)}
	unauth := vxBool("unauthenticated path")
	req := &logical.Request{Operation: logical.UpdateOperation, Path: "secret/foo", ClientToken: "tok"}
	if unauth && vxBool("no token presented") {
		req.ClientToken = ""
	}
	auth, _, te, _, err := c.CheckToken(ctx, req, unauth)
	if err == nil {
		vxReach("check: authorised")
		vxAssert("authorised requests carry an auth block", auth != nil)
		if !unauth {
			vxAssert("an authenticated request is authorised only with a token that was found", !vxC.fetchErr && te != nil)
			vxAssert("... whose entity, if any, exists and is enabled", !vxC.hasEntityID || (vxC.entityFound && !vxC.entityDisabled))
			vxAssert("... and whose policies allow the operation", vxC.aclAllowed || vxC.aclIsRoot)
			vxAssert("... with sudo on root-protected paths", !vxC.rootPath || vxC.aclSudo || vxC.aclIsRoot)
		} else {
			vxAssert("an unauthenticated request never reaches a root-protected path", !vxC.rootPath)
			if req.ClientToken != "" && !vxC.fetchErr {
				vxAssert("a disabled / missing entity blocks even unauthenticated paths when a token is presented", !vxC.hasEntityID || (vxC.entityFound && !vxC.entityDisabled))
			}
		}
		return
	}
	vxReach("check: refused")
	if !unauth && !vxC.fetchErr {
		vxAssert("a refusal after a successful lookup still returns the token entry (so the use is counted)", te != nil)
	}
	// completeness: a found, enabled, allowed token is not refused (existence check permitting)
	if !unauth && !vxC.fetchErr && (!vxC.hasEntityID || (vxC.entityFound && !vxC.entityDisabled)) && (vxC.aclIsRoot || (vxC.aclAllowed && (!vxC.rootPath || vxC.aclSudo))) && vxC.existsErr < 2 {
		vxAssert("a live token with an allowing policy is not refused", false)
	}
}
