package vault

// C02 / C06 / C11 / C18 / C19 — the real Core.handleRequest executed for EVERY combination of outcomes of its
// collaborators (token check, use-count consumption, request auditing, backend routing, lease / token-lease
// registration, deferred revocation): the backend is invoked only after the token check passed, the use was consumed
// and the request audit entry was accepted; a use is consumed for every request that presents a token entry, also
// denied ones; refused requests return no backend data; failed lease registration returns no secret / auth; the last
// use triggers revocation and withholds leased secrets.
//
//vx:pkg github.com/openbao/openbao/v2/internal/vault
//vx:bodies context,github.com/openbao/openbao/v2/internal/vault/routing,github.com/openbao/openbao/sdk/v2/helper/consts,github.com/openbao/openbao/sdk/v2/logical,github.com/openbao/openbao/v2/internal/helper/namespace,github.com/hashicorp/go-multierror,github.com/hashicorp/errwrap,github.com/openbao/openbao/sdk/v2/helper/policyutil,github.com/hashicorp/go-secure-stdlib/strutil,github.com/openbao/openbao/sdk/v2/helper/errutil
//vx:redirect (*github.com/openbao/openbao/v2/internal/vault.Core).CheckToken vxCheckToken
//vx:redirect (*github.com/openbao/openbao/v2/internal/vault.TokenStore).UseToken vxUseToken
//vx:redirect (*github.com/openbao/openbao/v2/internal/vault.TokenStore).revokeOrphan vxRevokeOrphan
//vx:redirect (*github.com/openbao/openbao/v2/internal/vault.AuditBroker).LogRequest vxLogRequest
//vx:redirect (*github.com/openbao/openbao/v2/internal/vault/routing.Router).Route vxRoute
//vx:redirect (*github.com/openbao/openbao/v2/internal/vault/routing.Router).MatchingMountEntry vxMatchingMountEntry
//vx:redirect (*github.com/openbao/openbao/v2/internal/vault/routing.Router).MatchingSystemView vxMatchingSystemView
//vx:redirect (*github.com/openbao/openbao/v2/internal/vault.Core).filterListResponse vxFilterList
//vx:redirect (*github.com/openbao/openbao/v2/internal/vault.Core).NamespaceByID vxNamespaceByID
//vx:redirect (*github.com/openbao/openbao/v2/internal/vault.Core).fetchEntityAndDerivedPolicies vxFetchEntity
//vx:redirect (*github.com/openbao/openbao/v2/internal/vault.Core).UpdateInFlightReqData vxInFlight
//vx:redirect (*github.com/openbao/openbao/v2/internal/vault.Core).MetricSink vxMetricSink
//vx:redirect (*github.com/openbao/openbao/v2/internal/vault.ExpirationManager).Register vxRegisterLease
//vx:redirect (*github.com/openbao/openbao/v2/internal/vault.ExpirationManager).RegisterAuth vxRegisterAuth
//vx:redirect (*github.com/openbao/openbao/v2/internal/vault.ExpirationManager).CreateOrFetchRevocationLeaseByToken vxRevocationLease
//vx:redirect (*github.com/openbao/openbao/v2/internal/vault.ExpirationManager).LazyRevoke vxLazyRevoke
//vx:redirect github.com/openbao/openbao/sdk/v2/framework.CalculateTTL vxCalcTTL
//vx:noop github.com/hashicorp/go-metrics/compat.*
//vx:noop (*github.com/openbao/openbao/v2/internal/helper/metricsutil.ClusterMetricSink).*
//vx:noop github.com/openbao/openbao/v2/internal/helper/metricsutil.*
//vx:unwind 200

import (
	"context"
	"time"

	log "github.com/hashicorp/go-hclog"
	"github.com/openbao/openbao/sdk/v2/logical"
	"github.com/openbao/openbao/v2/internal/helper/identity"
	"github.com/openbao/openbao/v2/internal/helper/metricsutil"
	"github.com/openbao/openbao/v2/internal/helper/namespace"
	"github.com/openbao/openbao/v2/internal/vault/policy"
	"github.com/openbao/openbao/v2/internal/vault/routing"
)

type vxHLogger struct{ log.Logger }

func (vxHLogger) Debug(msg string, args ...interface{}) {}
func (vxHLogger) Trace(msg string, args ...interface{}) {}
func (vxHLogger) Info(msg string, args ...interface{})  {}
func (vxHLogger) Warn(msg string, args ...interface{})  {}
func (vxHLogger) Error(msg string, args ...interface{}) {}

// ---- collaborator outcomes (each chosen nondeterministically) and the trace of what happened ----

type vxHR struct {
	ctOutcome    int // 0 ok, 1 permission denied, 2 internal error, 3 relative path, 4 standby forward, 5 other error
	hasTE        bool
	useOutcome   int // 0 ok, 1 error, 2 nil (revoked meanwhile), 3 ok and it was the last use
	auditOK      bool
	respKind     int // 0 nil, 1 data, 2 leased secret, 3 auth block (token), 4 error response + routeErr
	registerOK   bool
	regAuthOK    bool
	revLeaseOK   bool
	revLeaseNS   string // namespace in the context handed to the revocation-lease lookup
	lazyRevokeNS string // ... and to the lazy revocation
	childReq     bool   // the request runs in child namespace n1 with a token of the root namespace
	lazyRevokeOK bool
	mountNil     bool

	events     []string
	useCalls   int
	routed     int
	auditedAt  int // index in events
	routedAt   int
	orphaned   []string
	lazyRevoke int
}

var vxH *vxHR

func vxEv(s string) int { vxH.events = append(vxH.events, s); return len(vxH.events) - 1 }

func vxCheckToken(c *Core, ctx context.Context, req *logical.Request, unauth bool) (*logical.Auth, *policy.ACL, *logical.TokenEntry, *identity.Entity, error) {
	vxEv("check-token")
	var te *logical.TokenEntry
	if vxH.hasTE {
		te = &logical.TokenEntry{ID: "tok", NumUses: 3, Policies: []string{"p"}, NamespaceID: namespace.RootNamespaceID}
	}
	switch vxH.ctOutcome {
	case 0:
		if te == nil { // a successful check always comes with the token entry
			te = &logical.TokenEntry{ID: "tok", Policies: []string{"p"}, NamespaceID: namespace.RootNamespaceID}
		}
		return &logical.Auth{ClientToken: "tok", DisplayName: "dn", TTL: time.Hour, TokenPolicies: []string{"p"}}, nil, te, nil, nil
	case 1:
		return nil, nil, te, nil, logical.ErrPermissionDenied
	case 2:
		return nil, nil, te, nil, ErrInternalError
	case 3:
		return nil, nil, te, nil, logical.ErrRelativePath
	case 4:
		return nil, nil, te, nil, logical.ErrPerfStandbyPleaseForward
	}
	return nil, nil, te, nil, vxErr("some other failure")
}

func vxUseToken(ts *TokenStore, ctx context.Context, te *logical.TokenEntry) (*logical.TokenEntry, error) {
	vxEv("use-token")
	vxH.useCalls++
	switch vxH.useOutcome {
	case 1:
		return nil, vxErr("use failed")
	case 2:
		return nil, nil
	case 3:
		c := *te
		c.NumUses = tokenRevocationPending
		return &c, nil
	}
	return te, nil
}

func vxRevokeOrphan(ts *TokenStore, ctx context.Context, id string) error {
	vxH.orphaned = append(vxH.orphaned, id)
	return nil
}

func vxLogRequest(a *AuditBroker, ctx context.Context, in *logical.LogInput, hc *AuditedHeadersConfig) error {
	vxH.auditedAt = vxEv("audit-request")
	if !vxH.auditOK {
		return vxErr("no audit device accepted the entry")
	}
	return nil
}

var vxBackendData = map[string]any{"secret_value": "s3cr3t"}

// other harness files (handle_login.go) supply their own backend behaviour
var vxRouteOverride func(req *logical.Request) (*logical.Response, error)

func vxRoute(r *routing.Router, ctx context.Context, req *logical.Request) (*logical.Response, error) {
	if req.Operation == logical.RevokeOperation {
		vxEv("backend-revoke")
		return nil, nil
	}
	vxH.routedAt = vxEv("route")
	vxH.routed++
	if vxRouteOverride != nil {
		return vxRouteOverride(req)
	}
	switch vxH.respKind {
	case 1:
		return &logical.Response{Data: vxBackendData}, nil
	case 2:
		return &logical.Response{Data: vxBackendData, Secret: &logical.Secret{LeaseOptions: logical.LeaseOptions{TTL: time.Hour}}}, nil
	case 3:
		return &logical.Response{Auth: &logical.Auth{ClientToken: "child-token", Policies: []string{"p"}, TokenType: logical.TokenTypeService, LeaseOptions: logical.LeaseOptions{TTL: time.Hour}}}, nil
	case 4:
		return logical.ErrorResponse("backend says no"), logical.ErrInvalidRequest
	}
	return nil, nil
}

func vxMatchingMountEntry(r *routing.Router, ctx context.Context, path string) *routing.MountEntry {
	if vxH.mountNil {
		return nil
	}
	return &routing.MountEntry{Type: "aws"}
}

type vxSysViewH struct{ logical.SystemView }

func vxMatchingSystemView(r *routing.Router, ctx context.Context, path string) logical.SystemView {
	return vxSysViewH{}
}

func vxCalcTTL(sv logical.SystemView, inc, bttl, period, bmax, emax time.Duration, start time.Time) (time.Duration, []string, error) {
	return bttl, nil, nil
}

func vxFilterList(c *Core, ctx context.Context, req *logical.Request, unauth bool, auth *logical.Auth, acl *policy.ACL, te *logical.TokenEntry, entity *identity.Entity, resp *logical.Response) error {
	return nil
}

var vxHChildNS = &namespace.Namespace{ID: "n1", Path: "n1/"}

func vxNamespaceByID(c *Core, ctx context.Context, id string) (*namespace.Namespace, error) {
	if id == "n1" {
		return vxHChildNS, nil
	}
	return namespace.RootNamespace, nil
}

func vxFetchEntity(c *Core, ctx context.Context, ns *namespace.Namespace, entityID string, skip bool) (*identity.Entity, map[string][]string, error) {
	return nil, map[string][]string{}, nil
}

func vxInFlight(c *Core, reqID, clientID string)          {}
func vxMetricSink(c *Core) *metricsutil.ClusterMetricSink { return &metricsutil.ClusterMetricSink{} }

func vxRegisterLease(m *ExpirationManager, ctx context.Context, req *logical.Request, resp *logical.Response, role string) (string, error) {
	vxEv("register-lease")
	if !vxH.registerOK {
		return "", vxErr("lease registration failed")
	}
	return "lease/1", nil
}

func vxRegisterAuth(m *ExpirationManager, ctx context.Context, te *logical.TokenEntry, auth *logical.Auth, role string, persist bool) error {
	vxEv("register-auth")
	if !vxH.regAuthOK {
		return vxErr("token lease registration failed")
	}
	return nil
}

func vxRevocationLease(m *ExpirationManager, ctx context.Context, te *logical.TokenEntry) (string, error) {
	vxEv("revocation-lease")
	if ns, err := namespace.FromContext(ctx); err == nil {
		vxH.revLeaseNS = ns.ID
	}
	if !vxH.revLeaseOK {
		return "", vxErr("cannot create revocation lease")
	}
	return "auth/token/revoke/tok", nil
}

func vxLazyRevoke(m *ExpirationManager, ctx context.Context, leaseID string) error {
	vxEv("lazy-revoke")
	if ns, err := namespace.FromContext(ctx); err == nil {
		vxH.lazyRevokeNS = ns.ID
	}
	vxH.lazyRevoke++
	if !vxH.lazyRevokeOK {
		return vxErr("revocation failed")
	}
	return nil
}

func vxCarriesBackendData(resp *logical.Response) bool {
	if resp == nil {
		return false
	}
	if resp.Secret != nil || resp.Auth != nil || resp.WrapInfo != nil {
		return true
	}
	_, has := resp.Data["secret_value"]
	return has
}

func VxHandleRequest() {
	vxRouteOverride = nil
	ctx := namespace.RootContext(context.Background())
	childReq := vxBool("request runs in a child namespace with a token of the parent namespace")
	if childReq {
		ctx = namespace.ContextWithNamespace(context.Background(), vxHChildNS)
	}
	c := &Core{router: &routing.Router{}, logger: vxHLogger{}, tokenStore: &TokenStore{}, expiration: &ExpirationManager{}, auditBroker: &AuditBroker{}}
	vxH = &vxHR{
		ctOutcome: vxChoose("token check outcome", 6), hasTE: vxBool("token entry found"), useOutcome: vxChoose("use-token outcome", 4),
		auditOK: vxBool("request audit accepted"), respKind: vxChoose("backend response kind", 5),
		registerOK: vxBool("lease registration ok"), regAuthOK: vxBool("token lease registration ok"),
		revLeaseOK: vxBool("revocation lease ok"), lazyRevokeOK: vxBool("lazy revoke ok"), mountNil: vxBool("no mount entry"),
		auditedAt: -1, routedAt: -1,
	}
	path := "aws/creds/dev"
	if vxH.respKind == 3 {
		path = "auth/token/create"
	}
	req := &logical.Request{Operation: logical.UpdateOperation, Path: path, ClientToken: "tok"}
	resp, auth, err := c.handleRequest(ctx, req)
	_ = auth
	teSeen := vxH.hasTE || vxH.ctOutcome == 0
	forwarded := vxH.ctOutcome == 3 || vxH.ctOutcome == 4

	// ---- use counting (C19): every request that presented a token entry consumes exactly one use, denied or not ----
	if teSeen && !forwarded {
		vxReach("handle: token entry present")
		vxAssert("a request presenting a token entry consumes exactly one use, also when it is denied", vxH.useCalls == 1)
	} else {
		vxAssert("no use consumed without a token entry / when the request is forwarded before use counting", vxH.useCalls == 0)
	}

	// ---- routing only after token check, use consumption and request audit (C02, C11, C18) ----
	if vxH.routed > 0 {
		vxReach("handle: routed")
		vxAssert("the backend is reached only when the token check passed", vxH.ctOutcome == 0)
		vxAssert("the backend is reached only when the use was consumed successfully", vxH.useOutcome == 0 || vxH.useOutcome == 3)
		vxAssert("the backend is reached only after the request audit entry was accepted", vxH.auditOK && vxH.auditedAt >= 0 && vxH.auditedAt < vxH.routedAt)
		vxAssert("the backend is invoked once", vxH.routed == 1)
	} else {
		vxReach("handle: not routed")
		vxAssert("a request that never reached the backend returns no backend data", !vxCarriesBackendData(resp))
		vxAssert("a request that never reached the backend is answered with an error", err != nil || (resp != nil && resp.IsError()))
	}
	if vxH.ctOutcome == 0 && (vxH.useOutcome == 0 || vxH.useOutcome == 3) && vxH.auditOK {
		vxAssert("an authorised, audited request is routed", vxH.routed == 1)
	}

	// ---- leases (C06) ----
	if vxH.routed > 0 && vxH.respKind == 2 && !vxH.mountNil {
		if !vxH.registerOK {
			vxReach("handle: lease registration failed")
			vxAssert("no secret is returned when its lease could not be registered", resp == nil && err != nil)
		} else if vxH.useOutcome != 3 || (vxH.revLeaseOK && vxH.lazyRevokeOK) {
			if vxH.useOutcome != 3 {
				vxReach("handle: leased secret returned")
				vxAssert("a returned secret carries its lease id", resp != nil && resp.Secret != nil && resp.Secret.LeaseID == "lease/1")
			}
		}
	}
	if vxH.routed > 0 && vxH.respKind == 3 {
		if !vxH.regAuthOK {
			vxReach("handle: token lease registration failed")
			vxAssert("a token whose lease could not be registered is revoked and not returned", resp == nil && err != nil && len(vxH.orphaned) == 1 && vxH.orphaned[0] == "child-token")
		}
	}

	// ---- last use (C19): revocation is triggered; leased secrets are withheld ----
	if teSeen && !forwarded && vxH.useOutcome == 3 {
		vxReach("handle: last use")
		vxAssert("the last use triggers the token's revocation", vxH.revLeaseOK == (vxH.lazyRevoke == 1))
		if childReq {
			vxReach("handle: last use in a namespace other than the token's")
		}
		// the token (and its lease) belong to the ROOT namespace in this harness, wherever the request runs
		vxAssert("the token's revocation lease is looked up in the TOKEN's namespace", vxH.revLeaseNS == namespace.RootNamespaceID)
		if vxH.lazyRevoke == 1 {
			vxAssert("the token's lease is expired in the TOKEN's namespace (where it lives), not the request's", vxH.lazyRevokeNS == namespace.RootNamespaceID)
		}
		if !vxH.revLeaseOK || !vxH.lazyRevokeOK {
			vxAssert("if the revocation cannot be queued the request fails without a response", resp == nil && err != nil)
		}
		if resp != nil && resp.Secret != nil {
			vxAssert("a secret leased on the final use is not returned", resp.Secret.LeaseID == "")
		}
	}
}
