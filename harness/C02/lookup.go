package vault

// C02 — a revoked, exhausted or expired token is never handed to the request path: the real TokenStore.lookupInternal
// (the function every token check goes through) for an ARBITRARY stored entry (use count, policies, ttl, namespace,
// deprecated-field upgrade state), lease state (absent / any expiry instant) and lookup mode (salted or not, tainted
// or not): an entry is returned only if it is stored under that id in the namespace the id names, is not awaiting
// deferred revocation (unless a tainted lookup asks for it), and is a non-expiring root token or has a lease that has
// not expired; an expiring token without a lease is revoked on the spot and not returned.
//
//vx:pkg github.com/openbao/openbao/v2/internal/vault
//vx:assume token storage is a per-namespace key set keyed by the salted id ("s-"+id); JSON decoding is a box; lease times come from a stub (absent, or any expiry instant); revocation calls are recorded; clock model (whole seconds, frozen across the call)
//vx:bodies context,github.com/openbao/openbao/sdk/v2/logical,github.com/openbao/openbao/v2/internal/helper/namespace,github.com/openbao/openbao/sdk/v2/helper/consts
//vx:redirect (*github.com/openbao/openbao/v2/internal/vault.TokenStore).SaltID vxLSaltID
//vx:redirect (*github.com/openbao/openbao/v2/internal/vault.TokenStore).idView vxLIDView
//vx:redirect (*github.com/openbao/openbao/v2/internal/vault.TokenStore).store vxLStore
//vx:redirect (*github.com/openbao/openbao/v2/internal/vault.Core).NamespaceByID vxLNamespaceByID
//vx:redirect (*github.com/openbao/openbao/v2/internal/vault.ExpirationManager).FetchLeaseTimesByToken vxLFetchLease
//vx:redirect (*github.com/openbao/openbao/v2/internal/vault.ExpirationManager).CreateOrFetchRevocationLeaseByToken vxLRevLease
//vx:redirect (*github.com/openbao/openbao/v2/internal/vault.ExpirationManager).Revoke vxLRevoke
//vx:redirect github.com/openbao/openbao/sdk/v2/helper/jsonutil.DecodeJSON vxLDecodeJSON
//vx:unwind 100

import (
	"context"
	"time"

	"github.com/openbao/openbao/sdk/v2/logical"
	"github.com/openbao/openbao/v2/internal/helper/namespace"
	"github.com/openbao/openbao/v2/internal/vault/barrier"
)

var (
	vxLNS1       = &namespace.Namespace{ID: "n1", Path: "n1/"}
	vxLStoredNS  string // namespace whose id view holds the entry
	vxLStoredKey string
	vxLStoredVal []byte
	vxLLease     *leaseEntry
	vxLRevoked   []string
	vxLStores    int
	vxLGetFails  bool
)

func vxLSaltID(ts *TokenStore, ctx context.Context, id string) (string, error) { return "s-" + id, nil }
func vxLNamespaceByID(c *Core, ctx context.Context, id string) (*namespace.Namespace, error) {
	switch id {
	case namespace.RootNamespaceID:
		return namespace.RootNamespace, nil
	case "n1":
		return vxLNS1, nil
	}
	return nil, nil
}

type vxLView struct {
	barrier.View
	ns string
}

func (v *vxLView) Get(ctx context.Context, k string) (*logical.StorageEntry, error) {
	if vxLGetFails {
		return nil, vxErr("storage read failed")
	}
	if v.ns == vxLStoredNS && k == vxLStoredKey {
		return &logical.StorageEntry{Key: k, Value: vxLStoredVal}, nil
	}
	return nil, nil
}

func vxLIDView(ts *TokenStore, ns *namespace.Namespace) barrier.View { return &vxLView{ns: ns.ID} }
func vxLStore(ts *TokenStore, ctx context.Context, te *logical.TokenEntry) error {
	vxLStores++
	return nil
}
func vxLFetchLease(m *ExpirationManager, ctx context.Context, te *logical.TokenEntry) (*leaseEntry, error) {
	return vxLLease, nil
}
func vxLRevLease(m *ExpirationManager, ctx context.Context, te *logical.TokenEntry) (string, error) {
	return "lease-of-" + te.ID, nil
}
func vxLRevoke(m *ExpirationManager, ctx context.Context, leaseID string) error {
	vxLRevoked = append(vxLRevoked, leaseID)
	return nil
}
func vxLDecodeJSON(data []byte, out interface{}) error {
	if !vxUnbox(data, out) {
		return vxErr("invalid JSON")
	}
	return nil
}

func VxLookupInternal() {
	vxLRevoked, vxLStores = nil, 0
	ts := &TokenStore{core: &Core{}, expiration: &ExpirationManager{}, quitContext: context.Background(), logger: nil}
	// the stored entry
	inNS1 := vxBool("token lives in namespace n1")
	te := &logical.TokenEntry{ID: "tokid", NumUses: vxInt("stored NumUses"), TTL: time.Duration(vxInt64("stored ttl")), NamespaceID: namespace.RootNamespaceID}
	vxAssume(te.TTL >= 0)
	id := "tokid"
	if inNS1 {
		te.NamespaceID = "n1"
		id = "tokid.n1"
		te.ID = id
	}
	switch vxChoose("policies([root],[root,p],[p])", 3) {
	case 0:
		te.Policies = []string{"root"}
	case 1:
		te.Policies = []string{"root", "p"}
	default:
		te.Policies = []string{"p"}
	}
	if vxBool("entry still has a deprecated num_uses field") {
		te.NumUsesDeprecated = 5
	}
	present := vxBool("entry present in storage")
	vxLStoredNS, vxLStoredKey, vxLStoredVal = "", "", nil
	if present {
		vxLStoredNS, vxLStoredKey, vxLStoredVal = te.NamespaceID, "s-"+id, vxBox(*te)
	}
	vxLGetFails = vxBool("storage read fails")
	// lease
	vxLLease = nil
	expire := vxInstant("lease ExpireTime")
	if vxBool("token has a lease") {
		vxLLease = &leaseEntry{ExpireTime: expire}
	}
	tainted := vxBool("tainted lookup")
	salted := vxBool("caller passes the salted id")
	reqNS := namespace.RootNamespace
	if vxBool("request context is namespace n1") {
		reqNS = vxLNS1
	}
	arg := id
	if salted {
		arg = "s-" + id
	}
	ctx := namespace.ContextWithNamespace(context.Background(), reqNS)
	before := time.Now()
	got, err := ts.lookupInternal(ctx, arg, salted, tainted)
	after := time.Now()
	vxAssume(vxTimeLE(after, before))
	if err != nil {
		vxReach("lookup: error")
		vxAssert("an error never comes with an entry", got == nil)
		return
	}
	// where the id is looked up: an unsalted id names its namespace itself; a salted id is resolved in the request's
	findable := present && !vxLGetFails && ((!salted) || reqNS.ID == te.NamespaceID)
	nonExpiringRoot := len(te.Policies) == 1 && te.Policies[0] == "root" && te.TTL == 0
	if got == nil {
		vxReach("lookup: refused")
		if findable && (te.NumUses >= 0 || tainted) && te.NumUsesDeprecated == 0 {
			if nonExpiringRoot {
				vxAssert("a stored, live non-expiring root token is found", false)
			} else if vxLLease != nil && (!expire.Before(before) || tainted) {
				vxAssert("a stored, live token with an unexpired lease is found", false)
			}
		}
		return
	}
	vxReach("lookup: entry returned")
	vxAssert("the entry returned is the one stored under that id", findable && got.ID == id && got.NamespaceID == te.NamespaceID)
	vxAssert("a token awaiting deferred revocation is only returned to a tainted lookup", got.NumUses >= 0 || tainted)
	if !nonExpiringRoot {
		vxAssert("an expiring token is only returned while it has a lease", vxLLease != nil)
		vxAssert("an expired token is only returned to a tainted lookup", !expire.Before(before) || tainted)
	}
	vxAssert("a returned token was not revoked by the lookup", len(vxLRevoked) == 0)
}

// an expiring token with no lease at all is revoked on the spot
func VxLookupRevokesLeaseless() {
	vxLRevoked, vxLStores = nil, 0
	ts := &TokenStore{core: &Core{}, expiration: &ExpirationManager{}, quitContext: context.Background()}
	te := &logical.TokenEntry{ID: "tokid", TTL: time.Duration(vxInt64("stored ttl")), NamespaceID: namespace.RootNamespaceID, Policies: []string{"p"}}
	vxAssume(te.TTL >= 0)
	vxLStoredNS, vxLStoredKey, vxLStoredVal = namespace.RootNamespaceID, "s-tokid", vxBox(*te)
	vxLGetFails, vxLLease = false, nil
	got, err := ts.lookupInternal(namespace.RootContext(context.Background()), "tokid", false, vxBool("tainted lookup"))
	vxReach("lookup: leaseless")
	vxAssert("an expiring token without a lease is not returned", got == nil && err == nil)
	vxAssert("and is revoked immediately", len(vxLRevoked) == 1 && vxLRevoked[0] == "lease-of-tokid")
}
