package vault

// C02 (e') — the REAL special-path tables of the system backend and the token store (taken from the real constructors
// NewSystemBackend / NewTokenStore on this tree; their route definitions are not needed and are dropped), mounted
// through the real Router.Mount: for every declared pattern, the declared path itself, every extension of it by up to
// two characters and its near misses are classified by the real LoginPath / RootPath exactly as the declaration says -
// in particular no declared root-protected path is reported unprotected (no exact entry shadows a '*' entry) and
// nothing undeclared is unauthenticated.
//
//vx:pkg github.com/openbao/openbao/v2/internal/vault
//vx:assume (this file) only PathsSpecial of the constructors is used (all SystemBackend / TokenStore path builders and framework set-up are dropped); validity checking of '+' placement (a regexp) is skipped - the tables contain no '+'
//vx:bodies context,strings,internal/stringslite,github.com/armon/go-radix,github.com/openbao/openbao/sdk/v2/logical,github.com/openbao/openbao/v2/internal/helper/namespace,github.com/openbao/openbao/v2/internal/vault/barrier,github.com/openbao/openbao/v2/internal/vault/routing,github.com/openbao/openbao/sdk/v2/helper/locksutil,github.com/openbao/openbao/v2/internal/helper/versions,github.com/openbao/openbao/v2/internal/version
//vx:noop (*github.com/openbao/openbao/v2/internal/vault.SystemBackend).*
//vx:noop (*github.com/openbao/openbao/v2/internal/vault.TokenStore).paths
//vx:noop (*github.com/openbao/openbao/v2/internal/vault.TokenStore).loadSSCTokensGenerationCounter
//vx:noop (*github.com/openbao/openbao/sdk/v2/framework.Backend).Setup
//vx:noop (*github.com/openbao/openbao/v2/internal/vault.Core).GetRaftBackend
//vx:redirect github.com/openbao/openbao/v2/internal/vault/routing.isValidUnauthenticatedPath vxSYValid
//vx:unwind 3000

import (
	"context"

	log "github.com/hashicorp/go-hclog"
	"github.com/openbao/openbao/sdk/v2/logical"
	"github.com/openbao/openbao/v2/internal/helper/namespace"
	"github.com/openbao/openbao/v2/internal/vault/barrier"
	"github.com/openbao/openbao/v2/internal/vault/routing"
)

type vxSYLog struct{ log.Logger }

func (vxSYLog) Debug(msg string, args ...interface{}) {}
func (vxSYLog) Trace(msg string, args ...interface{}) {}
func (vxSYLog) Info(msg string, args ...interface{})  {}
func (vxSYLog) Warn(msg string, args ...interface{})  {}
func (vxSYLog) Error(msg string, args ...interface{}) {}

type vxSYBackend struct {
	logical.Backend
	paths *logical.Paths
}

func (b *vxSYBackend) SpecialPaths() *logical.Paths { return b.paths }
func vxSYValid(path string) (bool, error)           { return true, nil }

func vxSYMatches(pattern, path string) bool {
	if len(pattern) > 0 && pattern[len(pattern)-1] == '*' {
		stem := pattern[:len(pattern)-1]
		return len(path) >= len(stem) && path[:len(stem)] == stem
	}
	return path == pattern
}
func vxSYAny(patterns []string, path string) bool {
	for _, p := range patterns {
		if vxSYMatches(p, path) {
			return true
		}
	}
	return false
}

func vxSYCheck(what string, mount string, paths *logical.Paths) {
	ctx := namespace.RootContext(context.Background())
	r := routing.NewRouter(vxSYLog{})
	me := &routing.MountEntry{Table: routing.MountTableType, Type: "x", Path: mount, UUID: "u", Accessor: "acc", NamespaceID: namespace.RootNamespaceID, Namespace: namespace.RootNamespace}
	vxAssert(what+": mounting with the declared special paths succeeds", r.Mount(&vxSYBackend{paths: paths}, mount, me, barrier.NewView(nil, "view/")) == nil)
	var all []string
	all = append(all, paths.Root...)
	all = append(all, paths.Unauthenticated...)
	for _, p := range all {
		for i := 0; i < len(p); i++ {
			vxAssert(what+": the tables use no '+' wildcard (assumption of this file)", p[i] != '+')
		}
	}
	pi := vxChoose(what+": declared pattern", len(all))
	stem := all[pi]
	if stem[len(stem)-1] == '*' {
		stem = stem[:len(stem)-1]
	}
	var path string
	switch vxChoose("variant(exact stem, last char dropped, extended)", 3) {
	case 0:
		path = stem
	case 1:
		path = stem[:len(stem)-1]
	default:
		n := 1 + vxChoose("extension length", 2)
		ext := make([]byte, n)
		for i := range ext {
			ext[i] = "a/-k"[vxChoose("extension character(a,/,-,k)", 4)]
		}
		path = stem + string(ext)
	}
	gotLogin, gotRoot := r.LoginPath(ctx, mount+path), r.RootPath(ctx, mount+path)
	wantLogin, wantRoot := vxSYAny(paths.Unauthenticated, path), vxSYAny(paths.Root, path)
	if gotLogin {
		vxReach(what + ": some path is unauthenticated")
	}
	if gotRoot {
		vxReach(what + ": some path is root-protected")
	}
	vxAssert(what+": a path is unauthenticated only if declared", !gotLogin || wantLogin)
	vxAssert(what+": every declared root-protected path is reported root-protected", !wantRoot || gotRoot)
	vxAssert(what+": the real tables are classified exactly as declared", gotLogin == wantLogin && gotRoot == wantRoot)
	vxAssert(what+": no path is both unauthenticated and root-protected", !(gotLogin && gotRoot))
}

func VxSystemBackendSpecialPaths() {
	c := &Core{}
	c.allowUnauthedWorkflows = vxBool("unauthenticated workflows enabled")
	b := NewSystemBackend(c, vxSYLog{})
	vxAssert("the system backend declares special paths", b != nil && b.Backend != nil && b.PathsSpecial != nil && len(b.PathsSpecial.Root) > 0 && len(b.PathsSpecial.Unauthenticated) > 0)
	vxSYCheck("sys", "sys/", b.PathsSpecial)
}

func VxTokenStoreSpecialPaths() {
	c := &Core{}
	ts, err := NewTokenStore(context.Background(), vxSYLog{}, c, &logical.BackendConfig{})
	vxAssert("token store constructed", err == nil && ts != nil && ts.Backend != nil && ts.PathsSpecial != nil)
	p := &logical.Paths{Root: ts.PathsSpecial.Root, Unauthenticated: ts.PathsSpecial.Unauthenticated}
	vxAssert("the token store declares root-protected paths and no unauthenticated ones", len(p.Root) > 0 && len(p.Unauthenticated) == 0)
	vxSYCheck("token", "auth/token/", p)
}
