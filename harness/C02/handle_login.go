package vault

// C02 / C06 / C11 — login requests: the real Core.handleLoginRequest for EVERY combination of token-check outcome,
// audit outcome, lockout state, backend response kind (nothing, data, auth, secret, error, invalid credentials),
// mount kind (credential or secret) and token-creation outcome: the credential backend is invoked only after the
// unauthenticated token check passed, the user is not locked out and the request's audit entry was accepted; a login
// never returns a leased secret; an auth block coming from a non-credential mount is refused; a token is handed out
// only through LoginCreateToken (whose own obligations are C07 VxLogin), and when that fails no auth reaches the
// client; a refused login returns nothing of the backend's data.
//
//vx:pkg github.com/openbao/openbao/v2/internal/vault
//vx:include handle_request.go
//vx:assume (this file) collaborators are outcome stubs as in handle_request.go; no identity store (entity handling and login MFA are outside); user lockout is an outcome stub; LoginCreateToken is a recording stub
//vx:redirect (*github.com/openbao/openbao/v2/internal/vault.Core).isUserLockoutDisabled vxLLockoutDisabled
//vx:redirect (*github.com/openbao/openbao/v2/internal/vault.Core).isUserLocked vxLIsLocked
//vx:redirect (*github.com/openbao/openbao/v2/internal/vault.Core).failedUserLoginProcess vxLFailedLogin
//vx:redirect (*github.com/openbao/openbao/v2/internal/vault.Core).LocalUpdateUserFailedLoginInfo vxLUpdateFailed
//vx:redirect (*github.com/openbao/openbao/v2/internal/vault.Core).buildMFAEnforcementConfigList vxLMFAList
//vx:redirect (*github.com/openbao/openbao/v2/internal/vault.Core).LoginCreateToken vxLCreateToken
//vx:redirect (*github.com/openbao/openbao/v2/internal/vault.Core).DetermineRoleFromLoginRequest vxLRole
//vx:redirect (*github.com/openbao/openbao/v2/internal/vault/routing.Router).MatchingMount vxLMatchingMount
//vx:bodies github.com/openbao/openbao/v2/internal/helper/identity/mfa

import (
	"context"
	"time"

	"github.com/openbao/openbao/sdk/v2/logical"
	"github.com/openbao/openbao/v2/internal/helper/identity"
	"github.com/openbao/openbao/v2/internal/helper/identity/mfa"
	"github.com/openbao/openbao/v2/internal/helper/namespace"
	"github.com/openbao/openbao/v2/internal/vault/routing"
)

type vxLG struct {
	lockoutDisabled bool
	locked          bool
	kind            int // backend response: 0 nil, 1 data, 2 auth, 3 secret, 4 error response, 5 invalid credentials
	credMount       bool
	createOK        bool
	created         int
	failedLogins    int
}

var vxL2 *vxLG

func vxLLockoutDisabled(c *Core, me *routing.MountEntry) (bool, error) {
	return vxL2.lockoutDisabled, nil
}
func vxLIsLocked(c *Core, ctx context.Context, me *routing.MountEntry, req *logical.Request) (*FailedLoginUser, bool, error) {
	return &FailedLoginUser{aliasName: "u", mountAccessor: "acc"}, vxL2.locked, nil
}
func vxLFailedLogin(c *Core, ctx context.Context, me *routing.MountEntry, u *FailedLoginUser) error {
	vxL2.failedLogins++
	return nil
}
func vxLUpdateFailed(c *Core, ctx context.Context, u FailedLoginUser, info *FailedLoginInfo, del bool) error {
	return nil
}
func vxLMFAList(c *Core, ctx context.Context, entity *identity.Entity, path string) ([]*mfa.MFAEnforcementConfig, error) {
	return nil, nil
}
func vxLRole(c *Core, ctx context.Context, mountPoint string, data map[string]any) string { return "" }
func vxLMatchingMount(r *routing.Router, ctx context.Context, path string) string {
	return "auth/userpass/"
}
func vxLCreateToken(c *Core, ctx context.Context, ns *namespace.Namespace, reqPath, mountPoint, role string, resp *logical.Response, inline bool, u *FailedLoginUser) (bool, *logical.Response, error) {
	vxL2.created++
	if !vxL2.createOK {
		return false, nil, ErrInternalError
	}
	resp.Auth.ClientToken = "login-token"
	return true, resp, nil
}

func VxHandleLogin() {
	ctx := namespace.RootContext(context.Background())
	c := &Core{router: &routing.Router{}, logger: vxHLogger{}, tokenStore: &TokenStore{}, expiration: &ExpirationManager{}, auditBroker: &AuditBroker{}}
	vxH = &vxHR{ctOutcome: vxChoose("token check outcome", 6), hasTE: false, auditOK: vxBool("request audit accepted"), auditedAt: -1, routedAt: -1}
	vxL2 = &vxLG{lockoutDisabled: vxBool("user lockout disabled"), locked: vxBool("user is locked out"), kind: vxChoose("backend response(nil,data,auth,secret,error,invalid credentials)", 6),
		credMount: vxBool("mounted in the credential table"), createOK: vxBool("token creation ok")}
	vxH.mountNil = false
	vxRouteOverride = func(req *logical.Request) (*logical.Response, error) {
		switch vxL2.kind {
		case 1:
			return &logical.Response{Data: vxBackendData}, nil
		case 2:
			return &logical.Response{Auth: &logical.Auth{Policies: []string{"p"}, DisplayName: "u", LeaseOptions: logical.LeaseOptions{TTL: time.Hour}}}, nil
		case 3:
			return &logical.Response{Data: vxBackendData, Secret: &logical.Secret{LeaseOptions: logical.LeaseOptions{TTL: time.Hour}}}, nil
		case 4:
			return logical.ErrorResponse("backend says no"), logical.ErrInvalidRequest
		case 5:
			return logical.ErrorResponse("invalid username or password"), logical.ErrInvalidCredentials
		}
		return nil, nil
	}
	path := "auth/userpass/login/u"
	if !vxL2.credMount {
		path = "pki/acme/new-account" // an unauthenticated path of a secrets engine
	}
	req := &logical.Request{Operation: logical.UpdateOperation, Path: path, MountPoint: "auth/userpass/", Connection: &logical.Connection{RemoteAddr: "1.2.3.4"}}
	resp, auth, err := c.handleLoginRequest(ctx, req)
	vxAssert("login requests are marked unauthenticated", req.Unauthenticated)
	_ = auth // the auth returned beside the response describes the PRESENTED token (for the audit log), not a new one
	tokenOut := resp != nil && resp.Auth != nil && resp.Auth.ClientToken != ""
	if vxH.routed > 0 {
		vxReach("login: backend invoked")
		vxAssert("the credential backend is reached only when the (unauthenticated) token check passed", vxH.ctOutcome == 0)
		vxAssert("the credential backend is reached only after the request audit entry was accepted", vxH.auditOK && vxH.auditedAt >= 0 && vxH.auditedAt < vxH.routedAt)
		vxAssert("a locked-out user never reaches the credential backend", vxL2.lockoutDisabled || !vxL2.locked)
		vxAssert("the backend is invoked once", vxH.routed == 1)
	} else {
		vxReach("login: backend not invoked")
		vxAssert("a login that never reached the backend hands out no token", !tokenOut)
		vxAssert("and creates none", vxL2.created == 0)
	}
	if vxH.ctOutcome == 0 && vxH.auditOK && (vxL2.lockoutDisabled || !vxL2.locked) {
		vxAssert("an admissible, audited login is routed", vxH.routed == 1)
	}
	if resp != nil {
		vxAssert("a login never returns a leased secret", resp.Secret == nil)
	}
	if tokenOut {
		vxReach("login: token handed out")
		vxAssert("a token is handed out only for an auth response of a credential mount, through LoginCreateToken, which succeeded", vxH.routed == 1 && vxL2.kind == 2 && vxL2.credMount && vxL2.created == 1 && vxL2.createOK && err == nil)
	}
	if vxH.routed == 1 && vxL2.kind == 2 {
		if !vxL2.credMount {
			vxReach("login: auth response from a non-credential mount")
			vxAssert("an auth block from a non-credential mount is refused", !tokenOut && (resp == nil || resp.Auth == nil) && err != nil && vxL2.created == 0)
		} else if !vxL2.createOK {
			vxReach("login: token creation failed")
			vxAssert("when token creation fails no auth reaches the client", !tokenOut && (resp == nil || resp.Auth == nil) && err != nil)
		}
	}
	if vxH.routed == 1 && vxL2.kind == 5 {
		vxReach("login: invalid credentials")
		vxAssert("invalid credentials are counted against the user (unless lockout is disabled) and yield no token", (vxL2.lockoutDisabled || vxL2.failedLogins == 1) && !tokenOut)
	}
}
