package routing

// C02 (e) — the per-mount tables of unauthenticated and root-protected paths: the real Router.LoginPath / RootPath over
// the real Mount (PathsToRadix, ParseUnauthenticatedPaths, go-radix) for EVERY pair of declared patterns from a pool
// (exact, trailing '*', '+' segments, '+' with trailing '*') and ALL request paths over the alphabet up to the bound,
// in the root and a child namespace:
//   - soundness of the unauthenticated table (the security direction): LoginPath says yes ONLY for a path that matches
//     a declared pattern - a request is never let through unauthenticated because of a near miss;
//   - soundness of the root table (the security direction): a path that matches a declared root pattern IS reported
//     root-protected - asserted for pattern sets in which no exact entry extends the stem of a '*' entry (the lookup
//     is a longest-prefix lookup, so such an exact entry shadows the '*' entry for longer paths; the tables of the
//     system backend and token store are checked without that assumption in special_paths_sys.go);
//   - under the same assumption both lookups are exact (equal to "matches some declared pattern").
//
//vx:pkg github.com/openbao/openbao/v2/internal/vault/routing
//vx:assume (this file) the validity regexp for '+' placement (regexp `\+[^/]|[^/]\+`) is replaced by a hand-written predicate of the same meaning; backends are stubs that only declare their special paths
//vx:bodies context,strings,internal/stringslite,github.com/armon/go-radix,github.com/openbao/openbao/sdk/v2/logical,github.com/openbao/openbao/v2/internal/helper/namespace,github.com/openbao/openbao/v2/internal/vault/barrier
//vx:param pathLen quick=4 thorough=5
//vx:unwind 400

import (
	"context"

	log "github.com/hashicorp/go-hclog"
	"github.com/openbao/openbao/sdk/v2/logical"
	"github.com/openbao/openbao/v2/internal/helper/namespace"
	"github.com/openbao/openbao/v2/internal/vault/barrier"
)

type vxSPLog struct{ log.Logger }

func (vxSPLog) Debug(msg string, args ...interface{}) {}
func (vxSPLog) Trace(msg string, args ...interface{}) {}
func (vxSPLog) Info(msg string, args ...interface{})  {}
func (vxSPLog) Warn(msg string, args ...interface{})  {}
func (vxSPLog) Error(msg string, args ...interface{}) {}

type vxSPBackend struct {
	logical.Backend
	paths *logical.Paths
}

func (b *vxSPBackend) SpecialPaths() *logical.Paths { return b.paths }

// '+' next to a non-slash character
func vxSPAdjacent(s string) bool {
	for i := 0; i < len(s); i++ {
		if s[i] != '+' {
			continue
		}
		if i+1 < len(s) && s[i+1] != '/' {
			return true
		}
		if i > 0 && s[i-1] != '/' {
			return true
		}
	}
	return false
}

func vxSPSplit(s string) []string {
	var out []string
	start := 0
	for i := 0; i <= len(s); i++ {
		if i == len(s) || s[i] == '/' {
			out = append(out, s[start:i])
			start = i + 1
		}
	}
	return out
}

func vxSPHasPlus(p string) bool {
	for i := 0; i < len(p); i++ {
		if p[i] == '+' {
			return true
		}
	}
	return false
}

// reference: does the path match the declared pattern (documented semantics)
func vxSPMatches(pattern, path string) bool {
	prefix := len(pattern) > 0 && pattern[len(pattern)-1] == '*'
	stem := pattern
	if prefix {
		stem = pattern[:len(pattern)-1]
	}
	if !vxSPHasPlus(stem) {
		if prefix {
			return len(path) >= len(stem) && path[:len(stem)] == stem
		}
		return path == stem
	}
	ps, ss := vxSPSplit(path), vxSPSplit(stem)
	if len(ps) < len(ss) || (!prefix && len(ps) != len(ss)) {
		return false
	}
	for i, seg := range ss {
		switch {
		case seg == "+":
		case seg == ps[i]:
		case prefix && i == len(ss)-1 && len(ps[i]) >= len(seg) && ps[i][:len(seg)] == seg:
		default:
			return false
		}
	}
	return true
}

func vxSPAny(patterns []string, path string) bool {
	for _, p := range patterns {
		if vxSPMatches(p, path) {
			return true
		}
	}
	return false
}

// an exact entry that extends the stem of a '*' entry shadows it in a longest-prefix lookup
func vxSPShadowing(patterns []string) bool {
	for _, e := range patterns {
		if vxSPHasPlus(e) || (len(e) > 0 && e[len(e)-1] == '*') {
			continue
		}
		for _, p := range patterns {
			if vxSPHasPlus(p) || len(p) == 0 || p[len(p)-1] != '*' {
				continue
			}
			stem := p[:len(p)-1]
			if len(e) >= len(stem) && e[:len(stem)] == stem {
				return true
			}
		}
	}
	return false
}

var vxSPPool = []string{"a", "a*", "ab", "a/b", "a/*", "+/b", "a/+", "a/+/b", "+/b*", "b*", "a/+/a*"}

func vxSPRouter(root, unauth []string, ns *namespace.Namespace) *Router {
	wcAdjacentNonSlashRegEx = vxSPAdjacent
	r := NewRouter(vxSPLog{})
	me := &MountEntry{Table: MountTableType, Type: "x", Path: "m/", UUID: "u", Accessor: "acc", NamespaceID: ns.ID, Namespace: ns}
	err := r.Mount(&vxSPBackend{paths: &logical.Paths{Root: root, Unauthenticated: unauth}}, "m/", me, barrier.NewView(nil, "view/"))
	vxAssert("mount with valid special paths succeeds", err == nil)
	return r
}

func vxSPPath() string {
	n := vxChoose("path length", vxParam("pathLen")+1)
	b := make([]byte, n)
	for i := range b {
		b[i] = "ab/"[vxChoose("path character(a,b,/)", 3)]
	}
	return string(b)
}

func VxSpecialPathTables() {
	i := vxChoose("first declared pattern", len(vxSPPool))
	j := i + vxChoose("second declared pattern (same = one pattern)", len(vxSPPool)-i)
	patterns := []string{vxSPPool[i]}
	if j != i {
		patterns = append(patterns, vxSPPool[j])
	}
	ns := namespace.RootNamespace
	if vxBool("request in a child namespace") {
		ns = &namespace.Namespace{ID: "n1", Path: "n1/"}
	}
	ctx := namespace.ContextWithNamespace(context.Background(), ns)
	path := vxSPPath()
	declared := vxSPAny(patterns, path)
	shadow := vxSPShadowing(patterns)

	// unauthenticated table
	r := vxSPRouter(nil, patterns, ns)
	login := r.LoginPath(ctx, "m/"+path)
	if login {
		vxReach("special paths: treated as unauthenticated")
	}
	vxAssert("a path is treated as unauthenticated ONLY if the backend declares it (exact, '*' prefix or '+' segments)", !login || declared)
	if !shadow {
		vxAssert("every declared unauthenticated path is recognised (no shadowing entry)", login == declared)
	}
	vxAssert("a path outside the mount is never unauthenticated", !r.LoginPath(ctx, "x/"+path))

	// root-protected table ('+' patterns are not supported there: stored literally)
	var rootPats []string
	for _, p := range patterns {
		if !vxSPHasPlus(p) {
			rootPats = append(rootPats, p)
		}
	}
	r2 := vxSPRouter(rootPats, nil, ns)
	isRoot := r2.RootPath(ctx, "m/"+path)
	rootDeclared := vxSPAny(rootPats, path)
	if isRoot {
		vxReach("special paths: root-protected")
	}
	vxAssert("only declared paths are root-protected", !isRoot || rootDeclared)
	if !vxSPShadowing(rootPats) {
		vxAssert("every declared root-protected path is reported root-protected (no shadowing entry)", isRoot == rootDeclared)
	} else if rootDeclared && !isRoot {
		vxReach("special paths: (observation) an exact entry shadows a '*' entry")
	}
}
