package policy

// C02 (d) — authorisation always uses the policy as last written: the real policy Store (SetPolicy / DeletePolicy /
// GetPolicy / Invalidate / ACL over the real 2Q LRU and the real per-namespace modify locks) on a storage model.
// (i) sequential histories: after any sequence of set (rw / ro rules), delete, cache invalidation, purge and get up to
// the bound, GetPolicy and the ACL built by Store.ACL answer from the policy as last written (or no policy after a
// delete). (ii) a policy update or delete arriving while an ACL build (or GetPolicy) that missed the cache is IN
// FLIGHT - the reader has read the old record from storage and has not filled the cache yet (second logical thread,
// started inside the reader's critical section; it is held by the namespace's modify lock and resumed when the reader
// releases it): every later request is authorised against the NEW policy.
//
//vx:pkg github.com/openbao/openbao/v2/internal/vault/policy
//vx:include ../C03/acl.go
//vx:assume (this file) policy text parsing (HCL) is replaced by a stub mapping the text "rw" / "ro" to the parsed rule set the real parser yields for `path "secret/foo" { capabilities = [read, update] / [read] }`; storage is a key/value model with boxed JSON; one namespace (root); the schedule of (ii) is the one the modify lock decides (engine/threads.go)
//vx:bodies github.com/hashicorp/golang-lru/v2,github.com/hashicorp/golang-lru/v2/simplelru,github.com/hashicorp/golang-lru/v2/internal,container/list,github.com/openbao/openbao/sdk/v2/helper/locksutil,github.com/openbao/openbao/sdk/v2/logical
//vx:redirect github.com/openbao/openbao/v2/internal/vault/policy.ParseACLPolicy vxParseACL
//vx:redirect (*github.com/openbao/openbao/v2/internal/vault/policy.Store).getBarrierView vxPSView
//vx:redirect (*github.com/openbao/openbao/v2/internal/vault/policy.Store).GetACLView vxPSACLView
//vx:redirect github.com/openbao/openbao/sdk/v2/helper/locksutil.LockIndexForKey vxPSLockIndex
//vx:redirect github.com/openbao/openbao/sdk/v2/helper/jsonutil.DecodeJSON vxPSDecodeJSON
//vx:redirect github.com/openbao/openbao/sdk/v2/helper/jsonutil.EncodeJSON vxPSEncodeJSON
//vx:noop github.com/hashicorp/go-metrics/compat.*
//vx:param steps quick=3 thorough=4

import (
	"context"

	log "github.com/hashicorp/go-hclog"
	lru "github.com/hashicorp/golang-lru/v2"
	"github.com/openbao/openbao/sdk/v2/helper/locksutil"
	"github.com/openbao/openbao/sdk/v2/logical"
	"github.com/openbao/openbao/v2/internal/helper/namespace"
	"github.com/openbao/openbao/v2/internal/vault/barrier"
	vaultidentity "github.com/openbao/openbao/v2/internal/vault/identity"
)

type vxPSLog struct{ log.Logger }

func (vxPSLog) Trace(msg string, args ...interface{}) {}
func (vxPSLog) Debug(msg string, args ...interface{}) {}
func (vxPSLog) Info(msg string, args ...interface{})  {}
func (vxPSLog) Warn(msg string, args ...interface{})  {}
func (vxPSLog) Error(msg string, args ...interface{}) {}

type vxPSCore struct{}

var (
	vxPSNsA = &namespace.Namespace{ID: "a", UUID: "ua", Path: "a/"}
	vxPSNsB = &namespace.Namespace{ID: "b", UUID: "ub", Path: "b/"}
)

func (vxPSCore) NamespaceByID(ctx context.Context, id string) (*namespace.Namespace, error) {
	switch id {
	case namespace.RootNamespaceID:
		return namespace.RootNamespace, nil
	case "a":
		return vxPSNsA, nil
	case "b":
		return vxPSNsB, nil
	}
	return nil, nil
}
func (vxPSCore) IdentityStore() *vaultidentity.IdentityStore           { return nil }
func (vxPSCore) NamespaceView(ns *namespace.Namespace) barrier.View    { return vxPSNS(ns) }
func vxPSLockIndex(key string) uint8                                   { return 0 }
func vxPSView(ps *Store, ns *namespace.Namespace, _ Type) barrier.View { return vxPSNS(ns) }
func vxPSACLView(ps *Store, ns *namespace.Namespace) barrier.View      { return vxPSNS(ns) }
func vxPSEncodeJSON(in interface{}) ([]byte, error)                    { return vxBox(in), nil }
func vxPSDecodeJSON(data []byte, out interface{}) error {
	if !vxUnbox(data, out) {
		return vxErr("invalid JSON")
	}
	return nil
}

// the parser stub: "rw" and "ro"
func vxParseACL(ns *namespace.Namespace, rules string) (*Policy, error) {
	caps := uint32(ReadCapabilityInt)
	if rules == "rw" {
		caps |= UpdateCapabilityInt
	}
	return &Policy{Raw: rules, Type: TypeACL, Namespace: ns, Paths: []*PathRules{vxMkRule("secret/foo", caps)}}, nil
}

// every namespace has its own policy view over the one store; like the real barrier view it refuses relative keys
type vxPSNSView struct {
	barrier.View
	pfx string
}

func vxPSNS(ns *namespace.Namespace) barrier.View {
	if ns == nil || ns.ID == namespace.RootNamespaceID {
		return vxPSV
	}
	return &vxPSNSView{pfx: "ns-" + ns.UUID + "/"}
}
func vxPSRelative(k string) bool {
	start := 0
	for i := 0; i <= len(k); i++ {
		if i == len(k) || k[i] == '/' {
			if seg := k[start:i]; seg == "." || seg == ".." {
				return true
			}
			start = i + 1
		}
	}
	return false
}
func (v *vxPSNSView) Get(ctx context.Context, k string) (*logical.StorageEntry, error) {
	if vxPSRelative(k) {
		return nil, vxErr("relative paths not supported")
	}
	e, err := vxPSV.Get(ctx, v.pfx+k)
	if e != nil {
		e.Key = k
	}
	return e, err
}
func (v *vxPSNSView) Put(ctx context.Context, e *logical.StorageEntry) error {
	if vxPSRelative(e.Key) {
		return vxErr("relative paths not supported")
	}
	return vxPSV.Put(ctx, &logical.StorageEntry{Key: v.pfx + e.Key, Value: e.Value})
}
func (v *vxPSNSView) Delete(ctx context.Context, k string) error {
	if vxPSRelative(k) {
		return vxErr("relative paths not supported")
	}
	return vxPSV.Delete(ctx, v.pfx+k)
}

// storage model with one scheduling point: right after a read produced its result
type vxPSStore struct {
	barrier.View
	keys []string
	vals [][]byte
}

var (
	vxPSV           *vxPSStore
	vxPSAfterRead   func()
	vxPSStorageGets int
)

func (s *vxPSStore) find(k string) int {
	for i := range s.keys {
		if s.keys[i] == k {
			return i
		}
	}
	return -1
}
func (s *vxPSStore) Get(ctx context.Context, k string) (*logical.StorageEntry, error) {
	vxPSStorageGets++
	var e *logical.StorageEntry
	if i := s.find(k); i >= 0 {
		e = &logical.StorageEntry{Key: k, Value: s.vals[i]}
	}
	if f := vxPSAfterRead; f != nil {
		vxPSAfterRead = nil
		f()
	}
	return e, nil
}
func (s *vxPSStore) Put(ctx context.Context, e *logical.StorageEntry) error {
	if i := s.find(e.Key); i >= 0 {
		s.vals[i] = e.Value
		return nil
	}
	s.keys, s.vals = append(s.keys, e.Key), append(s.vals, e.Value)
	return nil
}
func (s *vxPSStore) Delete(ctx context.Context, k string) error {
	if i := s.find(k); i >= 0 {
		s.keys = append(s.keys[:i:i], s.keys[i+1:]...)
		s.vals = append(s.vals[:i:i], s.vals[i+1:]...)
	}
	return nil
}

func vxPSNew() *Store {
	vxPSV = &vxPSStore{}
	vxPSAfterRead, vxPSStorageGets = nil, 0
	cache, _ := lru.New2Q[string, *Policy](16)
	return &Store{core: vxPSCore{}, tokenPoliciesLRU: cache, modifyLocks: locksutil.CreateLocks(), logger: vxPSLog{}}
}

func vxPSSet(ps *Store, ctx context.Context, rules string) {
	p, _ := vxParseACL(namespace.RootNamespace, rules)
	p.Name = "dev"
	vxAssert("policy write ok", ps.SetPolicy(ctx, p, nil) == nil)
}

// what an update of secret/foo is answered with under the policy named "dev"
func vxPSAllowsUpdate(ps *Store, ctx context.Context) (allowed, readAllowed bool) {
	acl, err := ps.ACL(ctx, nil, map[string][]string{namespace.RootNamespaceID: {"dev"}})
	vxAssert("ACL construction succeeds", err == nil && acl != nil)
	up := acl.AllowOperation(ctx, &logical.Request{Path: "secret/foo", Operation: logical.UpdateOperation}, false)
	rd := acl.AllowOperation(ctx, &logical.Request{Path: "secret/foo", Operation: logical.ReadOperation}, false)
	return up.Allowed, rd.Allowed
}

func vxPSCheck(ps *Store, ctx context.Context, want string) {
	p, err := ps.GetPolicy(ctx, "dev", TypeToken)
	vxAssert("policy read ok", err == nil)
	up, rd := vxPSAllowsUpdate(ps, ctx)
	switch want {
	case "":
		vxAssert("a deleted (or never written) policy is not served", p == nil)
		vxAssert("and authorises nothing", !up && !rd)
	case "rw":
		vxAssert("the policy served is the one last written (rw)", p != nil && p.Raw == "rw")
		vxAssert("requests are authorised against the policy as last written (rw)", up && rd)
	default:
		vxAssert("the policy served is the one last written (ro)", p != nil && p.Raw == "ro")
		vxAssert("requests are authorised against the policy as last written (ro: update denied)", !up && rd)
	}
}

// (i) sequential histories
func VxPolicyStoreHistory() {
	ctx := namespace.RootContext(context.Background())
	ps := vxPSNew()
	cur := ""
	for i := 0; i < vxParam("steps"); i++ {
		switch vxChoose("operation(set rw,set ro,delete,invalidate,purge,check)", 6) {
		case 0:
			vxPSSet(ps, ctx, "rw")
			cur = "rw"
		case 1:
			vxPSSet(ps, ctx, "ro")
			cur = "ro"
		case 2:
			vxAssert("delete ok", ps.DeletePolicy(ctx, "dev", TypeACL) == nil)
			cur = ""
		case 3:
			vxAssert("invalidate ok", ps.Invalidate(ctx, "dev", TypeACL) == nil)
		case 4:
			ps.PurgeCache()
		default:
			vxPSCheck(ps, ctx, cur)
		}
		vxAssert("the modify lock is released", vxHeld(&ps.modifyLocks[0].RWMutex) == 0)
	}
	vxPSCheck(ps, ctx, cur)
	vxReach("policy store: history checked")
}

// (ii) an update / delete racing an in-flight cold-cache ACL build
func VxPolicyUpdateRacesACLBuild() {
	ctx := namespace.RootContext(context.Background())
	ps := vxPSNew()
	vxPSSet(ps, ctx, "rw")
	// the cache goes cold (unseal, eviction, invalidation from another node)
	if vxBool("cache cold by invalidation (else by purge)") {
		vxAssert("invalidate ok", ps.Invalidate(ctx, "dev", TypeACL) == nil)
	} else {
		ps.PurgeCache()
	}
	del := vxBool("the concurrent change is a delete (else an update to read-only)")
	want := "ro"
	if del {
		want = ""
	}
	done := false
	vxPSAfterRead = func() {
		vxSpawn(func() {
			if del {
				vxAssert("delete ok", ps.DeletePolicy(ctx, "dev", TypeACL) == nil)
			} else {
				vxPSSet(ps, ctx, "ro")
			}
			done = true
		})
	}
	if vxBool("the in-flight reader is GetPolicy (else an ACL build)") {
		p, err := ps.GetPolicy(ctx, "dev", TypeToken)
		vxAssert("in-flight read ok", err == nil && p != nil)
	} else {
		up, rd := vxPSAllowsUpdate(ps, ctx)
		vxAssert("the in-flight request is authorised against the old or the new policy", rd || del)
		_ = up
	}
	vxAssert("the concurrent change completes once the reader is out of its critical section", done)
	vxAssert("the modify lock is released", vxHeld(&ps.modifyLocks[0].RWMutex) == 0)
	vxReach("policy store: change raced an in-flight ACL build")
	vxPSCheck(ps, ctx, want)
}
