package vault

// C20 (e) — unseal threshold accounting: the real SealManager.recordUnsealPart and getUnsealKey for an ARBITRARY
// sequence of up to three submitted key parts (symbolic bytes, duplicates allowed) and an ARBITRARY threshold:
// a byte-identical part is never counted twice; no key is reconstructed (shamir.Combine is not even reached) before
// `threshold` DISTINCT parts were recorded; progress is discarded once an attempt was made; with threshold 1 the
// single part itself is the key.
//
//vx:pkg github.com/openbao/openbao/v2/internal/vault
//vx:assume shamir.Combine is replaced by a recording stub (its own behaviour is decided by harness/C20/shamir.go); the seal's barrier configuration is a stub returning the symbolic threshold; no recovery keys, no raft join
//vx:bodies context,crypto/subtle,github.com/openbao/openbao/v2/internal/helper/namespace
//vx:redirect github.com/openbao/openbao/sdk/v2/helper/shamir.Combine vxUCombine
//vx:redirect github.com/hashicorp/go-uuid.GenerateUUID vxUUUID
//vx:unwind 100

import (
	"context"

	log "github.com/hashicorp/go-hclog"
	"github.com/openbao/openbao/v2/internal/helper/namespace"
)

type vxULogger struct{ log.Logger }

func (vxULogger) Debug(msg string, args ...interface{}) {}
func (vxULogger) Trace(msg string, args ...interface{}) {}
func (vxULogger) Info(msg string, args ...interface{})  {}
func (vxULogger) Warn(msg string, args ...interface{})  {}
func (vxULogger) Error(msg string, args ...interface{}) {}

var (
	vxUCombines   int
	vxUCombinedOf int
)

func vxUCombine(parts [][]byte) ([]byte, error) {
	vxUCombines++
	vxUCombinedOf = len(parts)
	return []byte("combined"), nil
}
func vxUUUID() (string, error) { return "nonce", nil }

type vxUSeal struct {
	Seal
	threshold int
}

func (s vxUSeal) RecoveryKeySupported() bool { return false }
func (s vxUSeal) BarrierConfig(ctx context.Context) (*SealConfig, error) {
	return &SealConfig{SecretShares: 5, SecretThreshold: s.threshold}, nil
}

func vxUEq(a, b []byte) bool {
	if len(a) != len(b) {
		return false
	}
	for i := range a {
		if a[i] != b[i] {
			return false
		}
	}
	return true
}

func VxUnsealAccounting() {
	ctx := context.Background()
	vxUCombines, vxUCombinedOf = 0, 0
	c := &Core{logger: vxULogger{}}
	sm := &SealManager{core: c, logger: vxULogger{}, unlockInformationByNamespace: map[string]*unlockInformation{}}
	ns := namespace.RootNamespace
	seal := vxUSeal{threshold: vxInt("secret threshold")}
	vxAssume(seal.threshold >= 1 && seal.threshold <= 5)
	n := 1 + vxChoose("parts submitted", 3)
	var parts [][]byte
	distinct := 0
	for i := 0; i < n; i++ {
		p := vxBytes("part", 2)
		isNew := true
		for _, q := range parts {
			if vxUEq(p, q) {
				isNew = false
			}
		}
		parts = append(parts, p)
		added, err := sm.recordUnsealPart(ns, p)
		vxAssert("recording a part never fails", err == nil)
		vxAssert("a part is counted exactly when it is not byte-identical to an earlier one", added == isNew)
		if isNew {
			distinct++
		}
		key, kerr := sm.getUnsealKey(ctx, seal, ns)
		vxAssert("no error while collecting", kerr == nil)
		if distinct < seal.threshold {
			vxReach("unseal: below threshold")
			vxAssert("no key is produced before the threshold of DISTINCT parts is reached", key == nil && vxUCombines == 0)
			continue
		}
		vxReach("unseal: threshold reached")
		vxAssert("the threshold-th distinct part yields a key", key != nil)
		if seal.threshold == 1 {
			vxAssert("threshold 1: the part itself is the key, no combination", vxUEq(key, p) && vxUCombines == 0)
		} else {
			vxAssert("the key is combined from exactly the distinct parts recorded", vxUCombines == 1 && vxUCombinedOf == distinct)
		}
		vxAssert("progress is discarded after an attempt", sm.unlockInformationByNamespace[ns.UUID] == nil)
		return
	}
}
