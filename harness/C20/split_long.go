package shamir

// C20 — Split on key-sized secrets (more than 256 random coefficients in total), see the entry's comment.
//
//vx:pkg github.com/openbao/openbao/sdk/v2/helper/shamir
//vx:include shamir.go
//vx:bodies crypto/subtle
//vx:redirect crypto/rand.Read vxRandRead
//vx:redirect crypto/rand.Int vxRandInt
//vx:redirect github.com/openbao/openbao/sdk/v2/helper/shamir.shuffledXCoordinates vxXCoords
//vx:unwind 20000
//vx:param assocA quick=15 thorough=255
//vx:param xmax2 quick=40 thorough=255
//vx:param xmax3 quick=7 thorough=12
//vx:param xmaxI3 quick=7 thorough=9

// Split on secrets of the sizes it is really used with (32-byte barrier / recovery keys with thresholds of 10 and 17,
// and a long secret with a small threshold - in each case more than 256 random coefficients in total): every share
// byte is the evaluation, at that share's x-coordinate, of a polynomial whose intercept is THAT secret byte and whose
// threshold-1 further coefficients are random bytes drawn for that byte alone - the idx-th block of the random bytes
// drawn, never a block another secret byte's polynomial also uses (coefficients shared between bytes let fewer than
// threshold shares relate secret bytes to one another). All secret and random bytes symbolic.
func VxSplitKeySizedSecrets() {
	cfg := [][3]int{{32, 10, 10}, {32, 17, 17}, {130, 3, 3}, {2, 3, 3}}[vxChoose("(secret length, threshold, parts)", 4)]
	n, t, parts := cfg[0], cfg[1], cfg[2]
	secret := make([]byte, n)
	for i := range secret {
		secret[i] = vxByte("secret")
	}
	vxTape = nil
	out, err := Split(secret, parts, t)
	vxAssert("split ok", err == nil && len(out) == parts)
	deg := t - 1
	vxAssert("split draws exactly (threshold-1) random bytes per secret byte", len(vxTape) == n*deg)
	for _, p := range []int{0, parts - 1} {
		x := uint8(p + 1) // the x-coordinates of the harness (vxXCoords)
		vxAssert("share carries its x-coordinate", len(out[p]) == n+1 && out[p][n] == x)
		for idx := 0; idx < n; idx++ {
			block := vxTape[idx*deg : (idx+1)*deg]
			y := block[deg-1]
			for i := deg - 2; i >= 0; i-- {
				y = add(mult(y, x), block[i])
			}
			y = add(mult(y, x), secret[idx])
			vxAssert("every share byte is the evaluation of the polynomial with that secret byte as intercept and that byte's OWN random coefficients", out[p][idx] == y)
		}
	}
	vxReach("split: key-sized secret")
}
