package vault

// C20 (e'') — the verification phase of a rekey: the new unseal / recovery key replaces the old one only once the
// configured threshold of DISTINCT NEW shares was presented back (with the verification nonce) and they reconstruct
// exactly the key that is waiting to be installed. The real Core.RekeyVerify for an ARBITRARY sequence of up to three
// presented shares (symbolic bytes, duplicates allowed), an ARBITRARY threshold of the new configuration, right /
// wrong nonces, a reconstruction that equals the pending key or not (symbolic verification key), barrier and
// recovery flavour: performBarrierRekey / performRecoveryRekey are reached only then, exactly once and with the
// verified key; a failed verification installs nothing, discards the presented shares and rotates the nonce; no
// verification runs when no rekey (or no verification) is in progress.
//
//vx:pkg github.com/openbao/openbao/v2/internal/vault
//vx:include unseal_accounting.go
//vx:include rekey_accounting.go
//vx:assume (this file) shamir.Combine returns the fixed value "combined" (recording stub of unseal_accounting.go); installing the key (performBarrierRekey / performRecoveryRekey) is a recording stub - its own behaviour is C10's subject; UUIDs are the constant "nonce"
//vx:bodies context,crypto/subtle,github.com/openbao/openbao/v2/internal/helper/namespace,github.com/openbao/openbao/sdk/v2/logical,github.com/openbao/openbao/v2/internal/helper/locking,sync/atomic
//vx:redirect github.com/openbao/openbao/sdk/v2/helper/shamir.Combine vxUCombine
//vx:redirect github.com/hashicorp/go-uuid.GenerateUUID vxUUUID
//vx:redirect (*github.com/openbao/openbao/v2/internal/vault.Core).Sealed vxRKSealed
//vx:redirect (*github.com/openbao/openbao/v2/internal/vault.Core).performBarrierRekey vxRVBarrierRekey
//vx:redirect (*github.com/openbao/openbao/v2/internal/vault.Core).performRecoveryRekey vxRVRecoveryRekey
//vx:unwind 100

import (
	"context"

	"github.com/openbao/openbao/sdk/v2/logical"
	"github.com/openbao/openbao/v2/internal/helper/locking"
)

var (
	vxRVInstalled [][]byte
	vxRVKind      []string
)

func vxRVBarrierRekey(c *Core, ctx context.Context, k []byte) logical.HTTPCodedError {
	vxRVInstalled, vxRVKind = append(vxRVInstalled, k), append(vxRVKind, "barrier")
	return nil
}
func vxRVRecoveryRekey(c *Core, ctx context.Context, k []byte) logical.HTTPCodedError {
	vxRVInstalled, vxRVKind = append(vxRVInstalled, k), append(vxRVKind, "recovery")
	return nil
}

func VxRekeyVerifyAccounting() {
	ctx := context.Background()
	vxUCombines, vxUCombinedOf, vxRVInstalled, vxRVKind = 0, 0, nil, nil
	recovery := vxBool("recovery-key rekey")
	threshold := vxInt("new secret threshold")
	vxAssume(threshold >= 1 && threshold <= 4)
	c := &Core{logger: vxULogger{}, seal: vxRKSeal{threshold: 2}, barrier: vxRKBarrier{}, stateLock: &locking.SyncRWMutex{}}
	// the key waiting to be installed: 8 symbolic bytes (so it may or may not equal what the shares reconstruct)
	pending := vxBytes("pending key", 8)
	cfg := &SealConfig{SecretShares: 5, SecretThreshold: threshold, Nonce: "", VerificationRequired: true, VerificationKey: pending, VerificationNonce: "vnonce"}
	other := &SealConfig{SecretShares: 5, SecretThreshold: 1, VerificationKey: []byte("other-key"), VerificationNonce: "vnonce"}
	switch vxChoose("state(verification in progress, no rekey, rekey without verification)", 3) {
	case 1:
		cfg = nil
	case 2:
		cfg.VerificationKey = nil
	}
	if recovery {
		c.recoveryRotationConfig, c.rootRotationConfig = cfg, other
	} else {
		c.rootRotationConfig, c.recoveryRotationConfig = cfg, other
	}
	if cfg == nil || cfg.VerificationKey == nil {
		res, err := c.RekeyVerify(ctx, []byte{1, 2}, "vnonce", recovery)
		vxReach("verify: nothing to verify")
		vxAssert("no verification runs when no rekey or no verification is in progress (the other flavour's pending key is not touched)", res == nil && err != nil && len(vxRVInstalled) == 0 && len(other.VerificationProgress) == 0)
		return
	}
	n := 1 + vxChoose("shares presented", 3)
	parts, _ := vxRKShares(n)
	accepted := 0
	for i := 0; i < n; i++ {
		wrongNonce := vxBool("share comes with a wrong nonce")
		nonce := cfg.VerificationNonce
		if wrongNonce {
			nonce = "stale"
		}
		before := len(cfg.VerificationProgress)
		seen := false
		for _, q := range cfg.VerificationProgress {
			if vxUEq(parts[i], q) {
				seen = true
			}
		}
		res, err := c.RekeyVerify(ctx, parts[i], nonce, recovery)
		vxAssert("the state and rotation locks are released", vxHeld(c.stateLock) == 0 && vxHeld(&c.rotationLock) == 0)
		if wrongNonce || seen {
			vxReach("verify: share refused")
			vxAssert("a share with a wrong nonce or a byte-identical share is refused and not counted", err != nil && res == nil && len(cfg.VerificationProgress) == before && len(vxRVInstalled) == 0)
			continue
		}
		accepted++
		if accepted < threshold {
			vxReach("verify: below threshold")
			vxAssert("below the threshold the share is recorded and nothing is installed", err == nil && res == nil && len(cfg.VerificationProgress) == accepted && vxUCombines == 0 && len(vxRVInstalled) == 0)
			continue
		}
		// threshold reached: the reconstruction is the share itself (threshold 1) or "combined"
		var recon []byte
		if threshold == 1 {
			recon = parts[i]
			vxAssert("threshold 1: no combination", vxUCombines == 0)
		} else {
			recon = []byte("combined")
			vxAssert("the key is combined from exactly the accepted shares", vxUCombines == 1 && vxUCombinedOf == threshold)
		}
		vxAssert("the presented shares are discarded after the attempt", len(cfg.VerificationProgress) == 0)
		if vxUEq(recon, pending) {
			vxReach("verify: key confirmed")
			vxAssert("the confirmed key - and only it - is installed, exactly once, in the right flavour", err == nil && res != nil && res.Complete && len(vxRVInstalled) == 1 && vxUEq(vxRVInstalled[0], pending) && ((recovery && vxRVKind[0] == "recovery") || (!recovery && vxRVKind[0] == "barrier")))
			if recovery {
				vxAssert("the finished rekey is closed; the other flavour's is untouched", c.recoveryRotationConfig == nil && c.rootRotationConfig == other)
			} else {
				vxAssert("the finished rekey is closed; the other flavour's is untouched", c.rootRotationConfig == nil && c.recoveryRotationConfig == other)
			}
		} else {
			vxReach("verify: wrong shares")
			vxAssert("shares that do not reconstruct the pending key install nothing", err != nil && (res == nil || !res.Complete) && len(vxRVInstalled) == 0)
			vxAssert("the pending key stays pending", (recovery && c.recoveryRotationConfig == cfg) || (!recovery && c.rootRotationConfig == cfg))
		}
		return
	}
}
