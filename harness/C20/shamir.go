package shamir

// C20 — secret sharing: field laws, reconstruction, sub-threshold independence, plumbing.
//
//vx:pkg github.com/openbao/openbao/sdk/v2/helper/shamir
//vx:bodies crypto/subtle
//vx:redirect crypto/rand.Read vxRandRead
//vx:redirect crypto/rand.Int vxRandInt
//vx:redirect github.com/openbao/openbao/sdk/v2/helper/shamir.shuffledXCoordinates vxXCoords
//vx:unwind 300
//vx:timelimit quick=200 thorough=3600
//vx:param assocA quick=15 thorough=255
//vx:param xmax2 quick=40 thorough=255
//vx:param xmax3 quick=7 thorough=12
//vx:param xmaxI3 quick=7 thorough=9
//vx:entry VxReconstruct3 quick,thorough
//vx:entry VxIndependence3 quick,thorough

import (
	"io"
	"math/big"
)

// ---- environment stubs (assumptions: crypto/rand delivers arbitrary bytes / an arbitrary j in [0,max)) ----

var vxRandCalls int
var vxRandLast []byte

func vxRandRead(b []byte) (int, error) {
	vxRandCalls++
	for i := range b {
		b[i] = vxByte("rand")
	}
	vxRandLast = append([]byte(nil), b...)
	vxTape = append(vxTape, b...)
	return len(b), nil
}

var vxJ []int64

// x-coordinates for the Split-level entries: the identity permutation (that shuffledXCoordinates yields SOME
// permutation of 1..255 is decided by VxShuffleStep; which one does not matter to the obligations below)
func vxXCoords() ([]uint8, error) {
	xs := make([]uint8, 255)
	for i := range xs {
		xs[i] = uint8(i + 1)
	}
	return xs, nil
}

var vxTape []byte // every random byte handed out, in order

func vxRandInt(r io.Reader, max *big.Int) (*big.Int, error) {
	// never executed symbolically with a real big.Int: shuffledXCoordinates is checked by the inductive step below
	panic("vxRandInt: not modelled")
}

// ---- (a) field laws on the real mult/div/inverse/add ----

func VxComm() {
	a, b := vxByte("a"), vxByte("b")
	vxAssert("mult commutative", mult(a, b) == mult(b, a))
}

func VxIdentityZero() {
	a := vxByte("a")
	vxAssert("a*1=a", mult(a, 1) == a)
	vxAssert("1*a=a", mult(1, a) == a)
	vxAssert("a*0=0", mult(a, 0) == 0)
	vxAssert("a+a=0", add(a, a) == 0)
	vxAssert("a+0=a", add(a, 0) == a)
}

func VxInverse() {
	a := vxByte("a")
	vxAssume(a != 0)
	vxReach("inverse: a != 0")
	vxAssert("a*inverse(a)=1", mult(a, inverse(a)) == 1)
}

func VxNoZeroDivisors() {
	a, b := vxConcByte(vxByte("a")), vxByte("b")
	vxAssume(a != 0 && b != 0)
	vxAssert("a*b != 0", mult(a, b) != 0)
}

func VxDist() {
	a, b, c := vxConcByte(vxByte("a")), vxByte("b"), vxByte("c")
	vxAssert("a*(b+c)=a*b+a*c", mult(a, add(b, c)) == add(mult(a, b), mult(a, c)))
}

func VxAssoc() {
	a := vxByte("a")
	vxAssume(int(a) <= vxParam("assocA"))
	a = vxConcByte(a)
	b, c := vxConcByte(vxByte("b")), vxByte("c")
	vxAssert("(a*b)*c=a*(b*c)", mult(mult(a, b), c) == mult(a, mult(b, c)))
}

func VxDivMul() {
	a, b := vxByte("a"), vxConcByte(vxByte("b"))
	vxAssume(b != 0)
	vxAssert("div(a,b)*b=a", mult(div(a, b), b) == a)
	vxAssert("div(0,b)=0", div(0, b) == 0)
}

func VxDivByZeroPanics() {
	a := vxByte("a")
	vxAssert("div by zero panics", vxCatch(func() { div(a, 0) }))
}

// ---- (b) reconstruction through the real evaluate + Combine ----

func VxReconstruct2() {
	x0, x1 := vxByte("x0"), vxByte("x1")
	vxAssume(x0 != 0 && x1 != 0 && x0 != x1)
	vxAssume(int(x0) <= vxParam("xmax2") && int(x1) <= vxParam("xmax2"))
	x0, x1 = vxConcByte(x0), vxConcByte(x1)
	p := polynomial{coefficients: []uint8{vxByte("secret"), vxByte("c1")}}
	s0 := []byte{p.evaluate(x0), x0}
	s1 := []byte{p.evaluate(x1), x1}
	got, err := Combine([][]byte{s0, s1})
	vxReach("t=2 combined")
	vxAssert("t=2: combine ok", err == nil && len(got) == 1)
	vxAssert("t=2: reconstructs the secret", got[0] == p.coefficients[0])
}

func VxReconstruct3() {
	x0, x1, x2 := vxByte("x0"), vxByte("x1"), vxByte("x2")
	vxAssume(x0 != 0 && x1 != 0 && x2 != 0 && x0 != x1 && x0 != x2 && x1 != x2)
	m := vxParam("xmax3")
	vxAssume(int(x0) <= m && int(x1) <= m && int(x2) <= m)
	x0, x1, x2 = vxConcByte(x0), vxConcByte(x1), vxConcByte(x2)
	p := polynomial{coefficients: []uint8{vxByte("secret"), vxByte("c1"), vxByte("c2")}}
	got, err := Combine([][]byte{{p.evaluate(x0), x0}, {p.evaluate(x1), x1}, {p.evaluate(x2), x2}})
	vxReach("t=3 combined")
	vxAssert("t=3: combine ok", err == nil && len(got) == 1)
	vxAssert("t=3: reconstructs the secret", got[0] == p.coefficients[0])
	// a 3-subset of 3 shares of a t=2 polynomial (more shares than threshold) also reconstructs
	q := polynomial{coefficients: []uint8{vxByte("secret'"), vxByte("d1")}}
	got, err = Combine([][]byte{{q.evaluate(x0), x0}, {q.evaluate(x1), x1}, {q.evaluate(x2), x2}})
	vxAssert("t=2,n=3: reconstructs the secret", err == nil && got[0] == q.coefficients[0])
}

// two-byte secret: bytes are processed independently
func VxReconstructTwoBytes() {
	x0, x1 := vxByte("x0"), vxByte("x1")
	vxAssume(x0 != 0 && x1 != 0 && x0 != x1 && x0 <= 6 && x1 <= 6)
	x0, x1 = vxConcByte(x0), vxConcByte(x1)
	p := polynomial{coefficients: []uint8{vxByte("s0"), vxByte("c")}}
	q := polynomial{coefficients: []uint8{vxByte("s1"), vxByte("d")}}
	got, err := Combine([][]byte{{p.evaluate(x0), q.evaluate(x0), x0}, {p.evaluate(x1), q.evaluate(x1), x1}})
	vxAssert("2 bytes: ok", err == nil && len(got) == 2)
	vxAssert("2 bytes: reconstructs", got[0] == p.coefficients[0] && got[1] == q.coefficients[0])
}

// ---- (c) sub-threshold independence: for fixed x's and ANY secret, coefficients ↦ shares is injective ----

func VxIndependence2() {
	x := vxByte("x")
	vxAssume(x != 0)
	x = vxConcByte(x)
	s := vxByte("secret")
	c, d := vxByte("c"), vxByte("d")
	p := polynomial{coefficients: []uint8{s, c}}
	q := polynomial{coefficients: []uint8{s, d}}
	vxAssume(p.evaluate(x) == q.evaluate(x))
	vxReach("t=2 independence")
	vxAssert("t=2: one share determines the coefficient (bijection for every secret)", c == d)
}

func VxIndependence3() {
	x0, x1 := vxByte("x0"), vxByte("x1")
	m := vxParam("xmaxI3")
	vxAssume(x0 != 0 && x1 != 0 && x0 != x1 && int(x0) <= m && int(x1) <= m)
	x0, x1 = vxConcByte(x0), vxConcByte(x1)
	s := vxByte("secret")
	c1, c2, d1, d2 := vxByte("c1"), vxByte("c2"), vxByte("d1"), vxByte("d2")
	p := polynomial{coefficients: []uint8{s, c1, c2}}
	q := polynomial{coefficients: []uint8{s, d1, d2}}
	vxAssume(p.evaluate(x0) == q.evaluate(x0) && p.evaluate(x1) == q.evaluate(x1))
	vxReach("t=3 independence")
	vxAssert("t=3: two shares determine the coefficients (bijection for every secret)", c1 == d1 && c2 == d2)
}

// the polynomial uses the random bytes verbatim: intercept = secret byte, every other coefficient is exactly
// the byte crypto/rand delivered, from a single draw (so coefficients are uniform and independent whenever
// crypto/rand is; any filtering or re-drawing would bias the share distribution)
func VxMakePolynomial() {
	s := vxByte("secret")
	deg := vxByte("degree")
	vxAssume(deg >= 1 && deg <= 3)
	deg = vxConcByte(deg)
	vxRandCalls = 0
	p, err := makePolynomial(s, deg)
	vxReach("makePolynomial")
	vxAssert("makePolynomial: ok", err == nil && len(p.coefficients) == int(deg)+1)
	vxAssert("makePolynomial: intercept is the secret byte", p.coefficients[0] == s)
	vxAssert("makePolynomial: exactly one draw", vxRandCalls == 1 && len(vxRandLast) == int(deg))
	for i := 1; i <= int(deg); i++ {
		vxAssert("makePolynomial: coefficient is the random byte, unfiltered", p.coefficients[i] == vxRandLast[i-1])
	}
}

// ---- (d) plumbing ----

func VxEvaluateAtZeroPanics() {
	p := polynomial{coefficients: []uint8{vxByte("s"), vxByte("c")}}
	vxAssert("evaluate(0) panics", vxCatch(func() { p.evaluate(0) }))
}

func VxSplitArgs() {
	parts, threshold := vxInt("parts"), vxInt("threshold")
	n := vxChoose("secretLen", 3)
	secret := vxBytes("secret", n)
	bad := parts < threshold || parts > 255 || threshold < 2 || threshold > 255 || n == 0
	vxAssume(bad)
	vxReach("split: bad arguments")
	out, err := Split(secret, parts, threshold)
	vxAssert("split refuses bad arguments", err != nil && out == nil)
}

// one inductive step of the Fisher-Yates loop in shuffledXCoordinates: a swap of two in-range positions keeps
// "all entries distinct and non-zero" (the initial array 1..255 satisfies it; rand.Int's contract gives j in [0,i))
func VxShuffleStep() {
	const n = 6
	var a [n]uint8
	for k := range a {
		a[k] = vxByte("a")
	}
	distinctNZ := func(a [n]uint8) bool {
		ok := true
		for k := 0; k < n; k++ {
			if a[k] == 0 {
				ok = false
			}
			for l := k + 1; l < n; l++ {
				if a[k] == a[l] {
					ok = false
				}
			}
		}
		return ok
	}
	vxAssume(distinctNZ(a))
	i, j := vxChoose("i", n), vxChoose("j", n)
	vxAssume(i > 0 && j < i)
	vxReach("shuffle step")
	b := a
	b[i], b[j] = b[j], b[i]
	vxAssert("swap keeps entries distinct and non-zero", distinctNZ(b))
}

func VxCombineRejects() {
	// duplicate x
	a := []byte{vxByte("y0"), vxByte("x0")}
	b := []byte{vxByte("y1"), vxByte("x1")}
	_, err := Combine([][]byte{a, b})
	if a[1] == b[1] {
		vxReach("combine: duplicate x")
		vxAssert("duplicate x rejected", err != nil)
	} else {
		vxReach("combine: distinct x")
		vxAssert("distinct x accepted", err == nil)
	}
}

func VxCombineRejectsThree() {
	a := []byte{vxByte("y0"), vxByte("x0")}
	b := []byte{vxByte("y1"), vxByte("x1")}
	c := []byte{vxByte("y2"), vxByte("x2")}
	_, err := Combine([][]byte{a, b, c})
	dup := a[1] == b[1] || a[1] == c[1] || b[1] == c[1]
	if dup {
		vxAssert("3 parts: duplicate x rejected", err != nil)
	} else {
		vxAssert("3 parts: distinct x accepted", err == nil)
	}
}

func VxCombineShapes() {
	n := vxChoose("nparts", 4)
	var parts [][]byte
	lens := make([]int, n)
	for i := 0; i < n; i++ {
		lens[i] = vxChoose("len", 4)
		parts = append(parts, vxBytes("part", lens[i]))
	}
	got, err := Combine(parts)
	short := n < 2
	if !short {
		short = lens[0] < 2
		for i := 1; i < n; i++ {
			if lens[i] != lens[0] {
				short = true
			}
		}
	}
	if short {
		vxReach("combine: bad shape")
		vxAssert("fewer than 2 parts, parts shorter than 2 bytes or unequal lengths are rejected", err != nil && got == nil)
	} else if err == nil {
		vxReach("combine: good shape")
		vxAssert("secret is one byte shorter than a share", len(got) == lens[0]-1)
	}
}


// Split as a whole, threshold 3, two-byte secret: the shares of any two parties (fewer than the threshold) are, for
// EVERY secret, an injective function of the random bytes Split drew - hence a bijection onto all 256^4 values, hence
// distributed identically for every secret, jointly over both bytes. (Per-byte independence alone, VxIndependence3,
// does not exclude coefficients shared between the polynomials of different secret bytes.)
func VxSplitSubThresholdIndependence() {
	secret := []byte{vxByte("s0"), vxByte("s1")}
	vxTape = nil
	a, err := Split(secret, 3, 3)
	vxAssert("split ok", err == nil && len(a) == 3 && len(a[0]) == 3)
	ta := vxTape
	vxTape = nil
	b, err2 := Split(secret, 3, 3)
	vxAssert("second split ok", err2 == nil)
	tb := vxTape
	vxAssert("split draws (threshold-1) random bytes per secret byte", len(ta) == 4 && len(tb) == 4)
	pa, pb := vxChoose("first party", 3), vxChoose("second party", 3)
	vxAssume(pa < pb)
	same := a[pa][0] == b[pa][0] && a[pa][1] == b[pa][1] && a[pb][0] == b[pb][0] && a[pb][1] == b[pb][1]
	vxAssume(same)
	vxReach("split: two parties see the same shares in both runs")
	vxAssert("t=3, 2-byte secret: two parties' shares determine all four random coefficients (joint bijection for every secret)", ta[0] == tb[0] && ta[1] == tb[1] && ta[2] == tb[2] && ta[3] == tb[3])
	vxAssert("shares carry their x-coordinate", a[pa][2] == uint8(pa+1) && a[pb][2] == uint8(pb+1))
}

// Split + Combine end to end for a 2-byte secret, threshold 2 of 3: every pair of shares reconstructs the secret
func VxSplitCombine() {
	secret := []byte{vxByte("s0"), vxByte("s1")}
	out, err := Split(secret, 3, 2)
	vxAssert("split ok", err == nil && len(out) == 3)
	i, j := vxChoose("first share", 3), vxChoose("second share", 3)
	vxAssume(i != j)
	got, cerr := Combine([][]byte{out[i], out[j]})
	vxReach("split-combine")
	vxAssert("any two of three shares reconstruct the two-byte secret", cerr == nil && len(got) == 2 && got[0] == secret[0] && got[1] == secret[1])
}
