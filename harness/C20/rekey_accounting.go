package vault

// C20 (e') — a rekey / key rotation proceeds only once the configured threshold of DISTINCT shares was supplied: the
// real Core.BarrierRekeyUpdate and Core.RecoveryRekeyUpdate (accounting part) and the real SealManager.progressRotation for an ARBITRARY sequence
// of up to three submitted shares (symbolic bytes, duplicates allowed), an ARBITRARY threshold and right / wrong
// nonces: a byte-identical share is refused and not counted; a share with a wrong nonce is refused and not counted; no
// key is recovered (shamir.Combine is not reached, nothing is handed to verification) before `threshold` distinct
// shares were accepted; afterwards the collected shares are discarded; a rotation that awaits verification accepts no
// further shares.
//
//vx:pkg github.com/openbao/openbao/v2/internal/vault
//vx:include unseal_accounting.go
//vx:assume (this file) shamir.Combine is the recording stub of unseal_accounting.go; the seal is a stub with recovery keys whose verification records the recovered key and then refuses it (so the rekey stops right after the accounting); barrier key length bounds are 1..64
//vx:bodies context,crypto/subtle,github.com/openbao/openbao/v2/internal/helper/namespace,github.com/openbao/openbao/sdk/v2/logical,github.com/openbao/openbao/v2/internal/helper/locking
//vx:redirect github.com/openbao/openbao/sdk/v2/helper/shamir.Combine vxUCombine
//vx:redirect github.com/hashicorp/go-uuid.GenerateUUID vxUUUID
//vx:redirect (*github.com/openbao/openbao/v2/internal/vault.Core).Sealed vxRKSealed
//vx:unwind 100

import (
	"context"

	"github.com/openbao/openbao/v2/internal/helper/locking"
	"github.com/openbao/openbao/v2/internal/vault/barrier"
)

var vxRKVerified [][]byte

type vxRKSeal struct {
	Seal
	threshold int
}

func (s vxRKSeal) RecoveryKeySupported() bool { return true }
func (s vxRKSeal) RecoveryConfig(ctx context.Context) (*SealConfig, error) {
	return &SealConfig{SecretShares: 5, SecretThreshold: s.threshold}, nil
}
func (s vxRKSeal) VerifyRecoveryKey(ctx context.Context, key []byte) error {
	vxRKVerified = append(vxRKVerified, key)
	return vxErr("recovery key verification failed (harness stops here)")
}

type vxRKBarrier struct{ barrier.SecurityBarrier }

func (vxRKBarrier) KeyLength() (int, int) { return 1, 64 }
func vxRKSealed(c *Core) bool             { return false }

func vxRKShares(n int) ([][]byte, []bool) {
	var parts [][]byte
	var isNew []bool
	for i := 0; i < n; i++ {
		p := vxBytes("share", 2)
		fresh := true
		for _, q := range parts {
			if vxUEq(p, q) {
				fresh = false
			}
		}
		parts = append(parts, p)
		isNew = append(isNew, fresh)
	}
	return parts, isNew
}

func VxBarrierRekeyAccounting() { vxRekeyAccounting(false) }

// the recovery-key flavour keeps its own progress (recoveryRotationConfig) and goes through RecoveryRekeyUpdate
func VxRecoveryRekeyAccounting() { vxRekeyAccounting(true) }

func vxRekeyAccounting(recovery bool) {
	ctx := context.Background()
	vxUCombines, vxUCombinedOf, vxRKVerified = 0, 0, nil
	threshold := vxInt("secret threshold")
	vxAssume(threshold >= 1 && threshold <= 4)
	c := &Core{logger: vxULogger{}, seal: vxRKSeal{threshold: threshold}, barrier: vxRKBarrier{}, stateLock: &locking.SyncRWMutex{}}
	cfg := &SealConfig{SecretShares: 3, SecretThreshold: 2, Nonce: "nonce"}
	if recovery {
		c.recoveryRotationConfig = cfg
	} else {
		c.rootRotationConfig = cfg
	}
	n := 1 + vxChoose("shares submitted", 3)
	parts, isNew := vxRKShares(n)
	accepted := 0
	for i := 0; i < n; i++ {
		wrongNonce := vxBool("share comes with a wrong nonce")
		nonce := "nonce"
		if wrongNonce {
			nonce = "other"
		}
		// duplicates are judged against the shares ACCEPTED so far
		dup := false
		for j := 0; j < i; j++ {
			if vxUEq(parts[i], parts[j]) {
				dup = true
			}
		}
		_ = isNew
		before := len(cfg.RotationProgress)
		// was an identical share ACCEPTED before (a refused one does not count)?
		seen := false
		for _, q := range cfg.RotationProgress {
			if vxUEq(parts[i], q) {
				seen = true
			}
		}
		var res *RekeyResult
		var err error
		if recovery {
			res, err = c.RecoveryRekeyUpdate(ctx, parts[i], nonce)
		} else {
			res, err = c.BarrierRekeyUpdate(ctx, parts[i], nonce)
		}
		vxAssert("the state and rotation locks are released", vxHeld(c.stateLock) == 0 && vxHeld(&c.rotationLock) == 0)
		vxAssert("no rekey result is produced by the accounting alone", res == nil)
		if wrongNonce {
			vxReach("rekey: wrong nonce")
			vxAssert("a share with a wrong nonce is refused and not counted", err != nil && len(cfg.RotationProgress) == before && len(vxRKVerified) == 0)
			continue
		}
		if seen {
			vxReach("rekey: duplicate share")
			vxAssert("a byte-identical share is refused and not counted", err != nil && len(cfg.RotationProgress) == before && len(vxRKVerified) == 0)
			continue
		}
		_ = dup
		accepted++
		if accepted < threshold {
			vxReach("rekey: below threshold")
			vxAssert("below the threshold the share is recorded and nothing else happens", err == nil && len(cfg.RotationProgress) == accepted && vxUCombines == 0 && len(vxRKVerified) == 0)
			continue
		}
		vxReach("rekey: threshold reached")
		vxAssert("exactly one key is handed to verification, only at the threshold of distinct shares", len(vxRKVerified) == 1 && err != nil)
		if threshold == 1 {
			vxAssert("threshold 1: the share itself is the key, no combination", vxUEq(vxRKVerified[0], parts[i]) && vxUCombines == 0)
		} else {
			vxAssert("the key is combined from exactly the accepted shares", vxUCombines == 1 && vxUCombinedOf == threshold)
		}
		vxAssert("the collected shares are discarded after the attempt", len(cfg.RotationProgress) == 0)
		return
	}
}

func VxRotationProgressAccounting() {
	vxUCombines, vxUCombinedOf = 0, 0
	sm := &SealManager{logger: vxULogger{}}
	threshold := vxInt("secret threshold")
	vxAssume(threshold >= 1 && threshold <= 4)
	existing := &SealConfig{SecretShares: 5, SecretThreshold: threshold}
	rot := &SealConfig{SecretShares: 3, SecretThreshold: 2, Nonce: "nonce"}
	if vxBool("rotation already awaits verification") {
		rot.VerificationKey = []byte{1}
		k, err := sm.progressRotation(rot, existing, []byte{9, 9}, "nonce")
		vxReach("rotation: awaiting verification")
		vxAssert("a rotation that awaits verification accepts no further shares", err != nil && k == nil && len(rot.RotationProgress) == 0)
		return
	}
	n := 1 + vxChoose("shares submitted", 3)
	parts, _ := vxRKShares(n)
	accepted := 0
	for i := 0; i < n; i++ {
		nonce := "nonce"
		wrong := vxBool("share comes with a wrong nonce")
		if wrong {
			nonce = "other"
		}
		before := len(rot.RotationProgress)
		seen := false
		for _, q := range rot.RotationProgress {
			if vxUEq(parts[i], q) {
				seen = true
			}
		}
		key, err := sm.progressRotation(rot, existing, parts[i], nonce)
		if wrong || seen {
			vxReach("rotation: share refused")
			vxAssert("a share with a wrong nonce or a byte-identical share is refused and not counted", err != nil && key == nil && len(rot.RotationProgress) == before)
			continue
		}
		accepted++
		if accepted < threshold {
			vxReach("rotation: below threshold")
			vxAssert("no key is recovered before the threshold of distinct shares", err == nil && key == nil && vxUCombines == 0 && len(rot.RotationProgress) == accepted)
			continue
		}
		vxReach("rotation: threshold reached")
		vxAssert("the threshold-th distinct share yields the key", err == nil && key != nil)
		if threshold == 1 {
			vxAssert("threshold 1: the share itself is the key", vxUEq(key, parts[i]) && vxUCombines == 0)
		} else {
			vxAssert("the key is combined from exactly the accepted shares", vxUCombines == 1 && vxUCombinedOf == threshold)
		}
		vxAssert("the collected shares are discarded", len(rot.RotationProgress) == 0)
		return
	}
}
