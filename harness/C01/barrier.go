package barrier

// C01 — barrier records are authenticated ciphertext bound to their storage key (ideal-AEAD model):
// round trip, arbitrary tampering / truncation / extension / re-headering / cross-key transplant, record format.
//
//vx:pkg github.com/openbao/openbao/v2/internal/vault/barrier
//vx:include ../common/barrier_models.go
//vx:bodies context,encoding/binary,crypto/subtle,github.com/openbao/openbao/v2/internal/helper/namespace
//vx:param keyLen quick=2 thorough=4
//vx:param valLen quick=2 thorough=5
//vx:param recExtra quick=2 thorough=6
//vx:unwind 400

import (
	"context"
	"crypto/cipher"
	"sync/atomic"

	"github.com/openbao/openbao/sdk/v2/logical"
	"github.com/openbao/openbao/sdk/v2/physical"
)

func vxBarrier(phys physical.Backend, version byte, term uint32) (*AESGCMBarrier, *vxAEAD, *vxAEAD) {
	cur := &vxAEAD{key: []byte{1}}
	old := &vxAEAD{key: []byte{2}}
	kr := &Keyring{keys: map[uint32]*Key{term: {Term: term}, term - 1: {Term: term - 1}}, activeTerm: term}
	b := &AESGCMBarrier{
		backend:                  phys,
		keyring:                  kr,
		cache:                    map[uint32]cipher.AEAD{term: cur, term - 1: old},
		currentAESGCMVersionByte: version,
		UnaccountedEncryptions:   &atomic.Int64{},
		RemoteEncryptions:        &atomic.Int64{},
		totalLocalEncryptions:    &atomic.Int64{},
	}
	return b, cur, old
}

func vxVersion() byte {
	if vxBool("legacy format") {
		return AESGCMVersion1
	}
	return AESGCMVersion2
}

func vxSameBytes(a, b []byte) bool { return vxBytesEq(a, b) }

// (a)+(c): Get after Put returns exactly the value; the physical record is term|version|AEAD output, the AEAD saw
// the plaintext and (current format) the storage key as additional data.
func VxPutGet() {
	ctx := context.Background()
	phys := vxNewPhys()
	version := vxVersion()
	term := vxU32("term")
	vxAssume(term >= 1)
	b, cur, _ := vxBarrier(phys, version, term)
	key := vxString("key", vxChoose("keyLen", vxParam("keyLen")+1))
	val := vxBytes("value", vxChoose("valLen", vxParam("valLen")+1))
	err := b.Put(ctx, &logical.StorageEntry{Key: key, Value: val})
	vxAssert("put succeeds", err == nil)
	vxAssert("exactly one physical record under the same key", len(phys.keys) == 1 && phys.keys[0] == key)
	rec := phys.vals[0]
	vxAssert("record length = 4 + 1 + 28 + len(value)", len(rec) == 5+28+len(val))
	vxAssert("record header is the active term (big endian) and the format version",
		rec[0] == byte(term>>24) && rec[1] == byte(term>>16) && rec[2] == byte(term>>8) && rec[3] == byte(term) && rec[4] == version)
	vxAssert("exactly one AEAD seal, under the active term's key, of exactly the value", len(vxSeals) == 1 && vxSameBytes(vxSeals[0].key, cur.key) && vxSameBytes(vxSeals[0].pt, val))
	vxAssert("record body is the AEAD output and nothing else", vxSameBytes(rec[5:], vxSeals[0].ct))
	if version == AESGCMVersion2 && key != "" {
		vxReach("putget: current format")
		vxAssert("current format binds the storage key as additional data", vxSeals[0].hasAAD && string(vxSeals[0].aad) == key)
	} else {
		vxReach("putget: legacy format or empty key")
		vxAssert("legacy format / empty key: no additional data", !vxSeals[0].hasAAD)
	}
	got, err := b.Get(ctx, key)
	vxAssert("get succeeds", err == nil && got != nil && got.Key == key)
	vxAssert("get returns exactly the value written", vxSameBytes(got.Value, val) && got.Value != nil)
}

// (b): the stored record of k is replaced by ARBITRARY bytes of arbitrary length (covers bit flips, truncation,
// extension, other term/version headers, and transplanting the record of another key k2): Get(k) errs or returns
// the value written under k - never anything else, never panics. Current format: a transplant from k2 != k errs.
func VxTamper() {
	ctx := context.Background()
	phys := vxNewPhys()
	version := vxVersion()
	term := vxU32("term")
	vxAssume(term >= 1)
	b, _, _ := vxBarrier(phys, version, term)
	k1, k2 := "k/1", "k/2"
	v1 := vxBytes("v1", vxChoose("v1Len", 3))
	v2 := vxBytes("v2", vxChoose("v2Len", 3))
	vxAssert("puts succeed", b.Put(ctx, &logical.StorageEntry{Key: k1, Value: v1}) == nil && b.Put(ctx, &logical.StorageEntry{Key: k2, Value: v2}) == nil)
	rec2 := append([]byte(nil), phys.vals[1]...)
	// adversary: arbitrary replacement
	n := vxChoose("tamperedLen", 5+28+2+vxParam("recExtra")+1)
	forged := vxBytes("forged", n)
	phys.vals[0] = forged
	var got *logical.StorageEntry
	var err error
	panicked := vxCatch(func() { got, err = b.Get(ctx, k1) })
	vxAssert("tampered record never panics the barrier", !panicked)
	if err != nil {
		vxReach("tamper: rejected")
		vxAssert("no value with an error", got == nil)
		return
	}
	vxReach("tamper: accepted")
	vxAssert("accepted record yields an entry", got != nil)
	isV1 := vxSameBytes(got.Value, v1)
	if version == AESGCMVersion2 {
		vxAssert("current format: an accepted record decrypts to the value written under that key (and is byte-identical to the original or a current-term re-encryption of it)", isV1)
	} else {
		// legacy records are authenticated but relocatable: the only other acceptable outcome is the value of the
		// record that was transplanted
		vxAssert("legacy format: accepted record is some record this barrier wrote (own value or transplanted value)", isV1 || vxSameBytes(got.Value, v2))
	}
	if vxSameBytes(forged, rec2) && !vxSameBytes(v1, v2) && version == AESGCMVersion2 {
		vxAssert("unreachable: current-format transplant accepted", false)
	}
}

// explicit transplant, current format: moving k2's record under k1 must fail
func VxTransplant() {
	ctx := context.Background()
	phys := vxNewPhys()
	b, _, _ := vxBarrier(phys, AESGCMVersion2, 7)
	v1 := vxBytes("v1", 2)
	v2 := vxBytes("v2", 2)
	k1 := vxString("k1", 2)
	k2 := vxString("k2", 2)
	vxAssume(k1 != k2)
	vxAssert("puts succeed", b.Put(ctx, &logical.StorageEntry{Key: k1, Value: v1}) == nil && b.Put(ctx, &logical.StorageEntry{Key: k2, Value: v2}) == nil)
	phys.vals[0] = append([]byte(nil), phys.vals[1]...)
	got, err := b.Get(ctx, k1)
	vxReach("transplant")
	vxAssert("current format: record transplanted from another key is rejected", err != nil && got == nil)
}

// a ciphertext sealed through the BarrierEncryptor under ANY key name - including the empty name used for batch
// tokens, whose ciphertexts are handed to clients - is never accepted as the stored record of a (different) storage key
func VxEncryptorBlobAsRecord() {
	ctx := context.Background()
	phys := vxNewPhys()
	b, _, _ := vxBarrier(phys, AESGCMVersion2, 7)
	name := vxString("encryptor key name", vxChoose("nameLen", 3))
	blob, err := b.Encrypt(ctx, name, vxBytes("token", 2))
	vxAssert("encrypt ok", err == nil)
	k := vxString("k", 1+vxChoose("kLen", 2))
	vxAssume(k != name)
	v := vxBytes("v", 2)
	vxAssert("put ok", b.Put(ctx, &logical.StorageEntry{Key: k, Value: v}) == nil)
	phys.vals[0] = append([]byte(nil), blob...)
	got, gerr := b.Get(ctx, k)
	vxReach("encryptor blob installed as record")
	vxAssert("a BarrierEncryptor ciphertext installed under a storage key is rejected", gerr != nil && got == nil)
}

// long storage keys (nested KV paths are routinely longer than 100 bytes): two keys that agree on a long common
// prefix and differ only in their tail are still bound separately - the WHOLE key is authenticated, whatever its
// length; lengths around powers of two are included because fixed-size buffers live there
func VxTransplantLongKeys() {
	ctx := context.Background()
	phys := vxNewPhys()
	b, _, _ := vxBarrier(phys, AESGCMVersion2, 7)
	n := []int{31, 63, 64, 127, 128, 129, 255, 256, 300}[vxChoose("common prefix length", 9)]
	pfx := make([]byte, n)
	for i := range pfx {
		pfx[i] = 'k'
	}
	k1 := string(pfx) + vxString("tail 1", 1+vxChoose("tail length", 2))
	k2 := string(pfx) + vxString("tail 2", 1+vxChoose("tail length 2", 2))
	vxAssume(k1 != k2)
	v1, v2 := vxBytes("v1", 1), vxBytes("v2", 1)
	vxAssert("puts succeed", b.Put(ctx, &logical.StorageEntry{Key: k1, Value: v1}) == nil && b.Put(ctx, &logical.StorageEntry{Key: k2, Value: v2}) == nil)
	e, err := b.Get(ctx, k1)
	vxAssert("long key round trip", err == nil && e != nil && vxSameBytes(e.Value, v1))
	phys.vals[0] = append([]byte(nil), phys.vals[1]...)
	got, gerr := b.Get(ctx, k1)
	vxReach("long key transplant")
	vxAssert("a record moved between two long keys that share a long prefix is rejected", gerr != nil && got == nil)
}

// Encrypt/Decrypt (BarrierEncryptor) round trip and binding
func VxEncryptDecrypt() {
	ctx := context.Background()
	b, _, _ := vxBarrier(vxNewPhys(), AESGCMVersion2, 3)
	pt := vxBytes("pt", vxChoose("ptLen", 3))
	key := vxString("key", vxChoose("keyLen", 3)) // includes the empty key name (how batch tokens are sealed)
	ct, err := b.Encrypt(ctx, key, pt)
	vxAssert("encrypt ok", err == nil && len(ct) == len(pt)+33)
	out, err := b.Decrypt(ctx, key, ct)
	vxAssert("decrypt(encrypt(x)) = x", err == nil && vxSameBytes(out, pt))
	other := vxString("other", vxChoose("otherLen", 3))
	if other != key {
		vxReach("decrypt: other key")
		_, err = b.Decrypt(ctx, other, ct)
		vxAssert("decrypt under a different key name fails", err != nil)
	}
	short := vxBytes("short", vxChoose("shortLen", 6))
	var perr error
	panicked := vxCatch(func() { _, perr = b.Decrypt(ctx, key, short) })
	vxAssert("short / garbage ciphertext is rejected without panic", !panicked && perr != nil)
}

// records written under an earlier key term stay readable after rotation (the term in the record header selects the
// key); new writes use the active term
func VxOldTermReadable() {
	ctx := context.Background()
	phys := vxNewPhys()
	version := vxVersion()
	term := vxU32("term")
	vxAssume(term >= 2)
	b, cur, old := vxBarrier(phys, version, term)
	val := vxBytes("value", 2)
	b.keyring.activeTerm = term - 1 // before rotation
	vxAssert("put under the old term", b.Put(ctx, &logical.StorageEntry{Key: "k", Value: val}) == nil)
	vxAssert("sealed with the old term's key", vxSameBytes(vxSeals[0].key, old.key))
	b.keyring.activeTerm = term // after rotation
	got, err := b.Get(ctx, "k")
	vxReach("old term record read after rotation")
	vxAssert("old-term record is still readable after rotation", err == nil && got != nil && vxSameBytes(got.Value, val))
	vxAssert("new write uses the new term", b.Put(ctx, &logical.StorageEntry{Key: "k2", Value: val}) == nil && vxSameBytes(vxSeals[1].key, cur.key))
	rec := phys.vals[1]
	vxAssert("new record carries the new term", rec[0] == byte(term>>24) && rec[1] == byte(term>>16) && rec[2] == byte(term>>8) && rec[3] == byte(term))
	// a record naming a term the keyring does not have is refused
	phys.vals[0][3] ^= 0x40
	phys.vals[0][0] ^= 0x40
	_, err = b.Get(ctx, "k")
	vxAssert("unknown term is refused", err != nil)
}

// a store initialised by a legacy-format barrier and then unsealed by the current barrier: everything the current
// barrier writes from then on is key-bound (a record moved under another key is rejected)
func VxLegacyStoreNewWritesAreKeyBound() {
	ctx := context.Background()
	phys, root, _ := vxInitStore(true)
	b := vxNewBarrier(phys)
	vxAssert("unseal ok", b.Unseal(ctx, root) == nil)
	v1, v2 := vxBytes("v1", 2), vxBytes("v2", 2)
	vxAssert("puts ok", b.Put(ctx, &logical.StorageEntry{Key: "secret/x", Value: v1}) == nil && b.Put(ctx, &logical.StorageEntry{Key: "secret/y", Value: v2}) == nil)
	ix, iy := phys.find("secret/x"), phys.find("secret/y")
	vxAssert("new records carry the current format byte", phys.vals[ix][4] == AESGCMVersion2 && phys.vals[iy][4] == AESGCMVersion2)
	phys.vals[ix] = append([]byte(nil), phys.vals[iy]...)
	got, err := b.Get(ctx, "secret/x")
	vxReach("legacy store: transplant attempted")
	vxAssert("legacy store, new write: transplanted record is rejected", err != nil && got == nil)
}
