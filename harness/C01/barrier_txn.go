package barrier

// C01 / C10 — the transactional path of the barrier: records written through a barrier transaction are the same
// authenticated, key-bound ciphertext as direct writes; a transaction reads its own writes and the snapshot it began
// with; nothing is visible outside before commit and everything is after; a transaction that was begun BEFORE the
// barrier was sealed serves nothing afterwards (no read, write, list or delete) and a sealed barrier begins none that
// serve.
//
//vx:pkg github.com/openbao/openbao/v2/internal/vault/barrier
//vx:include ../common/barrier_models.go
//vx:include barrier.go
//vx:assume (this file) the physical backend under the barrier offers snapshot transactions (copy at begin, swap in at commit); ideal AEAD as in barrier.go
//vx:bodies context,encoding/binary,crypto/subtle,github.com/openbao/openbao/v2/internal/helper/namespace
//vx:param keyLen quick=2 thorough=4
//vx:param valLen quick=2 thorough=5
//vx:param recExtra quick=2 thorough=6
//vx:unwind 400

import (
	"context"

	"github.com/openbao/openbao/sdk/v2/logical"
	"github.com/openbao/openbao/sdk/v2/physical"
)

type vxTxPhys struct{ *vxPhys }
type vxPhysTxn struct {
	*vxPhys
	parent *vxPhys
	done   bool
}

func (p vxTxPhys) BeginTx(ctx context.Context) (physical.Transaction, error) {
	c := vxNewPhys()
	c.keys = append([]string(nil), p.keys...)
	for _, v := range p.vals {
		c.vals = append(c.vals, append([]byte(nil), v...))
	}
	return &vxPhysTxn{vxPhys: c, parent: p.vxPhys}, nil
}
func (p vxTxPhys) BeginReadOnlyTx(ctx context.Context) (physical.Transaction, error) {
	return p.BeginTx(ctx)
}
func (t *vxPhysTxn) Commit(ctx context.Context) error {
	if t.done {
		return physical.ErrTransactionAlreadyCommitted
	}
	t.done = true
	t.parent.keys, t.parent.vals = t.keys, t.vals
	return nil
}
func (t *vxPhysTxn) Rollback(ctx context.Context) error { t.done = true; return nil }

func VxTxnPutGet() {
	ctx := context.Background()
	phys := vxNewPhys()
	version := vxVersion()
	term := vxU32("term")
	vxAssume(term >= 1)
	inner, cur, _ := vxBarrier(vxTxPhys{phys}, version, term)
	b := &TransactionalAESGCMBarrier{inner}
	key := "k/" + vxString("key", vxChoose("keyLen", vxParam("keyLen")+1))
	val := vxBytes("value", vxChoose("valLen", vxParam("valLen")+1))
	old := vxBytes("earlier value", 1)
	vxAssert("earlier direct write ok", b.Put(ctx, &logical.StorageEntry{Key: "k/old", Value: old}) == nil)
	nSeals := len(vxSeals)

	tx, err := b.BeginTx(ctx)
	vxAssert("begin ok", err == nil && tx != nil)
	vxAssert("put inside the transaction ok", tx.Put(ctx, &logical.StorageEntry{Key: key, Value: val}) == nil)
	vxAssert("exactly one more AEAD seal, under the active term's key, of exactly the value", len(vxSeals) == nSeals+1 && vxSameBytes(vxSeals[nSeals].key, cur.key) && vxSameBytes(vxSeals[nSeals].pt, val))
	if version == AESGCMVersion2 {
		vxAssert("current format binds the storage key as additional data (transactional path)", vxSeals[nSeals].hasAAD && string(vxSeals[nSeals].aad) == key)
	}
	got, gerr := tx.Get(ctx, key)
	vxAssert("the transaction reads its own write", gerr == nil && got != nil && vxSameBytes(got.Value, val))
	got, gerr = tx.Get(ctx, "k/old")
	vxAssert("the transaction reads what was there when it began", gerr == nil && got != nil && vxSameBytes(got.Value, old))
	if key != "k/old" {
		out, oerr := b.Get(ctx, key)
		vxAssert("nothing is visible outside the transaction before commit", oerr == nil && out == nil)
		vxAssert("the physical store holds no record of it before commit", phys.find(key) < 0)
	}
	if vxBool("rolled back instead of committed") {
		vxAssert("rollback ok", tx.Rollback(ctx) == nil)
		vxReach("txn: rolled back")
		if key != "k/old" {
			out, oerr := b.Get(ctx, key)
			vxAssert("a rolled-back write never becomes visible", oerr == nil && out == nil)
		}
		return
	}
	vxAssert("commit ok", tx.Commit(ctx) == nil)
	vxReach("txn: committed")
	i := phys.find(key)
	vxAssert("after commit the physical store holds the record", i >= 0)
	rec := phys.vals[i]
	vxAssert("record = term | version | AEAD output, nothing else", len(rec) == 5+28+len(val) && rec[3] == byte(term) && rec[4] == version && vxSameBytes(rec[5:], vxSeals[nSeals].ct))
	out, oerr := b.Get(ctx, key)
	vxAssert("after commit the barrier returns exactly the value written", oerr == nil && out != nil && vxSameBytes(out.Value, val))
}

// a transaction begun before Seal serves nothing after it
func VxTxnAfterSeal() {
	ctx := context.Background()
	phys := vxNewPhys()
	inner, _, _ := vxBarrier(vxTxPhys{phys}, AESGCMVersion2, 2)
	b := &TransactionalAESGCMBarrier{inner}
	vxAssert("write ok", b.Put(ctx, &logical.StorageEntry{Key: "secret/a", Value: []byte{7}}) == nil)
	var tx logical.Transaction
	var err error
	beforeSeal := vxBool("transaction begun before the seal")
	if beforeSeal {
		tx, err = b.BeginTx(ctx)
		vxAssert("begin ok", err == nil)
	}
	vxAssert("seal ok", b.Seal() == nil)
	if !beforeSeal {
		tx, err = b.BeginTx(ctx)
		if err != nil { // refusing to begin is fine too
			return
		}
	}
	vxReach("sealed: transaction handle alive")
	calls := phys.calls
	e, gerr := tx.Get(ctx, "secret/a")
	vxAssert("a sealed barrier serves no read through a transaction", gerr == ErrBarrierSealed && e == nil)
	vxAssert("a sealed barrier serves no write through a transaction", tx.Put(ctx, &logical.StorageEntry{Key: "secret/b", Value: []byte{1}}) == ErrBarrierSealed)
	vxAssert("a sealed barrier serves no delete through a transaction", tx.Delete(ctx, "secret/a") == ErrBarrierSealed)
	_, lerr := tx.List(ctx, "secret/")
	vxAssert("a sealed barrier serves no list through a transaction", lerr == ErrBarrierSealed)
	vxAssert("and does not touch storage", phys.calls == calls)
}
