package vault

// C01 (f) — the raw storage endpoint never writes plaintext below the barrier: the real RawBackend.storageByPath +
// NamespaceByStoragePath, for raw paths = a base path (seal configuration, recovery configuration, keyring, root key,
// an ordinary key; in the root namespace, in an existing and in a deleted namespace) followed by ALL tails up to the
// bound: the storage handed out bypasses the barrier (direct physical access) ONLY for exactly core/seal-config and
// exactly core/recovery-config of the root namespace or of a namespace UUID that no longer exists (records that are
// plaintext by design); protected paths
// are refused; everything else - in particular every path that merely starts with one of those two - goes through a
// barrier, and a write through the returned storage reaches the physical layer only through that barrier.
//
//vx:pkg github.com/openbao/openbao/v2/internal/vault
//vx:assume (this file) barriers and the physical backend are recording stubs; namespace lookup by UUID knows one namespace ("u1"); the seal manager returns the namespace's own barrier
//vx:bodies strings,internal/stringslite,context,github.com/openbao/openbao/v2/internal/helper/namespace
//vx:redirect (*github.com/openbao/openbao/v2/internal/vault.NamespaceStore).GetNamespace vxRawGetNamespace
//vx:redirect (*github.com/openbao/openbao/v2/internal/vault.SealManager).NamespaceBarrierByLongestPrefix vxRawNSBarrier
//vx:param tail quick=2 thorough=3
//vx:unwind 300

import (
	"context"

	"github.com/openbao/openbao/sdk/v2/logical"
	"github.com/openbao/openbao/sdk/v2/physical"
	"github.com/openbao/openbao/v2/internal/helper/namespace"
	"github.com/openbao/openbao/v2/internal/vault/barrier"
)

type vxRawPhys struct {
	physical.Backend
	puts []string
}

func (p *vxRawPhys) Put(ctx context.Context, e *physical.Entry) error {
	p.puts = append(p.puts, e.Key)
	return nil
}

type vxRawBarrier struct {
	barrier.SecurityBarrier
	name string
	puts []string
}

func (b *vxRawBarrier) Put(ctx context.Context, e *logical.StorageEntry) error {
	b.puts = append(b.puts, e.Key)
	return nil
}

var (
	vxRawN1         = &namespace.Namespace{ID: "n1", UUID: "u1", Path: "n1/"}
	vxRawNSBarrierV = &vxRawBarrier{name: "n1"}
	vxRawParentB    = &vxRawBarrier{name: "parent-of-n1"}
)

func vxRawGetNamespace(s *NamespaceStore, ctx context.Context, uuid string) (*namespace.Namespace, error) {
	if uuid == "u1" {
		return vxRawN1, nil
	}
	return nil, nil
}
func vxRawNSBarrier(sm *SealManager, path string) barrier.SecurityBarrier {
	if path == "n1/" {
		return vxRawNSBarrierV
	}
	return vxRawParentB
}

func VxRawStorageByPath() {
	ctx := namespace.RootContext(context.Background())
	phys := &vxRawPhys{}
	rootB := &vxRawBarrier{name: "root"}
	vxRawNSBarrierV.puts, vxRawParentB.puts = nil, nil
	c := &Core{physical: phys, barrier: rootB, namespaceStore: &NamespaceStore{}, sealManager: &SealManager{}}
	b := &RawBackend{core: c}
	bases := []string{"core/seal-config", "core/recovery-config", "core/keyring", "core/master", "logical/x",
		"namespaces/u1/core/seal-config", "namespaces/u1/logical/x", "namespaces/gone/core/seal-config", "core/seal-confi"}
	base := bases[vxChoose("base path", len(bases))]
	tail := vxBytes("tail", vxChoose("tail length", vxParam("tail")+1))
	path := base + string(tail)
	st, _, err := b.storageByPath(ctx, path)
	if err != nil {
		vxReach("raw: refused")
		vxAssert("only protected paths (keyring, cluster info) are refused", len(path) >= len("core/keyring") && (path[:len("core/keyring")] == "core/keyring" || vxContains(path, "core/keyring") || vxContains(path, "core/cluster/local/info")))
		return
	}
	vxAssert("a storage is handed out", st != nil)
	vxAssert("raw write ok", st.Put(ctx, path, []byte("canary")) == nil)
	direct := len(phys.puts) > 0
	// seal / recovery configuration records are plaintext by design; the code serves them directly for the root
	// namespace and (its "fast path") for a namespace UUID that no longer exists - observation: a raw write to
	// namespaces/<unknown uuid>/core/seal-config therefore lands unencrypted; it is a seal-configuration record by
	// path, so it is inside the property's fixed set and not asserted against
	plaintextByDesign := path == "core/seal-config" || path == "core/recovery-config" ||
		path == "namespaces/gone/core/seal-config"
	if direct {
		vxReach("raw: direct physical access")
		vxAssert("direct (unencrypted) physical access is handed out ONLY for exactly the seal / recovery configuration record (root or vanished namespace)", plaintextByDesign)
		vxAssert("and writes exactly that key", len(phys.puts) == 1 && phys.puts[0] == path)
	} else {
		vxReach("raw: through a barrier")
		vxAssert("the two plaintext-by-design records are served directly", !plaintextByDesign)
		n := len(rootB.puts) + len(vxRawNSBarrierV.puts) + len(vxRawParentB.puts)
		vxAssert("every other raw write goes through exactly one barrier", n == 1)
	}
}

func vxContains(s, sub string) bool {
	for i := 0; i+len(sub) <= len(s); i++ {
		if s[i:i+len(sub)] == sub {
			return true
		}
	}
	return false
}
