package vault

// C01 (e) — nothing is written beneath the barrier in the clear: census of every function in internal/vault/...
// (outside the barrier package itself) that calls Put or Delete on a physical.Backend-typed value, i.e. that can
// write to storage WITHOUT going through the barrier. The set of such functions must be exactly the committed
// allow-list (seal configuration, stored (encrypted) unseal keys, raft bootstrap, HA lock helpers, migration): a new
// direct physical write elsewhere is reported. This is an SSA enumeration over the packages loaded from source, not a
// solver query.
//
//vx:pkg github.com/openbao/openbao/v2/internal/vault
//vx:bodies github.com/openbao/openbao/v2/internal/vault/...
//vx:census github.com/openbao/openbao/v2/internal/vault physical_writes.allow github.com/openbao/openbao/v2/internal/vault/barrier
//vx:assume the census sees direct calls and interface invokes whose receiver's static type is declared in sdk/physical; writes through reflection, unsafe or function values of other types are invisible to it
