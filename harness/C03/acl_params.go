package policy

// C03 / C02 — parameter constraints of policies (allowed_parameters, denied_parameters, required_parameters): the
// real NewACL merge and the real AllowOperation parameter evaluation agree with the documented semantics for every
// combination of per-policy parameter rules on one path and ALL request parameter values; building an ACL never
// modifies the policy objects it was built from (they are shared, cached objects: a later token holding only one of
// them must get exactly that policy's constraints).
//
//vx:pkg github.com/openbao/openbao/v2/internal/vault/policy
//vx:assume policies are given as parsed PathRules (HCL parsing is outside); copystructure.Copy of a parameter map is a deep copy; the request carries at most two parameters (ttl, x) with string values over a 3-letter alphabet up to 2 bytes
//vx:bodies strings,internal/stringslite,sort,slices,github.com/armon/go-radix,github.com/openbao/openbao/v2/internal/helper/namespace,github.com/hashicorp/go-secure-stdlib/strutil,github.com/ryanuber/go-glob,math/bits
//vx:redirect (*github.com/openbao/openbao/v2/internal/vault/policy.ControlGroup).Clone vxPCGClone
//vx:redirect github.com/openbao/openbao/v2/internal/vault/policy.addGrantingPoliciesToMap vxPGranting
//vx:redirect github.com/mitchellh/copystructure.Copy vxPDeepCopy
//vx:redirect github.com/hashicorp/go-secure-stdlib/parseutil.SafeParseInt vxPParseInt
//vx:unwind 400

import (
	"context"

	"github.com/openbao/openbao/sdk/v2/logical"
	"github.com/openbao/openbao/v2/internal/helper/namespace"
)

func vxPCGClone(cg *ControlGroup) (*ControlGroup, error) { return nil, nil }

// the request's limit is an integer or a string that is not a number ("max")
func vxPParseInt(in any) (int, error) {
	if v, ok := in.(int); ok {
		return v, nil
	}
	return 0, vxErr("not an integer")
}
func vxPGranting(m map[uint32][]logical.PolicyInfo, p *Policy, bm uint32) map[uint32][]logical.PolicyInfo {
	return m
}

func vxPDeepCopy(v any) (any, error) {
	switch m := v.(type) {
	case map[string][]any:
		out := make(map[string][]any, len(m))
		for k, vs := range m {
			out[k] = append([]any{}, vs...)
		}
		return out, nil
	}
	return nil, vxErr("harness: unexpected type handed to copystructure.Copy")
}

// per-policy parameter rule shapes for parameter "ttl" (values are the concrete strings "aa" / "bb")
// 0: none   1: allowed ttl=[own value]   2: allowed ttl=[] (any value)   3: allowed *   4: denied ttl=[own value]
// 5: denied x (any value)   6: required ttl
func vxPRule(kind int, own string) *PathRules {
	pc := &PathRules{Path: "kv/a", Permissions: &ACLPermissions{CapabilitiesBitmap: UpdateCapabilityInt}}
	switch kind {
	case 1:
		pc.Permissions.AllowedParameters = map[string][]any{"ttl": {own}}
	case 2:
		pc.Permissions.AllowedParameters = map[string][]any{"ttl": {}}
	case 3:
		pc.Permissions.AllowedParameters = map[string][]any{"*": {}}
	case 4:
		pc.Permissions.DeniedParameters = map[string][]any{"ttl": {own}}
	case 5:
		pc.Permissions.DeniedParameters = map[string][]any{"x": {}}
	case 6:
		pc.Permissions.RequiredParameters = []string{"ttl"}
	}
	return pc
}

func vxPPolicy(name string, kind int, own string) *Policy {
	return &Policy{Name: name, Type: TypeACL, Namespace: namespace.RootNamespace, Paths: []*PathRules{vxPRule(kind, own)}}
}

// documented semantics of a set of (kind, own) rules merged on one path, for a request with the given parameters
func vxPWant(kinds []int, owns []string, hasTTL bool, ttl string, hasX bool) bool {
	// required
	for _, k := range kinds {
		if k == 6 && !hasTTL {
			return false
		}
	}
	if !hasTTL && !hasX {
		return true // no data fields: allowed
	}
	// denied
	for i, k := range kinds {
		if k == 5 && hasX {
			return false
		}
		if k == 4 && hasTTL {
			// union of denied values; an empty list would deny every value (not generated here)
			if ttl == owns[i] {
				return false
			}
		}
	}
	// allowed
	anyAllowed, allowAll, ttlAny := false, false, false
	var ttlVals []string
	ttlListed := false
	for i, k := range kinds {
		switch k {
		case 1:
			anyAllowed, ttlListed = true, true
			ttlVals = append(ttlVals, owns[i])
		case 2:
			anyAllowed, ttlListed, ttlAny = true, true, true
		case 3:
			anyAllowed, allowAll = true, true
		}
	}
	if !anyAllowed {
		return true
	}
	if allowAll && !ttlListed {
		return true
	}
	if hasX && !allowAll {
		return false // x is not on any allowed list
	}
	if hasTTL {
		if !ttlListed {
			return allowAll
		}
		if ttlAny {
			return true
		}
		for _, v := range ttlVals {
			if v == ttl {
				return true
			}
		}
		return false
	}
	return true
}

func vxPAllowed(acl *ACL, data map[string]any) bool {
	req := &logical.Request{Operation: logical.UpdateOperation, Path: "kv/a", Data: data}
	return acl.AllowOperation(namespace.RootContext(context.Background()), req, false).Allowed
}

func vxPData(hasTTL bool, ttl string, hasX bool) map[string]any {
	d := map[string]any{}
	if hasTTL {
		d["ttl"] = ttl
	}
	if hasX {
		d["x"] = "1"
	}
	return d
}

func vxPValue(tag string) string {
	b := vxBytes(tag, vxChoose(tag+" length", 3))
	for _, c := range b {
		vxAssume(c == 'a' || c == 'b' || c == 'c')
	}
	return string(b)
}

func VxParameterRules() {
	ctx := namespace.RootContext(context.Background())
	n := 1 + vxChoose("number of policies on the path", 3)
	owns := []string{"aa", "bb", "aa"}[:n]
	kinds := make([]int, n)
	var pols []*Policy
	for i := 0; i < n; i++ {
		kinds[i] = vxChoose("parameter rule of policy", 7)
		pols = append(pols, vxPPolicy([]string{"p1", "p2", "p3"}[i], kinds[i], owns[i]))
	}
	acl, err := NewACL(ctx, pols)
	vxAssert("acl builds", err == nil)
	hasTTL, hasX := vxBool("request sets ttl"), vxBool("request sets x")
	ttl := vxPValue("ttl value")
	got := vxPAllowed(acl, vxPData(hasTTL, ttl, hasX))
	want := vxPWant(kinds, owns, hasTTL, ttl, hasX)
	if got {
		vxReach("params: allowed")
	} else {
		vxReach("params: denied")
	}
	vxAssert("the parameter decision equals the documented merge of the policies' parameter rules", got == want)

	// the policies are shared objects: a token holding only ONE of them gets exactly that policy's constraints,
	// whatever ACLs were built from it before
	k := vxChoose("policy held alone by another token", n)
	alone, err2 := NewACL(ctx, []*Policy{pols[k]})
	vxAssert("second acl builds", err2 == nil)
	got1 := vxPAllowed(alone, vxPData(hasTTL, ttl, hasX))
	want1 := vxPWant([]int{kinds[k]}, []string{owns[k]}, hasTTL, ttl, hasX)
	vxAssert("a token holding one policy alone gets that policy's own parameter constraints (policies are not modified by building ACLs)", got1 == want1)
	// and structurally: the policy's own lists are what they were
	p := pols[k].Paths[0].Permissions
	switch kinds[k] {
	case 1:
		vxAssert("allowed list of the policy object is untouched", len(p.AllowedParameters) == 1 && len(p.AllowedParameters["ttl"]) == 1 && p.AllowedParameters["ttl"][0] == owns[k])
	case 4:
		vxAssert("denied list of the policy object is untouched", len(p.DeniedParameters) == 1 && len(p.DeniedParameters["ttl"]) == 1 && p.DeniedParameters["ttl"][0] == owns[k])
	case 6:
		vxAssert("required list of the policy object is untouched", len(p.RequiredParameters) == 1)
	}
}

// pagination limits: the lowest positive pagination_limit among the policies naming a path wins (0 = unlimited),
// independent of policy order; a list request asking for more is denied, an absent / zero / "max" limit is clamped
func VxPaginationLimit() {
	ctx := namespace.RootContext(context.Background())
	n := 1 + vxChoose("number of policies on the path", 3)
	choices := []int{0, 3, 7}
	var pols []*Policy
	eff := 0
	for i := 0; i < n; i++ {
		l := choices[vxChoose("pagination_limit of policy(0,3,7)", 3)]
		if l > 0 && (eff == 0 || l < eff) {
			eff = l
		}
		pc := &PathRules{Path: "kv/a", Permissions: &ACLPermissions{CapabilitiesBitmap: ListCapabilityInt, PaginationLimit: l}}
		pols = append(pols, &Policy{Name: []string{"p1", "p2", "p3"}[i], Type: TypeACL, Namespace: namespace.RootNamespace, Paths: []*PathRules{pc}})
	}
	acl, err := NewACL(ctx, pols)
	vxAssert("acl builds", err == nil)
	data := map[string]any{}
	kind := vxChoose("request limit(absent,integer,max)", 3)
	v := vxInt("requested limit")
	vxAssume(v >= -2 && v <= 10)
	switch kind {
	case 1:
		data["limit"] = v
	case 2:
		data["limit"] = "max"
	}
	req := &logical.Request{Operation: logical.ListOperation, Path: "kv/a", Data: data}
	got := acl.AllowOperation(ctx, req, false).Allowed
	want := true
	if eff > 0 && kind == 1 && (v > eff || v < 0) {
		want = false
	}
	if got {
		vxReach("pagination: allowed")
	} else {
		vxReach("pagination: denied")
	}
	vxAssert("a list is allowed iff its limit does not exceed the lowest positive pagination_limit of the policies (any merge order)", got == want)
	if got && eff > 0 && (kind != 1 || v == 0) {
		vxAssert("an absent, zero or 'max' limit is clamped to the effective pagination limit", req.Data["limit"] == []string{"0", "1", "2", "3", "4", "5", "6", "7"}[eff])
	}
}
