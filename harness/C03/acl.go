package policy

// C03 — ACL decisions equal the documented semantics (website/content/docs/concepts/policies.mdx):
// default deny; exact match first; list/scan trailing-slash forms; otherwise the highest-priority matching
// glob/wildcard pattern by the documented 5-rule order; same pattern in several policies = union of capabilities,
// deny wins; independent of policy order; Capabilities() agrees.
//
//vx:pkg github.com/openbao/openbao/v2/internal/vault/policy
//vx:bodies strings,internal/stringslite,sort,slices,github.com/armon/go-radix,github.com/openbao/openbao/v2/internal/helper/namespace,github.com/hashicorp/go-secure-stdlib/strutil,github.com/ryanuber/go-glob,math/bits
//vx:redirect (*github.com/openbao/openbao/v2/internal/vault/policy.ControlGroup).Clone vxCGClone
//vx:redirect github.com/openbao/openbao/v2/internal/vault/policy.addGrantingPoliciesToMap vxGranting
//vx:unwind 400
//vx:param pathLen quick=4 thorough=5
//vx:param nrules quick=2 thorough=2
//vx:maxpaths quick=0 thorough=0

import (
	"context"
	"time"

	"github.com/openbao/openbao/sdk/v2/logical"
	"github.com/openbao/openbao/v2/internal/helper/namespace"
)

func vxCGClone(cg *ControlGroup) (*ControlGroup, error) { return nil, nil }

// granting-policy bookkeeping is informational (audit); not part of the decision
func vxGranting(m map[uint32][]logical.PolicyInfo, p *Policy, bm uint32) map[uint32][]logical.PolicyInfo {
	return m
}

// ---- pattern pool (literal segments a,b; '+' segments; optional trailing '*') ----

var vxPool = []string{
	"a", "b", "a/b", "a/b/a", "a/", "a/b/",
	"*", "a*", "a/*", "a/b*", "a/b/*", "a/b/a*", "b*",
	"+", "+/b", "a/+", "+/+", "a/+/a", "+/b/a", "+/+/a", "+/b/+", "a/+/+", "a/b/+", "+/+/+", "+/", "a/+/",
	"+/*", "a/+/*", "+/b*", "a/+/a*", "+/+/a*", "+/b/*", "+/+/*",
}

// the three derived fields of a parsed path stanza (policy.go: parsePaths)
func vxMkRule(pattern string, caps uint32) *PathRules {
	pc := &PathRules{Path: pattern, Permissions: &ACLPermissions{CapabilitiesBitmap: caps}}
	if pattern == "+" || vxContains(pattern, "/+") || (len(pattern) >= 2 && pattern[:2] == "+/") {
		pc.HasSegmentWildcards = true
	}
	if len(pattern) > 0 && pattern[len(pattern)-1] == '*' && !pc.HasSegmentWildcards {
		pc.Path = pattern[:len(pattern)-1]
		pc.IsPrefix = true
	}
	return pc
}

func vxContains(s, sub string) bool {
	for i := 0; i+len(sub) <= len(s); i++ {
		if s[i:i+len(sub)] == sub {
			return true
		}
	}
	return false
}

// ---- reference semantics, written from the documentation ----

func vxSplit(s string) []string {
	var out []string
	start := 0
	for i := 0; i <= len(s); i++ {
		if i == len(s) || s[i] == '/' {
			out = append(out, s[start:i])
			start = i + 1
		}
	}
	return out
}

func vxIsExactPattern(p string) bool {
	if len(p) > 0 && p[len(p)-1] == '*' {
		return false
	}
	for _, seg := range vxSplit(p) {
		if seg == "+" {
			return false
		}
	}
	return true
}

// does a glob/wildcard pattern match the path?
func vxMatches(pat, path string) bool {
	glob := len(pat) > 0 && pat[len(pat)-1] == '*'
	if glob {
		pat = pat[:len(pat)-1]
	}
	pp, sp := vxSplit(pat), vxSplit(path)
	if !glob {
		if len(pp) != len(sp) {
			return false
		}
		for i := range pp {
			if pp[i] != "+" && pp[i] != sp[i] {
				return false
			}
		}
		return true
	}
	if len(sp) < len(pp) {
		return false
	}
	last := len(pp) - 1
	for i := 0; i < last; i++ {
		if pp[i] != "+" && pp[i] != sp[i] {
			return false
		}
	}
	l := pp[last]
	return len(sp[last]) >= len(l) && sp[last][:len(l)] == l
}

// documented priority: is P1 lower priority than P2?
func vxLower(p1, p2 string) bool {
	first := func(p string) int {
		segStart := 0
		for i := 0; i < len(p); i++ {
			if p[i] == '*' && i == len(p)-1 {
				return i
			}
			if p[i] == '+' && i == segStart && (i+1 == len(p) || p[i+1] == '/') {
				return i
			}
			if p[i] == '/' {
				segStart = i + 1
			}
		}
		return len(p)
	}
	glob := func(p string) bool { return len(p) > 0 && p[len(p)-1] == '*' }
	plus := func(p string) int {
		n := 0
		q := p
		if glob(q) {
			q = q[:len(q)-1]
		}
		for _, s := range vxSplit(q) {
			if s == "+" {
				n++
			}
		}
		return n
	}
	if first(p1) != first(p2) {
		return first(p1) < first(p2)
	}
	if glob(p1) != glob(p2) {
		return glob(p1)
	}
	if plus(p1) != plus(p2) {
		return plus(p1) > plus(p2)
	}
	if len(p1) != len(p2) {
		return len(p1) < len(p2)
	}
	return p1 < p2
}

type vxRule struct {
	pattern string
	caps    uint32
}

// merge rules that name the same pattern: union, deny wins
func vxMerged(rules []vxRule, pattern string) uint32 {
	var caps uint32
	deny := false
	for _, r := range rules {
		if r.pattern == pattern {
			caps |= r.caps
			if r.caps&DenyCapabilityInt != 0 {
				deny = true
			}
		}
	}
	if deny {
		return DenyCapabilityInt
	}
	return caps
}

func vxBestNonExact(rules []vxRule, path string) (string, bool) {
	best, found := "", false
	for _, r := range rules {
		if vxIsExactPattern(r.pattern) || !vxMatches(r.pattern, path) {
			continue
		}
		if !found || vxLower(best, r.pattern) {
			best, found = r.pattern, true
		}
	}
	return best, found
}

func vxHasExact(rules []vxRule, path string) bool {
	for _, r := range rules {
		if vxIsExactPattern(r.pattern) && r.pattern == path {
			return true
		}
	}
	return false
}

// the capability bitmap that decides (matched=false: default deny)
func vxRefDecide(rules []vxRule, path string, listLike bool) (uint32, bool) {
	for len(path) > 0 && path[0] == '/' {
		path = path[1:]
	}
	trimmed := path
	if len(path) > 0 && path[len(path)-1] == '/' {
		trimmed = path[:len(path)-1]
	}
	if vxHasExact(rules, path) {
		return vxMerged(rules, path), true
	}
	if listLike && vxHasExact(rules, trimmed) {
		return vxMerged(rules, trimmed), true
	}
	if p, ok := vxBestNonExact(rules, path); ok {
		return vxMerged(rules, p), true
	}
	if listLike && trimmed != path {
		if p, ok := vxBestNonExact(rules, trimmed); ok {
			return vxMerged(rules, p), true
		}
	}
	return 0, false
}

var vxOps = []logical.Operation{logical.ReadOperation, logical.ListOperation, logical.UpdateOperation, logical.DeleteOperation,
	logical.CreateOperation, logical.PatchOperation, logical.ScanOperation, logical.RenewOperation, logical.RevokeOperation, logical.RollbackOperation}

func vxOpBit(op logical.Operation) uint32 {
	switch op {
	case logical.ReadOperation:
		return ReadCapabilityInt
	case logical.ListOperation:
		return ListCapabilityInt
	case logical.DeleteOperation:
		return DeleteCapabilityInt
	case logical.CreateOperation:
		return CreateCapabilityInt
	case logical.PatchOperation:
		return PatchCapabilityInt
	case logical.ScanOperation:
		return ScanCapabilityInt
	}
	return UpdateCapabilityInt // update, renew, revoke, rollback
}

func vxCaps(tag string) uint32 {
	c := vxU32(tag) & 0x1ff
	if c&DenyCapabilityInt != 0 {
		c = DenyCapabilityInt // parser invariant: deny excludes everything else
	}
	return c
}

func vxBuild(ctx context.Context, rules []vxRule, order []int) *ACL {
	var pols []*Policy
	for _, i := range order {
		pols = append(pols, &Policy{Name: "p" + string(rune('0'+i)), Type: TypeACL, Namespace: namespace.RootNamespace,
			Paths: []*PathRules{vxMkRule(rules[i].pattern, rules[i].caps)}})
	}
	acl, err := NewACL(ctx, pols)
	vxAssert("NewACL accepts the policy set", err == nil && acl != nil)
	return acl
}

// Main obligation: for every pair/triple of pool patterns (one rule per policy), every capability bitmap,
// every request path (all byte strings up to pathLen) and every operation, decision == documented semantics,
// in both policy orders.
func VxDecision() {
	n := vxParam("nrules")
	var rules []vxRule
	prev := 0
	for k := 0; k < n; k++ {
		i := prev + vxChoose("pattern", len(vxPool)-prev)
		prev = i
		// concrete, distinguishable capability sets (the pattern that decides is visible in the result);
		// the bitmap algebra itself (union, deny wins, every bit) is decided symbolically in VxMerge
		var caps uint32
		switch vxChoose("caps", 3) {
		case 0:
			caps = []uint32{ReadCapabilityInt | ListCapabilityInt, UpdateCapabilityInt | ScanCapabilityInt, DeleteCapabilityInt | CreateCapabilityInt}[k]
		case 1:
			caps = []uint32{ReadCapabilityInt | SudoCapabilityInt, PatchCapabilityInt | ListCapabilityInt | SudoCapabilityInt, CreateCapabilityInt}[k]
		case 2:
			caps = DenyCapabilityInt
		}
		rules = append(rules, vxRule{pattern: vxPool[i], caps: caps})
	}
	ctx := namespace.RootContext(context.Background())
	path := vxString("path", vxChoose("pathLen", vxParam("pathLen")+1))

	fwd := make([]int, n)
	rev := make([]int, n)
	for k := 0; k < n; k++ {
		fwd[k], rev[k] = k, n-1-k
	}
	for pass, order := range [][]int{fwd, rev} {
		acl := vxBuild(ctx, rules, order)
		for _, op := range vxOps {
			listLike := op == logical.ListOperation || op == logical.ScanOperation
			want, matched := vxRefDecide(rules, path, listLike)
			wantAllowed := matched && want&DenyCapabilityInt == 0 && want&vxOpBit(op) != 0
			res := acl.AllowOperation(ctx, &logical.Request{Path: path, Operation: op}, false)
			if pass == 0 {
				if matched {
					vxReach("acl: some pattern decides")
				} else {
					vxReach("acl: default deny")
				}
				if wantAllowed {
					vxReach("acl: allowed")
				}
			}
			vxAssert("Allowed equals the documented decision", res.Allowed == wantAllowed)
			vxAssert("sudo is reported exactly when the deciding pattern grants it", res.RootPrivs == (matched && want&SudoCapabilityInt != 0))
			if op == logical.ReadOperation || op == logical.ListOperation {
				chk := acl.AllowOperation(ctx, &logical.Request{Path: path, Operation: op}, true)
				if matched {
					vxAssert("capability bitmap of the deciding pattern", chk.CapabilitiesBitmap == want)
				} else {
					vxAssert("no capabilities without a matching pattern", chk.CapabilitiesBitmap == 0 && !chk.Allowed)
				}
			}
		}
	}
}

// Tie-break rules 3-5 need literal segments of different lengths; those make symbolic request paths long, so this
// entry uses a richer pattern pool with a list of concrete request paths (pairs of patterns, both policy orders).
var vxPool2 = []string{
	"+/+/ab", "+/b/+", "+/+/a", "ab/+/+", "a/+/+", "+/b/ab", "a/+/ab", "+/+/+", "a/b/+", "+/b/a", "+/bb/+", "+/+/abc",
	"+/+/ab*", "+/b/+/*", "+/b/a*", "+/+/a*", "a/+/a*", "a/+/ab*", "+/b/*", "+/+/*", "a/b/a*", "a/b/*", "a/*", "a*", "*",
	"a/b/ab", "a/b/ab/", "+/b/ab/", "+/+/ab/", "a/b/+/",
}

var vxPaths2 = []string{"a/b/ab", "a/b/a", "ab/b/ab", "a/bb/ab", "a/b/abc", "a/b/ab/", "a/b/ab/c", "ab/b/a/c", "a/b", "a/b/"}

func VxDecisionLongSegments() {
	i := vxChoose("p0", len(vxPool2))
	j := i + vxChoose("p1", len(vxPool2)-i)
	rules := []vxRule{{vxPool2[i], ReadCapabilityInt | ListCapabilityInt}, {vxPool2[j], UpdateCapabilityInt | ScanCapabilityInt | SudoCapabilityInt}}
	if i == j {
		rules[1].caps = DenyCapabilityInt
	}
	ctx := namespace.RootContext(context.Background())
	for _, order := range [][]int{{0, 1}, {1, 0}} {
		acl := vxBuild(ctx, rules, order)
		for _, path := range vxPaths2 {
			for _, op := range []logical.Operation{logical.ReadOperation, logical.UpdateOperation, logical.ListOperation, logical.ScanOperation} {
				listLike := op == logical.ListOperation || op == logical.ScanOperation
				want, matched := vxRefDecide(rules, path, listLike)
				res := acl.AllowOperation(ctx, &logical.Request{Path: path, Operation: op}, false)
				if matched {
					vxReach("long segments: decided")
				}
				vxAssert("long segments: Allowed equals the documented decision", res.Allowed == (matched && want&DenyCapabilityInt == 0 && want&vxOpBit(op) != 0))
				vxAssert("long segments: sudo from the deciding pattern", res.RootPrivs == (matched && want&SudoCapabilityInt != 0))
			}
		}
	}
}

// Same pattern named by two or three policies, ALL capability bitmaps symbolic: union of capabilities, deny from any
// policy wins, for every operation, in every policy order.
func VxMerge() {
	ctx := namespace.RootContext(context.Background())
	n := 2 + vxChoose("extra policy", 2)
	pat := []string{"a", "a/*", "a/+"}[vxChoose("pattern kind", 3)]
	var rules []vxRule
	for k := 0; k < n; k++ {
		rules = append(rules, vxRule{pattern: pat, caps: vxCaps("caps")})
	}
	path := []string{"a", "a/b", "a/b"}[0]
	if pat != "a" {
		path = "a/b"
	}
	op := vxOps[vxChoose("op", len(vxOps))]
	var union uint32
	deny := false
	for _, r := range rules {
		union |= r.caps
		deny = deny || r.caps&DenyCapabilityInt != 0
	}
	want := !deny && union&vxOpBit(op) != 0
	if deny {
		vxReach("merge: some policy denies")
	}
	if want {
		vxReach("merge: allowed by union")
	}
	orders := [][]int{{0, 1}, {1, 0}}
	if n == 3 {
		orders = [][]int{{0, 1, 2}, {2, 1, 0}, {1, 0, 2}, {1, 2, 0}}
	}
	for _, order := range orders {
		acl := vxBuild(ctx, rules, order)
		res := acl.AllowOperation(ctx, &logical.Request{Path: path, Operation: op}, false)
		vxAssert("same pattern: union of capabilities, deny wins, order-independent", res.Allowed == want)
		vxAssert("same pattern: sudo from the union unless denied", res.RootPrivs == (!deny && union&SudoCapabilityInt != 0))
	}
}

// Capabilities(): every capability bit is reported iff granted (one rule, all bitmaps) ...
func VxCapabilityNames() {
	ctx := namespace.RootContext(context.Background())
	caps := vxCaps("caps")
	acl := vxBuild(ctx, []vxRule{{"a", caps}}, []int{0})
	got := acl.Capabilities(ctx, "a")
	has := func(s string) bool {
		for _, g := range got {
			if g == s {
				return true
			}
		}
		return false
	}
	if caps&DenyCapabilityInt != 0 || caps == 0 {
		vxReach("caps: deny")
		vxAssert("no grant is reported as [deny]", len(got) == 1 && got[0] == DenyCapability)
		return
	}
	vxReach("caps: some")
	vxAssert("read reported iff granted", has(ReadCapability) == (caps&ReadCapabilityInt != 0))
	vxAssert("list reported iff granted", has(ListCapability) == (caps&ListCapabilityInt != 0))
	vxAssert("update reported iff granted", has(UpdateCapability) == (caps&UpdateCapabilityInt != 0))
	vxAssert("delete reported iff granted", has(DeleteCapability) == (caps&DeleteCapabilityInt != 0))
	vxAssert("create reported iff granted", has(CreateCapability) == (caps&CreateCapabilityInt != 0))
	vxAssert("patch reported iff granted", has(PatchCapability) == (caps&PatchCapabilityInt != 0))
	vxAssert("scan reported iff granted", has(ScanCapability) == (caps&ScanCapabilityInt != 0))
	vxAssert("sudo reported iff granted", has(SudoCapability) == (caps&SudoCapabilityInt != 0))
	vxAssert("deny never reported next to grants", !has(DenyCapability))
	// and it agrees with what AllowOperation permits on the same path
	for _, op := range vxOps {
		r := acl.AllowOperation(ctx, &logical.Request{Path: "a", Operation: op}, false)
		vxAssert("operation permitted iff its capability is granted", r.Allowed == (caps&vxOpBit(op) != 0))
	}
}

// ... and the pattern whose capabilities are reported is the one that decides (two rules with distinguishable grants)
func VxCapabilitiesPattern() {
	i := vxChoose("p0", len(vxPool))
	j := i + vxChoose("p1", len(vxPool)-i)
	rules := []vxRule{{vxPool[i], ReadCapabilityInt}, {vxPool[j], UpdateCapabilityInt | SudoCapabilityInt}}
	ctx := namespace.RootContext(context.Background())
	path := vxString("path", vxChoose("pathLen", vxParam("pathLen")+1))
	acl := vxBuild(ctx, rules, []int{0, 1})
	got := acl.Capabilities(ctx, path)
	want, matched := vxRefDecide(rules, path, true)
	n := 0
	if matched {
		if want&ReadCapabilityInt != 0 {
			n++
			vxAssert("read reported", len(got) > 0 && (got[0] == ReadCapability || (len(got) > 1 && got[1] == ReadCapability)))
		}
		if want&UpdateCapabilityInt != 0 {
			n += 2
			vxAssert("sudo reported first", len(got) > 0 && got[0] == SudoCapability)
		}
		vxReach("caps: pattern decides")
		vxAssert("exactly the deciding pattern's capabilities are reported", len(got) == n)
	} else {
		vxReach("caps: nothing matches")
		vxAssert("no match is reported as [deny]", len(got) == 1 && got[0] == DenyCapability)
	}
}

// wrapping-TTL bounds and pagination limit further restrict (single rule, symbolic bounds)
func VxWrapAndLimit() {
	ctx := namespace.RootContext(context.Background())
	caps := vxCaps("caps")
	minW, maxW := time.Duration(vxInt64("minWrap")), time.Duration(vxInt64("maxWrap"))
	vxAssume(minW >= 0 && maxW >= 0)
	pr := vxMkRule("a", caps)
	pr.Permissions.MinWrappingTTL, pr.Permissions.MaxWrappingTTL = minW, maxW
	acl, err := NewACL(ctx, []*Policy{{Name: "p", Type: TypeACL, Namespace: namespace.RootNamespace, Paths: []*PathRules{pr}}})
	vxAssert("NewACL ok", err == nil)
	req := &logical.Request{Path: "a", Operation: logical.UpdateOperation}
	hasWrap := vxBool("request wraps")
	ttl := time.Duration(vxInt64("wrapTTL"))
	if hasWrap {
		req.WrapInfo = &logical.RequestWrapInfo{TTL: ttl}
	}
	res := acl.AllowOperation(ctx, req, false)
	want := caps&UpdateCapabilityInt != 0
	if maxW > 0 && (!hasWrap || ttl > maxW) {
		want = false
	}
	if minW > 0 && (!hasWrap || ttl < minW) {
		want = false
	}
	if want {
		vxReach("wrap: allowed")
	} else {
		vxReach("wrap: refused")
	}
	vxAssert("wrapping TTL bounds restrict the decision", res.Allowed == want)
}

// root policy: allowed everywhere in and below its namespace, nowhere else; help is always allowed
func VxRootAndHelp() {
	nsA := &namespace.Namespace{ID: "A", Path: "nsa/"}
	nsB := &namespace.Namespace{ID: "B", Path: "nsa/nsb/"}
	nsC := &namespace.Namespace{ID: "C", Path: "nsc/"}
	all := []*namespace.Namespace{namespace.RootNamespace, nsA, nsB, nsC}
	def := all[vxChoose("policy namespace", 4)]
	reqNS := all[vxChoose("request namespace", 4)]
	acl, err := NewACL(namespace.ContextWithNamespace(context.Background(), def), []*Policy{{Name: "root", Type: TypeACL, Namespace: def}})
	vxAssert("root ACL ok", err == nil)
	path := vxString("path", 2)
	res := acl.AllowOperation(namespace.ContextWithNamespace(context.Background(), reqNS), &logical.Request{Path: path, Operation: logical.UpdateOperation}, false)
	inside := def.Path == "" || (len(reqNS.Path) >= len(def.Path) && reqNS.Path[:len(def.Path)] == def.Path)
	if inside {
		vxReach("root: inside")
	} else {
		vxReach("root: outside")
	}
	vxAssert("root policy applies exactly in its namespace and below", res.Allowed == inside && res.IsRoot == inside)
	empty, _ := NewACL(namespace.RootContext(context.Background()), nil)
	h := empty.AllowOperation(namespace.RootContext(context.Background()), &logical.Request{Path: path, Operation: logical.HelpOperation}, false)
	vxAssert("help is always allowed", h.Allowed)
	d := empty.AllowOperation(namespace.RootContext(context.Background()), &logical.Request{Path: path, Operation: logical.ReadOperation}, false)
	vxAssert("default deny with no policies", !d.Allowed)
}
