package physical

// C13 — the read cache (plain and transactional, real 2Q LRU) over a key/value backend is itself the same
// key/value store: after any sequence of put / delete / get / transaction{put,delete,get}+commit|rollback,
// get returns the last committed value or nothing, for ALL values.
//
//vx:pkg github.com/openbao/openbao/sdk/v2/physical
//vx:bodies context,container/list,github.com/hashicorp/golang-lru/v2,github.com/hashicorp/golang-lru/v2/simplelru,github.com/hashicorp/golang-lru/v2/internal,github.com/openbao/openbao/sdk/v2/helper/locksutil
//vx:redirect github.com/openbao/openbao/sdk/v2/helper/locksutil.LockIndexForKey vxLockIndex
//vx:redirect github.com/openbao/openbao/sdk/v2/helper/pathmanager.New vxPMNew
//vx:redirect (*github.com/openbao/openbao/sdk/v2/helper/pathmanager.PathManager).AddPaths vxPMAdd
//vx:redirect (*github.com/openbao/openbao/sdk/v2/helper/pathmanager.PathManager).HasPath vxPMHas
//vx:param steps quick=4 thorough=5
//vx:unwind 600

import (
	"context"

	log "github.com/hashicorp/go-hclog"
	metrics "github.com/hashicorp/go-metrics/compat"
	"github.com/openbao/openbao/sdk/v2/helper/pathmanager"
)

func vxLockIndex(key string) uint8                         { return 0 }
func vxPMNew() *pathmanager.PathManager                    { return &pathmanager.PathManager{} }
func vxPMAdd(p *pathmanager.PathManager, paths []string)   {}
func vxPMHas(p *pathmanager.PathManager, path string) bool { return false }

type vxLogger struct{ log.Logger }

func (vxLogger) Debug(msg string, args ...interface{}) {}
func (vxLogger) Trace(msg string, args ...interface{}) {}
func (vxLogger) Info(msg string, args ...interface{})  {}
func (vxLogger) Warn(msg string, args ...interface{})  {}
func (vxLogger) Error(msg string, args ...interface{}) {}

type vxSink struct{ metrics.MetricSink }

func (vxSink) IncrCounter(key []string, val float32) {}

// ---- transactional key/value model backend (assumption: the backend under the cache is a correct KV store with
// snapshot transactions; values are copied in and out) ----

type vxKVCore struct {
	keys []string
	vals [][]byte
	gets int
}

// the non-transaction handle: core + Begin*; a transaction handle has no Begin* (no nested transactions)
type vxKV struct{ vxKVCore }

func (m *vxKVCore) find(k string) int {
	for i := range m.keys {
		if m.keys[i] == k {
			return i
		}
	}
	return -1
}
func (m *vxKVCore) Put(ctx context.Context, e *Entry) error {
	v := append([]byte(nil), e.Value...)
	if i := m.find(e.Key); i >= 0 {
		m.vals[i] = v
		return nil
	}
	m.keys, m.vals = append(m.keys, e.Key), append(m.vals, v)
	return nil
}

// a second scheduling point: right after a backend read has produced its result (the reader still inside the cache's
// per-key critical section) another client may run
var vxAfterBackendRead func()

func (m *vxKVCore) Get(ctx context.Context, k string) (*Entry, error) {
	m.gets++
	var e *Entry
	if i := m.find(k); i >= 0 {
		e = &Entry{Key: k, Value: append([]byte(nil), m.vals[i]...)}
	}
	if f := vxAfterBackendRead; f != nil {
		vxAfterBackendRead = nil
		f()
	}
	return e, nil
}
func (m *vxKVCore) Delete(ctx context.Context, k string) error {
	if i := m.find(k); i >= 0 {
		m.keys = append(m.keys[:i:i], m.keys[i+1:]...)
		m.vals = append(m.vals[:i:i], m.vals[i+1:]...)
	}
	return nil
}
func (m *vxKVCore) List(ctx context.Context, p string) ([]string, error) { return nil, nil }
func (m *vxKVCore) ListPage(ctx context.Context, p, a string, l int) ([]string, error) {
	return nil, nil
}

type vxTx struct {
	vxKVCore
	parent *vxKV
}

func (m *vxKV) BeginTx(ctx context.Context) (Transaction, error) {
	t := &vxTx{parent: m}
	t.keys = append([]string(nil), m.keys...)
	for _, v := range m.vals {
		t.vals = append(t.vals, append([]byte(nil), v...))
	}
	return t, nil
}
func (m *vxKV) BeginReadOnlyTx(ctx context.Context) (Transaction, error) { return m.BeginTx(ctx) }

// one scheduling point is modelled: right after the storage commit of a transaction (and before the cache layer's
// own post-commit step) another client's write may land
var vxAfterStorageCommit func()

func (t *vxTx) Commit(ctx context.Context) error {
	t.parent.keys, t.parent.vals = t.keys, t.vals
	if f := vxAfterStorageCommit; f != nil {
		vxAfterStorageCommit = nil
		f()
	}
	return nil
}
func (t *vxTx) Rollback(ctx context.Context) error { return nil }

// specification: last committed value per key (nil = absent)
type vxSpec struct{ v [2][]byte }

var vxKeys = [2]string{"foo/bar", "foo/baz"}

func vxSame(e *Entry, want []byte) bool {
	if want == nil {
		return e == nil
	}
	if e == nil || len(e.Value) != len(want) {
		return false
	}
	for i := range want {
		if e.Value[i] != want[i] {
			return false
		}
	}
	return true
}

func VxCacheCoherence() {
	ctx := context.Background()
	kv := &vxKV{}
	c := newCache(kv, 0, vxLogger{}, vxSink{}).(*transactionalCache)
	c.SetEnabled(true)
	var spec vxSpec
	var tx Transaction
	var txSpec vxSpec
	steps := vxParam("steps")
	for s := 0; s < steps; s++ {
		k := vxChoose("key", 2)
		key := vxKeys[k]
		var be Backend = c
		cur := &spec
		if tx != nil {
			be, cur = tx, &txSpec
		}
		switch vxChoose("op", 6) {
		case 0:
			v := []byte{vxByte("val")}
			vxAssert("put ok", be.Put(ctx, &Entry{Key: key, Value: v}) == nil)
			cur.v[k] = v
		case 1:
			vxAssert("delete ok", be.Delete(ctx, key) == nil)
			cur.v[k] = nil
		case 2:
			e, err := be.Get(ctx, key)
			vxReach("cache: get")
			vxAssert("get returns the last value written (or nothing after delete)", err == nil && vxSame(e, cur.v[k]))
		case 3:
			if tx != nil {
				return
			}
			t, err := c.BeginTx(ctx)
			vxAssert("begin ok", err == nil)
			tx, txSpec = t, spec
		case 4:
			if tx == nil {
				return
			}
			vxAssert("commit ok", tx.Commit(ctx) == nil)
			vxReach("cache: commit")
			tx, spec = nil, txSpec
		case 5:
			if tx == nil {
				return
			}
			vxAssert("rollback ok", tx.Rollback(ctx) == nil)
			tx = nil
		}
	}
	// final read-back of both keys through the (parent) cache, outside any transaction
	if tx != nil {
		return
	}
	for k := range vxKeys {
		e, err := c.Get(ctx, vxKeys[k])
		vxAssert("final get through the cache equals the last committed value", err == nil && vxSame(e, spec.v[k]))
		e, err = kv.Get(ctx, vxKeys[k])
		vxAssert("backend holds the last committed value", err == nil && vxSame(e, spec.v[k]))
	}
}

// a cache transaction commits while another client writes the same key: the other write lands after the storage
// commit but before the cache's post-commit step (the one interleaving the cache code itself warns about). Serial
// order = transaction, then the other write; afterwards reads through the cache must return the other write's value.
func VxCacheCommitRacingWrite() {
	ctx := context.Background()
	kv := &vxKV{}
	c := newCache(kv, 0, vxLogger{}, vxSink{}).(*transactionalCache)
	c.SetEnabled(true)
	k := vxChoose("key", 2)
	key := vxKeys[k]
	if vxBool("key initially present (and cached)") {
		vxAssert("initial put", c.Put(ctx, &Entry{Key: key, Value: []byte{vxByte("initial")}}) == nil)
	}
	tx, err := c.BeginTx(ctx)
	vxAssert("begin ok", err == nil)
	if vxBool("transaction reads the key first") {
		_, gerr := tx.Get(ctx, key)
		vxAssert("txn get ok", gerr == nil)
	}
	txDel := vxBool("transaction deletes instead of writing")
	if txDel {
		vxAssert("txn delete ok", tx.Delete(ctx, key) == nil)
	} else {
		vxAssert("txn put ok", tx.Put(ctx, &Entry{Key: key, Value: []byte{vxByte("txn value")}}) == nil)
	}
	var want []byte
	otherDel := vxBool("the other client deletes instead of writing")
	ov := vxByte("other value")
	vxAfterStorageCommit = func() {
		if otherDel {
			vxAssert("other delete ok", c.Delete(ctx, key) == nil)
		} else {
			vxAssert("other put ok", c.Put(ctx, &Entry{Key: key, Value: []byte{ov}}) == nil)
		}
	}
	if !otherDel {
		want = []byte{ov}
	}
	vxAssert("commit ok", tx.Commit(ctx) == nil)
	vxReach("cache: commit raced by another write")
	e, gerr := kv.Get(ctx, key)
	vxAssert("storage holds the later write", gerr == nil && vxSame(e, want))
	e, gerr = c.Get(ctx, key)
	vxAssert("reads through the cache return the later write, not the transaction's superseded value", gerr == nil && vxSame(e, want))
}

// a cache transaction commits while a read of the same key is in flight in the parent cache: the reader has missed,
// has read the pre-commit value from the backend and has not yet filled the cache when the commit arrives (second
// logical thread, started inside the reader's critical section; it proceeds as far as the per-key lock lets it and is
// resumed as soon as the reader releases it). Afterwards reads through the cache return the committed value.
func VxCacheCommitRacingRead() {
	ctx := context.Background()
	kv := &vxKV{}
	c := newCache(kv, 0, vxLogger{}, vxSink{}).(*transactionalCache)
	c.SetEnabled(true)
	k := vxChoose("key", 2)
	key := vxKeys[k]
	var old []byte
	if vxBool("key initially present in the backend (not cached)") {
		old = []byte{vxByte("initial")}
		vxAssert("initial put", kv.Put(ctx, &Entry{Key: key, Value: old}) == nil)
	}
	tx, err := c.BeginTx(ctx)
	vxAssert("begin ok", err == nil)
	if vxBool("transaction reads the key first") {
		_, gerr := tx.Get(ctx, key)
		vxAssert("txn get ok", gerr == nil)
	}
	var want []byte
	if vxBool("transaction deletes instead of writing") {
		vxAssert("txn delete ok", tx.Delete(ctx, key) == nil)
	} else {
		want = []byte{vxByte("txn value")}
		vxAssert("txn put ok", tx.Put(ctx, &Entry{Key: key, Value: want}) == nil)
	}
	committed := false
	vxAfterBackendRead = func() {
		vxSpawn(func() {
			vxAssert("commit ok", tx.Commit(ctx) == nil)
			committed = true
		})
	}
	e, gerr := c.Get(ctx, key)
	vxAssert("the in-flight read saw the backend read it started before the commit", gerr == nil && vxSame(e, old))
	vxAssert("the commit completes once the reader is out of its critical section", committed)
	vxReach("cache: commit raced by an in-flight read")
	e, gerr = kv.Get(ctx, key)
	vxAssert("storage holds the committed value", gerr == nil && vxSame(e, want))
	e, gerr = c.Get(ctx, key)
	vxAssert("reads through the cache after the commit return the committed value, not the one the in-flight read fetched", gerr == nil && vxSame(e, want))
}
