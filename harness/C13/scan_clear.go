package logical

// C13 — recursive scan / clear helpers visit exactly the keys under the view: the real ScanView / ScanViewPaginated /
// CollectKeys / CollectKeysWithPrefix / CountKeys / ClearView (paginated, deleting while it scans) /
// ClearViewWithoutPagination over a storage that implements the listing contract, for EVERY key set drawn from a
// universe of nested, prefix-sharing and trailing-slash keys (a key that is also a prefix, a key ending in '/'),
// page sizes 2, 3 and the default, plain and transactional (snapshot) storage, directly and through the real
// prefix view (NewStorageView): every stored key is reported exactly once and nothing else is; the count is the
// number of keys; clearing removes every key under the view and leaves every key outside it untouched.
//
//vx:pkg github.com/openbao/openbao/sdk/v2/logical
//vx:bodies strings,internal/stringslite,context
//vx:assume (this file) the storage under the helpers implements the listing contract (sorted immediate children, sub-prefixes with '/', strictly after 'after', first 'limit' - decided for the real backends by the other C13 entries); a read-only transaction is a snapshot; page size 1 is excluded (with a trailing-slash key the scan's empty-name special case needs page size > 1, as its comment states)
//vx:redirect github.com/hashicorp/go-hclog.NewNullLogger vxNullLogger
//vx:unwind 2000

import (
	"context"

	log "github.com/hashicorp/go-hclog"
)

type vxNullLog struct{ log.Logger }

func (vxNullLog) Trace(msg string, args ...interface{}) {}
func (vxNullLog) Debug(msg string, args ...interface{}) {}
func (vxNullLog) Info(msg string, args ...interface{})  {}
func (vxNullLog) Warn(msg string, args ...interface{})  {}
func (vxNullLog) Error(msg string, args ...interface{}) {}
func vxNullLogger() log.Logger                          { return vxNullLog{} }

var vxSCUniverse = []string{"a", "a/", "a/a", "a/b/a", "ab", "b/a", "b/a/"}

// reference listing: sorted set of immediate children of prefix, then > after, then first limit
func vxSCList(keys []string, prefix, after string, limit int) []string {
	var kids []string
	for _, k := range keys {
		if len(k) < len(prefix) || k[:len(prefix)] != prefix {
			continue
		}
		rest := k[len(prefix):]
		for i := 0; i < len(rest); i++ {
			if rest[i] == '/' {
				rest = rest[:i+1]
				break
			}
		}
		dup := false
		for _, x := range kids {
			if x == rest {
				dup = true
			}
		}
		if !dup {
			kids = append(kids, rest)
		}
	}
	for i := 1; i < len(kids); i++ {
		for j := i; j > 0 && kids[j] < kids[j-1]; j-- {
			kids[j], kids[j-1] = kids[j-1], kids[j]
		}
	}
	var out []string
	for _, k := range kids {
		if after != "" && !(after < k) {
			continue
		}
		if limit > 0 && len(out) >= limit {
			break
		}
		out = append(out, k)
	}
	return out
}

type vxSCStore struct {
	keys    []string
	deleted []string
	lists   int
}

func (s *vxSCStore) List(ctx context.Context, prefix string) ([]string, error) {
	return vxSCList(s.keys, prefix, "", -1), nil
}
func (s *vxSCStore) ListPage(ctx context.Context, prefix, after string, limit int) ([]string, error) {
	s.lists++
	return vxSCList(s.keys, prefix, after, limit), nil
}
func (s *vxSCStore) Get(ctx context.Context, k string) (*StorageEntry, error) {
	for _, x := range s.keys {
		if x == k {
			return &StorageEntry{Key: k, Value: []byte{1}}, nil
		}
	}
	return nil, nil
}
func (s *vxSCStore) Put(ctx context.Context, e *StorageEntry) error { return vxErr("read-only model") }
func (s *vxSCStore) Delete(ctx context.Context, k string) error {
	s.deleted = append(s.deleted, k)
	for i, x := range s.keys {
		if x == k {
			s.keys = append(s.keys[:i:i], s.keys[i+1:]...)
			return nil
		}
	}
	return nil
}

// transactional flavour: read-only transactions are snapshots
type vxSCTxStore struct{ vxSCStore }
type vxSCTxn struct {
	vxSCStore
}

func (s *vxSCTxStore) BeginReadOnlyTx(ctx context.Context) (Transaction, error) {
	return &vxSCTxn{vxSCStore{keys: append([]string(nil), s.keys...)}}, nil
}
func (s *vxSCTxStore) BeginTx(ctx context.Context) (Transaction, error) {
	return s.BeginReadOnlyTx(ctx)
}
func (t *vxSCTxn) Commit(ctx context.Context) error   { return nil }
func (t *vxSCTxn) Rollback(ctx context.Context) error { return nil }

func vxSCHas(l []string, k string) int {
	n := 0
	for _, x := range l {
		if x == k {
			n++
		}
	}
	return n
}

func vxSCKeys() []string {
	var keys []string
	for _, k := range vxSCUniverse {
		if vxBool("has " + k) {
			keys = append(keys, k)
		}
	}
	return keys
}

func vxSCNew(keys []string, transactional bool) (Storage, *vxSCStore) {
	if transactional {
		s := &vxSCTxStore{vxSCStore{keys: append([]string(nil), keys...)}}
		return s, &s.vxSCStore
	}
	s := &vxSCStore{keys: append([]string(nil), keys...)}
	return s, s
}

// scan: every key once, nothing else
func VxScanVisitsExactlyTheKeys() {
	ctx := context.Background()
	keys := vxSCKeys()
	st, _ := vxSCNew(keys, vxBool("transactional storage"))
	pageSize := []int{2, 3, DefaultScanViewPageLimit}[vxChoose("page size(2,3,default)", 3)]
	var seen []string
	err := ScanViewPaginated(ctx, st, vxNullLog{}, pageSize, func(page, index int, path string) (bool, error) {
		seen = append(seen, path)
		return true, nil
	})
	vxAssert("scan succeeds", err == nil)
	vxAssert("scan reports as many paths as there are keys", len(seen) == len(keys))
	for _, k := range keys {
		vxAssert("every stored key is visited exactly once", vxSCHas(seen, k) == 1)
	}
	vxReach("scan: done")
	n, cerr := CountKeys(ctx, st)
	vxAssert("CountKeys is the number of keys", cerr == nil && n == len(keys))
	pfx := []string{"", "a", "a/", "b/a"}[vxChoose("collect prefix", 4)]
	got, gerr := CollectKeysWithPrefix(ctx, st, pfx)
	vxAssert("collect succeeds", gerr == nil)
	want := 0
	for _, k := range keys {
		if len(k) >= len(pfx) && k[:len(pfx)] == pfx {
			want++
			vxAssert("CollectKeysWithPrefix returns every key with the prefix once", vxSCHas(got, k) == 1)
		}
	}
	vxAssert("CollectKeysWithPrefix returns nothing else", len(got) == want)
}

// clear: directly, and through the real prefix view over a larger store
func VxClearRemovesExactlyTheView() {
	ctx := context.Background()
	keys := vxSCKeys()
	st, raw := vxSCNew(keys, vxBool("transactional storage"))
	var view ClearableView = st
	pfx := ""
	if vxBool("through a prefix view") {
		pfx = []string{"a/", "b/", "a"}[vxChoose("view prefix", 3)]
		view = NewStorageView(st, pfx)
	}
	var err error
	if vxBool("without pagination") {
		err = ClearViewWithoutPagination(ctx, view, vxNullLog{})
	} else {
		err = ClearView(ctx, view)
	}
	vxAssert("clear succeeds", err == nil)
	vxReach("clear: done")
	for _, k := range keys {
		under := len(k) >= len(pfx) && k[:len(pfx)] == pfx
		left := vxSCHas(raw.keys, k) == 1
		if under {
			vxAssert("every key under the view is removed", !left)
		} else {
			vxAssert("no key outside the view is touched", left)
		}
	}
	for _, d := range raw.deleted {
		vxAssert("only keys under the view are ever deleted", len(d) >= len(pfx) && d[:len(pfx)] == pfx)
		vxAssert("only existing keys are deleted", vxSCHas(keys, d) == 1)
	}
}
