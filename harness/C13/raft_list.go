package raft

// C13 — raft storage: FSM listing (listPageInner) and in-transaction listing (RaftTransaction.ListPage, incl. pending
// updates/deletes) equal the listing contract for every key set from the universe, every prefix, ALL 'after' strings
// up to the bound (".", "..", "a/..", "/" ... included) and ALL limits. bbolt is replaced by a sorted-slice cursor model.
//
//vx:pkg github.com/openbao/openbao/v2/internal/physical/raft
//vx:bodies context,path/filepath,internal/filepathlite,os
//vx:redirect (*go.etcd.io/bbolt.Tx).Bucket vxTxBucket
//vx:redirect (*go.etcd.io/bbolt.Bucket).Cursor vxBucketCursor
//vx:redirect (*go.etcd.io/bbolt.Cursor).Seek vxCursorSeek
//vx:redirect (*go.etcd.io/bbolt.Cursor).Next vxCursorNext
//vx:redirect github.com/openbao/openbao/v2/internal/physical/raft.createListVerificationEntry vxListVerif
//vx:param afterLen quick=2 thorough=3
//vx:unwind 600

import (
	"bytes"
	"context"

	"github.com/openbao/openbao/sdk/v2/physical"
	bolt "go.etcd.io/bbolt"
)

// ---- bbolt model: one bucket, keys kept sorted; a cursor is an index (assumption: bbolt cursors iterate keys in
// byte order and Seek positions at the first key >= the argument) ----

var (
	vxKeys    []string // sorted
	vxCurPos  = map[*bolt.Cursor]int{}
	vxBucket  = &bolt.Bucket{}
	vxVerifN  int
	vxVerifKs []string
)

func vxTxBucket(tx *bolt.Tx, name []byte) *bolt.Bucket { return vxBucket }
func vxBucketCursor(b *bolt.Bucket) *bolt.Cursor       { return &bolt.Cursor{} }

func vxCursorSeek(c *bolt.Cursor, seek []byte) ([]byte, []byte) {
	for i, k := range vxKeys {
		if bytes.Compare([]byte(k), seek) >= 0 {
			vxCurPos[c] = i
			return []byte(k), []byte{1}
		}
	}
	vxCurPos[c] = len(vxKeys)
	return nil, nil
}

func vxCursorNext(c *bolt.Cursor) ([]byte, []byte) {
	i := vxCurPos[c] + 1
	vxCurPos[c] = i
	if i >= len(vxKeys) {
		return nil, nil
	}
	return []byte(vxKeys[i]), []byte{1}
}

func vxListVerif(prefix string, after string, limit int, items []string) (string, []byte, error) {
	vxVerifN, vxVerifKs = limit, items
	return "params", []byte{1}, nil
}

var vxUniverse = []string{"a", "a/", "a/a", "a/b", "a/b/a", "ab", "b/a", "a/ab"}
var vxPrefixes = []string{"", "a/", "a/b/", "b/", "c/"}

func vxRefList(keys []string, prefix, after string, limit int) []string {
	var kids []string
	for _, k := range keys {
		if len(k) < len(prefix) || k[:len(prefix)] != prefix {
			continue
		}
		rest := k[len(prefix):]
		for i := 0; i < len(rest); i++ {
			if rest[i] == '/' {
				rest = rest[:i+1]
				break
			}
		}
		dup := false
		for _, x := range kids {
			if x == rest {
				dup = true
			}
		}
		if !dup {
			kids = append(kids, rest)
		}
	}
	for i := 1; i < len(kids); i++ {
		for j := i; j > 0 && kids[j] < kids[j-1]; j-- {
			kids[j], kids[j-1] = kids[j-1], kids[j]
		}
	}
	var out []string
	for _, k := range kids {
		if after != "" && !(after < k) {
			continue
		}
		if limit > 0 && len(out) >= limit {
			break
		}
		out = append(out, k)
	}
	return out
}

func vxSameList(a, b []string) bool {
	if len(a) != len(b) {
		return false
	}
	for i := range a {
		if a[i] != b[i] {
			return false
		}
	}
	return true
}

func vxKeySet() []string {
	var keys []string
	for _, k := range vxUniverse { // the universe is listed in byte order? no: sort below
		if vxBool("has " + k) {
			keys = append(keys, k)
		}
	}
	for i := 1; i < len(keys); i++ {
		for j := i; j > 0 && keys[j] < keys[j-1]; j-- {
			keys[j], keys[j-1] = keys[j-1], keys[j]
		}
	}
	return keys
}

func VxFSMListPage() {
	vxKeys = vxKeySet()
	prefix := vxPrefixes[vxChoose("prefix", len(vxPrefixes))]
	after := vxString("after", vxChoose("afterLen", vxParam("afterLen")+1))
	limit := vxInt("limit")
	got, err := listPageInner(context.Background(), &bolt.Tx{}, prefix, after, limit)
	want := vxRefList(vxKeys, prefix, after, limit)
	if len(want) > 0 && after != "" {
		vxReach("fsm list: non-empty page after a cursor")
	}
	vxAssert("FSM ListPage equals the listing contract", err == nil && vxSameList(got, want))
}

// in-transaction listing with no pending writes must equal the plain listing
func VxTxListPageNoWrites() {
	vxKeys = vxKeySet()
	prefix := vxPrefixes[vxChoose("prefix", len(vxPrefixes))]
	after := vxString("after", vxChoose("afterLen", vxParam("afterLen")+1))
	limit := vxInt("limit")
	t := &RaftTransaction{tx: &bolt.Tx{}, updates: map[string]*raftTxnUpdateRecord{}, reads: map[string]*LogOperation{}, lists: map[string]map[string]map[int]*LogOperation{}}
	got, err := t.ListPage(context.Background(), prefix, after, limit)
	want := vxRefList(vxKeys, prefix, after, limit)
	if len(want) > 0 && after != "" {
		vxReach("tx list: non-empty page after a cursor")
	}
	vxAssert("transaction ListPage (no pending writes) equals the listing contract", err == nil && vxSameList(got, want))
}

// in-transaction listing reflects the transaction's own puts and deletes
var vxSmall = []string{"a/", "a/a", "a/b", "a/b/a", "b/a"}

func VxTxListPageWithWrites() {
	var keys []string
	for _, k := range vxSmall {
		if vxBool("has " + k) {
			keys = append(keys, k)
		}
	}
	vxKeys = keys // vxSmall is in byte order
	prefix := vxPrefixes[vxChoose("prefix", 2)]
	after := vxString("after", vxChoose("afterLen", 2))
	limit := vxInt("limit")
	t := &RaftTransaction{tx: &bolt.Tx{}, updates: map[string]*raftTxnUpdateRecord{}, reads: map[string]*LogOperation{}, lists: map[string]map[string]map[int]*LogOperation{}}
	// merged view = storage keys, minus deleted, plus put
	merged := append([]string(nil), vxKeys...)
	nw := 1 + vxChoose("second write", 2)
	for w := 0; w < nw; w++ {
		k := vxSmall[vxChoose("written key", len(vxSmall))]
		if _, dup := t.updates[k]; dup {
			return
		}
		if vxBool("is delete") {
			t.updates[k] = &raftTxnUpdateRecord{OpType: deleteOp}
			var m2 []string
			for _, x := range merged {
				if x != k {
					m2 = append(m2, x)
				}
			}
			merged = m2
		} else {
			t.updates[k] = &raftTxnUpdateRecord{OpType: putOp, Contents: &physical.Entry{Key: k, Value: []byte{2}}}
			present := false
			for _, x := range merged {
				if x == k {
					present = true
				}
			}
			if !present {
				merged = append(merged, k)
			}
		}
	}
	got, err := t.ListPage(context.Background(), prefix, after, limit)
	want := vxRefList(merged, prefix, after, limit)
	vxReach("tx list: with pending writes")
	emptyName := false
	for _, w := range want {
		if w == "" {
			emptyName = true
		}
	}
	if emptyName {
		vxAssert("transaction ListPage reflects its own writes (page contains the entry whose name is empty: key == prefix)", err == nil && vxSameList(got, want))
	} else {
		vxAssert("transaction ListPage reflects its own writes", err == nil && vxSameList(got, want))
	}
}
