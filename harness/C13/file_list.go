package file

// C13 — file backend: List / ListPage (the real ListPageInternal, filepath.Join from source, sort) over a directory
// model obey the same listing contract as every other layer: sorted immediate children, sub-prefixes with a trailing
// '/', strictly after `after`, at most `limit`.
//
//vx:pkg github.com/openbao/openbao/sdk/v2/physical/file
//vx:assume the operating system is replaced by a directory model: one directory with an arbitrary subset of a name universe (files are stored as "_<key>", sub-prefixes as directories); os.Open+Readdirnames return the names in an arbitrary order (insertion or reversed), os.ReadDir returns them sorted by file name (its documented contract), os.Stat / DirEntry report the entry kind
//vx:bodies path/filepath,internal/filepathlite,os,io/fs
//vx:redirect os.Open vxOpen
//vx:redirect os.ReadDir vxReadDir
//vx:redirect os.Stat vxStat
//vx:redirect os.Lstat vxStat
//vx:redirect os.IsNotExist vxIsNotExist
//vx:redirect (*os.File).Readdirnames vxReaddirnames
//vx:redirect (*os.File).Close vxClose
//vx:redirect (*github.com/openbao/openbao/sdk/v2/physical.PermitPool).Acquire vxPermit
//vx:redirect (*github.com/openbao/openbao/sdk/v2/physical.PermitPool).Release vxPermit
//vx:param afterLen quick=2 thorough=4

import (
	"context"
	"io/fs"
	"os"
	"sort"
	"time"

	"github.com/openbao/openbao/sdk/v2/physical"
)

type vxEnt struct {
	name string
	dir  bool
}

func (e vxEnt) Name() string               { return e.name }
func (e vxEnt) IsDir() bool                { return e.dir }
func (e vxEnt) Type() fs.FileMode          { return 0 }
func (e vxEnt) Info() (fs.FileInfo, error) { return e, nil }
func (e vxEnt) Size() int64                { return 0 }
func (e vxEnt) Mode() fs.FileMode          { return 0 }
func (e vxEnt) ModTime() time.Time         { return time.Time{} }
func (e vxEnt) Sys() any                   { return nil }

var (
	vxDirPath  string
	vxDir      []vxEnt // on-disk names in "directory order"
	vxReversed bool
	vxMissing  bool
	vxErrNoEnt = vxErr("no such file or directory")
	vxHandle   = new(os.File)
)

func vxPermit(p *physical.PermitPool) {}

func vxOpen(name string) (*os.File, error) {
	if name != vxDirPath || vxMissing {
		return nil, vxErrNoEnt
	}
	return vxHandle, nil
}
func vxClose(f *os.File) error    { return nil }
func vxIsNotExist(err error) bool { return err == vxErrNoEnt }
func vxReaddirnames(f *os.File, n int) ([]string, error) {
	var out []string
	for _, e := range vxDir {
		out = append(out, e.name)
	}
	if vxReversed {
		for i, j := 0, len(out)-1; i < j; i, j = i+1, j-1 {
			out[i], out[j] = out[j], out[i]
		}
	}
	return out, nil
}
func vxReadDir(name string) ([]os.DirEntry, error) {
	if name != vxDirPath || vxMissing {
		return nil, vxErrNoEnt
	}
	names := []string{}
	for _, e := range vxDir {
		names = append(names, e.name)
	}
	sort.Strings(names)
	var out []os.DirEntry
	for _, n := range names {
		for _, e := range vxDir {
			if e.name == n {
				out = append(out, e)
			}
		}
	}
	return out, nil
}
func vxStat(name string) (os.FileInfo, error) {
	for _, e := range vxDir {
		if name == vxDirPath+"/"+e.name {
			return e, nil
		}
	}
	return nil, vxErrNoEnt
}

// the reference contract
func vxWant(after string, limit int) []string {
	var names []string
	for _, e := range vxDir {
		if e.dir {
			names = append(names, e.name+"/")
		} else {
			names = append(names, e.name[1:])
		}
	}
	sort.Strings(names)
	var out []string
	for _, n := range names {
		if after != "" && n <= after {
			continue
		}
		if limit > 0 && len(out) >= limit {
			break
		}
		out = append(out, n)
	}
	return out
}

func vxSame(a, b []string) bool {
	if len(a) != len(b) {
		return false
	}
	for i := range a {
		if a[i] != b[i] {
			return false
		}
	}
	return true
}

func VxFileListPage() {
	// name universe: keys and sub-prefixes that share stems, with characters sorting before and after '/'
	universe := []vxEnt{{"_v1", false}, {"v1", true}, {"v1.1", true}, {"v1-", true}, {"_v10", false}, {"v2", true}}
	vxDir = nil
	for _, e := range universe {
		if vxBool("present: " + e.name) {
			vxDir = append(vxDir, e)
		}
	}
	vxReversed = vxBool("directory order reversed")
	vxMissing = vxBool("prefix directory missing")
	vxDirPath = "/data/p"
	b := &FileBackend{path: "/data"}
	after := ""
	if n := vxChoose("after length", vxParam("afterLen")+1); n > 0 {
		bs := vxBytes("after", n)
		for _, c := range bs {
			vxAssume(c == 'v' || c == '1' || c == '2' || c == '.' || c == '-' || c == '/' || c == '0')
		}
		after = string(bs)
	}
	limit := vxInt("limit")
	got, err := b.ListPage(context.Background(), "p/", after, limit)
	vxAssert("listing succeeds", err == nil)
	if vxMissing {
		vxReach("file list: missing directory")
		vxAssert("a missing prefix lists nothing", len(got) == 0)
		return
	}
	vxReach("file list: listed")
	vxAssert("file backend ListPage equals the listing contract", vxSame(got, vxWant(after, limit)))
	all, err2 := b.List(context.Background(), "p/")
	vxAssert("file backend List equals the listing contract", err2 == nil && vxSame(all, vxWant("", -1)))
}

// a paged walk (page size 1..2) visits every child exactly once, in order
func VxFilePagedWalk() {
	universe := []vxEnt{{"v1", true}, {"v1.1", true}, {"_v1", false}, {"v2", true}, {"_a", false}}
	vxDir = nil
	for _, e := range universe {
		if vxBool("present: " + e.name) {
			vxDir = append(vxDir, e)
		}
	}
	vxReversed = vxBool("directory order reversed")
	vxMissing = false
	vxDirPath = "/data/p"
	b := &FileBackend{path: "/data"}
	page := 1 + vxChoose("page size", 2)
	var seen []string
	after := ""
	for i := 0; i < 7; i++ {
		got, err := b.ListPage(context.Background(), "p/", after, page)
		vxAssert("page ok", err == nil)
		if len(got) == 0 {
			break
		}
		seen = append(seen, got...)
		after = got[len(got)-1]
	}
	vxReach("file walk: done")
	vxAssert("a paged walk visits every child exactly once, in order", vxSame(seen, vxWant("", -1)))
}
