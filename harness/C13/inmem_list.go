package inmem

// C13 — in-memory backend: List / ListPage equal the listing contract for every key set drawn from a universe of
// nested / prefix-sharing / trailing-slash keys, every prefix, ALL 'after' strings up to the bound and ALL limits.
//
//vx:pkg github.com/openbao/openbao/sdk/v2/physical/inmem
//vx:bodies context,strings,internal/stringslite,sort,github.com/armon/go-radix
//vx:param afterLen quick=2 thorough=3
//vx:unwind 600

import (
	"context"

	radix "github.com/armon/go-radix"
	"github.com/openbao/openbao/sdk/v2/physical"
)

var vxUniverse = []string{"a", "a/", "a/a", "a/b", "a/b/a", "ab", "b/a", "a/ab"}
var vxPrefixes = []string{"", "a/", "a/b/", "b/", "a", "c/"}

func vxLess(a, b string) bool { return a < b }

// reference: sorted set of immediate children of prefix (sub-prefixes end in '/'), then > after, then first limit
func vxRefList(keys []string, prefix, after string, limit int) []string {
	var kids []string
	for _, k := range keys {
		if len(k) < len(prefix) || k[:len(prefix)] != prefix {
			continue
		}
		rest := k[len(prefix):]
		for i := 0; i < len(rest); i++ {
			if rest[i] == '/' {
				rest = rest[:i+1]
				break
			}
		}
		dup := false
		for _, x := range kids {
			if x == rest {
				dup = true
			}
		}
		if !dup {
			kids = append(kids, rest)
		}
	}
	// insertion sort (concrete strings)
	for i := 1; i < len(kids); i++ {
		for j := i; j > 0 && kids[j] < kids[j-1]; j-- {
			kids[j], kids[j-1] = kids[j-1], kids[j]
		}
	}
	var out []string
	for _, k := range kids {
		if after != "" && !(after < k) {
			continue
		}
		if limit > 0 && len(out) >= limit {
			break
		}
		out = append(out, k)
	}
	return out
}

func vxSameList(a, b []string) bool {
	if len(a) != len(b) {
		return false
	}
	for i := range a {
		if a[i] != b[i] {
			return false
		}
	}
	return true
}

func vxBackend(keys []string) *InmemBackend {
	b := &InmemBackend{root: radix.New()}
	for _, k := range keys {
		err := b.PutInternal(context.Background(), &physical.Entry{Key: k, Value: []byte{1}})
		vxAssert("put ok", err == nil)
	}
	return b
}

func vxKeySet() []string {
	var keys []string
	for _, k := range vxUniverse {
		if vxBool("has " + k) {
			keys = append(keys, k)
		}
	}
	return keys
}

func VxInmemListPage() {
	keys := vxKeySet()
	b := vxBackend(keys)
	prefix := vxPrefixes[vxChoose("prefix", len(vxPrefixes))]
	after := vxString("after", vxChoose("afterLen", vxParam("afterLen")+1))
	limit := vxInt("limit")
	got, err := b.ListPaginatedInternal(context.Background(), prefix, after, limit)
	want := vxRefList(keys, prefix, after, limit)
	if len(want) > 0 {
		vxReach("inmem: non-empty page")
	}
	if after != "" {
		vxReach("inmem: with after")
	}
	vxAssert("ListPage equals the listing contract", err == nil && vxSameList(got, want))
}

func VxInmemList() {
	keys := vxKeySet()
	b := vxBackend(keys)
	prefix := vxPrefixes[vxChoose("prefix", len(vxPrefixes))]
	got, err := b.ListInternal(context.Background(), prefix)
	vxAssert("List equals the full sorted child set", err == nil && vxSameList(got, vxRefList(keys, prefix, "", -1)))
}

// Get / Put / Delete: last write wins, delete removes, other keys untouched (ALL values)
func VxInmemKV() {
	b := vxBackend(nil)
	ctx := context.Background()
	var spec [2][]byte
	names := [2]string{"a/b", "a/b/c"}
	for s := 0; s < 3; s++ {
		k := vxChoose("key", 2)
		switch vxChoose("op", 3) {
		case 0:
			v := []byte{vxByte("v")}
			vxAssert("put ok", b.PutInternal(ctx, &physical.Entry{Key: names[k], Value: v}) == nil)
			spec[k] = v
		case 1:
			vxAssert("delete ok", b.DeleteInternal(ctx, names[k]) == nil)
			spec[k] = nil
		case 2:
			e, err := b.GetInternal(ctx, names[k])
			vxAssert("get ok", err == nil)
			if spec[k] == nil {
				vxAssert("absent after delete / before put", e == nil)
			} else {
				vxReach("inmem: get hit")
				vxAssert("get returns the last value put", e != nil && len(e.Value) == 1 && e.Value[0] == spec[k][0] && e.Key == names[k])
			}
		}
	}
}
