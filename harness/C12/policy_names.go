package policy

// C12 - a policy grants access only inside the namespace it is defined in: the policy NAME is caller-supplied text
// (token policy lists of sudo callers, identity and auth-role policy lists are not validated), so the real policy Store
// (GetPolicy / ACL over the real 2Q LRU, on per-namespace storage views that refuse relative keys like the real barrier
// view) is driven with namespace b/ holding a CACHED policy "admin" and a lookup in namespace a/ under every name
// built from traversal pieces ("../", "../<uuid of b>/", "./", "<uuid of a>/../", ...) and ALL tails over the alphabet.
//
//vx:pkg github.com/openbao/openbao/v2/internal/vault/policy
//vx:bodies github.com/hashicorp/golang-lru/v2,github.com/hashicorp/golang-lru/v2/simplelru,github.com/hashicorp/golang-lru/v2/internal,container/list,github.com/openbao/openbao/sdk/v2/helper/locksutil,github.com/openbao/openbao/sdk/v2/logical
//vx:redirect github.com/openbao/openbao/v2/internal/vault/policy.ParseACLPolicy vxParseACL
//vx:redirect (*github.com/openbao/openbao/v2/internal/vault/policy.Store).getBarrierView vxPSView
//vx:redirect (*github.com/openbao/openbao/v2/internal/vault/policy.Store).GetACLView vxPSACLView
//vx:redirect github.com/openbao/openbao/sdk/v2/helper/locksutil.LockIndexForKey vxPSLockIndex
//vx:redirect github.com/openbao/openbao/sdk/v2/helper/jsonutil.DecodeJSON vxPSDecodeJSON
//vx:redirect github.com/openbao/openbao/sdk/v2/helper/jsonutil.EncodeJSON vxPSEncodeJSON
//vx:noop github.com/hashicorp/go-metrics/compat.*
//vx:param steps quick=3 thorough=4
//vx:include ../C02/policy_store.go
//vx:include ../C03/acl.go

import (
	"context"

	"github.com/openbao/openbao/sdk/v2/logical"
	"github.com/openbao/openbao/v2/internal/helper/namespace"
)

// a policy NAME cannot leave its namespace: policy names reach the store unvalidated (token policy lists of sudo
// callers, identity and auth-role policy lists). With namespace b/ holding a cached policy "admin", a lookup in
// namespace a/ under ANY name built from traversal pieces and ALL tails over the alphabet never yields a policy of
// another namespace: it yields nothing (or an error) unless a/ itself stores a policy under exactly that name.
func VxPolicyNameCannotLeaveItsNamespace() {
	ps := vxPSNew()
	ctxA := namespace.ContextWithNamespace(context.Background(), vxPSNsA)
	ctxB := namespace.ContextWithNamespace(context.Background(), vxPSNsB)
	pb, _ := vxParseACL(vxPSNsB, "rw")
	pb.Name = "admin"
	vxAssert("b/ stores its policy", ps.SetPolicy(ctxB, pb, nil) == nil)
	got, gerr := ps.GetPolicy(ctxB, "admin", TypeToken)
	vxAssert("b/ serves its own policy (and caches it)", gerr == nil && got != nil && got.Namespace == vxPSNsB)
	aHasOwn := vxBool("a/ has a policy named admin of its own")
	if aHasOwn {
		pa, _ := vxParseACL(vxPSNsA, "ro")
		pa.Name = "admin"
		vxAssert("a/ stores its policy", ps.SetPolicy(ctxA, pa, nil) == nil)
	}
	pieces := []string{"", "../", "../../", "./", "ub/", "ua/../", "../ub/", "../UB/", "..//ub/", "/../ub/"}
	name := pieces[vxChoose("name prefix", len(pieces))] + []string{"admin", "ADMIN", "ub/admin", "adm"}[vxChoose("name stem", 4)]
	tail := vxBytes("tail", vxChoose("tail length", 2))
	for _, c := range tail {
		vxAssume(c == '.' || c == '/' || c == 'n')
	}
	name += string(tail)
	p, err := ps.GetPolicy(ctxA, name, TypeToken)
	if p == nil {
		vxReach("policy name: nothing served")
		return
	}
	vxReach("policy name: a policy is served")
	vxAssert("a lookup in namespace a/ never serves a policy of another namespace, whatever the name", err == nil && p.Namespace == vxPSNsA && p.Raw == "ro")
	vxAssert("and only under the name a/ stored it under (case-insensitively, surrounding space trimmed)", aHasOwn && (name == "admin" || name == "ADMIN"))
	// and the ACL built for a token of a/ that lists such a name grants nothing in b/
	acl, aerr := ps.ACL(ctxA, nil, map[string][]string{"a": {name}})
	if aerr == nil && acl != nil {
		res := acl.AllowOperation(ctxB, &logical.Request{Path: "secret/foo", Operation: logical.ReadOperation}, false)
		vxAssert("a token of a/ listing that name is not authorised in b/", !res.Allowed)
	}
}
