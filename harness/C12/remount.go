package vault

// C12 — a secrets mount moved to another path / namespace keeps its storage confined to the namespace it now lives
// in: after the real Core.remountSecretsEngine reports success, the storage the real Router associates with the new
// API path is the view "namespaces/<destination namespace UUID>/logical/<mount UUID>/" (for the root namespace:
// "logical/<mount UUID>/"), the old API path routes nowhere, and on a reported failure the mount entry still belongs
// to its source namespace. Executed: remountSecretsEngine, mountEntryView, NamespaceView, NamespaceScopedView,
// NamespaceStoragePathPrefix, the real routing.Router (Mount, Remount, Taint, Untaint, MatchingMountEntry,
// MountConflict, MatchingStorageByAPIPath; real go-radix), barrier.NewView / SubView / Prefix.
//
//vx:pkg github.com/openbao/openbao/v2/internal/vault
//vx:assume collaborators replaced by stubs with symbolic outcomes: mount-table persistence (may fail), moving the mount's stored data (may fail), tainting the table entry, revoking the mount's leases; rollback manager absent; all namespaces share one barrier or the destination sits behind its own (symbolic)
//vx:bodies context,path,github.com/openbao/openbao/v2/internal/vault/routing,github.com/openbao/openbao/v2/internal/vault/barrier,github.com/openbao/openbao/sdk/v2/logical,github.com/openbao/openbao/v2/internal/helper/namespace,github.com/armon/go-radix
//vx:redirect (*github.com/openbao/openbao/v2/internal/vault.SealManager).NamespaceBarrierByLongestPrefix vxRBarrierFor
//vx:redirect (*github.com/openbao/openbao/v2/internal/vault.Core).taintMountEntry vxRTaintEntry
//vx:redirect (*github.com/openbao/openbao/v2/internal/vault.Core).persistMounts vxRPersistMounts
//vx:redirect (*github.com/openbao/openbao/v2/internal/vault.Core).moveMountStorage vxRMoveStorage
//vx:redirect (*github.com/openbao/openbao/v2/internal/vault.ExpirationManager).RevokePrefix vxRRevokePrefix
//vx:noop github.com/hashicorp/go-metrics/compat.*
//vx:unwind 200

import (
	"context"

	log "github.com/hashicorp/go-hclog"
	"github.com/openbao/openbao/sdk/v2/logical"
	"github.com/openbao/openbao/v2/internal/helper/namespace"
	"github.com/openbao/openbao/v2/internal/vault/barrier"
	"github.com/openbao/openbao/v2/internal/vault/routing"
)

type vxRLogger struct{ log.Logger }

func (vxRLogger) Debug(msg string, args ...interface{}) {}
func (vxRLogger) Trace(msg string, args ...interface{}) {}
func (vxRLogger) Info(msg string, args ...interface{})  {}
func (vxRLogger) Warn(msg string, args ...interface{})  {}
func (vxRLogger) Error(msg string, args ...interface{}) {}

type vxRBarrier struct {
	barrier.SecurityBarrier
	id int
}

var (
	vxRRootBarrier  = &vxRBarrier{id: 0}
	vxROwnBarrier   = &vxRBarrier{id: 1}
	vxRDstOwnsBarrier bool
	vxRPersistFails bool
	vxRMoveFails    bool
	vxRMoved        int
)

func vxRBarrierFor(sm *SealManager, nsPath string) barrier.SecurityBarrier {
	if vxRDstOwnsBarrier && len(nsPath) >= 3 && nsPath[:3] == "n2/" {
		return vxROwnBarrier
	}
	return vxRRootBarrier
}

func vxRTaintEntry(c *Core, ctx context.Context, nsID, mountPath string, updateStorage, unmounting bool) error {
	return nil
}
func vxRPersistMounts(c *Core, ctx context.Context, b logical.Storage, table *routing.MountTable, local *bool, mount string) error {
	if vxRPersistFails {
		return vxErr("mount table write failed")
	}
	return nil
}
func vxRMoveStorage(c *Core, ctx context.Context, src namespace.MountPathDetails, me *routing.MountEntry) error {
	if vxRMoveFails {
		return vxErr("moving mount storage failed")
	}
	vxRMoved++
	return nil
}
func vxRRevokePrefix(m *ExpirationManager, ctx context.Context, prefix string, sync bool) error { return nil }

func vxRPrefixOf(s logical.Storage) string {
	if v, ok := s.(barrier.View); ok && v != nil {
		return v.Prefix()
	}
	return "<none>"
}

func VxRemountKeepsStorageInNamespace() {
	vxRMoved = 0
	// namespace and mount UUIDs are arbitrary (distinct) identifiers: two symbolic characters each
	id := func(tag string) string {
		b := vxBytes(tag, 2)
		for _, c := range b {
			vxAssume(c >= 'a' && c <= 'z')
		}
		return string(b)
	}
	u1, u2, mu := id("uuid of n1"), id("uuid of n2"), id("mount uuid")
	vxAssume(u1 != u2)
	n1 := &namespace.Namespace{ID: "id1", UUID: u1, Path: "n1/"}
	n2 := &namespace.Namespace{ID: "id2", UUID: u2, Path: "n2/"}
	nss := []*namespace.Namespace{namespace.RootNamespace, n1, n2}
	srcNS := nss[vxChoose("source namespace(root,n1,n2)", 3)]
	dstNS := nss[vxChoose("destination namespace(root,n1,n2)", 3)]
	vxRDstOwnsBarrier = vxBool("namespace n2 has its own barrier")
	vxRPersistFails = vxBool("mount table write fails")
	vxRMoveFails = vxBool("moving storage fails")
	dstPath := []string{"kv/", "kv2/"}[vxChoose("destination mount path(kv/,kv2/)", 2)]

	c := &Core{logger: vxRLogger{}, sealManager: &SealManager{}, expiration: &ExpirationManager{}}
	c.router = routing.NewRouter(vxRLogger{})
	c.activeContext.Store(NewAtomicContext(context.Background(), nil))
	c.mounts = &routing.MountTable{}
	me := &routing.MountEntry{Table: routing.MountTableType, Type: "kv", Path: "kv/", UUID: mu, Accessor: "kv_acc",
		NamespaceID: srcNS.ID, Namespace: srcNS}
	c.mounts.Entries = append(c.mounts.Entries, me)
	srcView, err := c.mountEntryView(me)
	vxAssert("view ok", err == nil)
	vxAssert("mounted", c.router.Mount(nil, "kv/", me, srcView) == nil)
	wantSrc := NamespaceStoragePathPrefix(srcNS) + "logical/" + mu + "/"
	wantDst := NamespaceStoragePathPrefix(dstNS) + "logical/" + mu + "/"
	rootCtx := namespace.RootContext(context.Background())
	vxAssert("before: the mount's storage is confined to the source namespace", vxRPrefixOf(c.router.MatchingStorageByAPIPath(rootCtx, srcNS.Path+"kv/x")) == wantSrc)

	src := namespace.MountPathDetails{Namespace: srcNS, MountPath: "kv/"}
	dst := namespace.MountPathDetails{Namespace: dstNS, MountPath: dstPath}
	rerr := c.remountSecretsEngine(rootCtx, src, dst, true)
	vxAssert("the mounts lock is released on every exit", vxHeld(&c.mountsLock) == 0)
	if rerr != nil {
		vxReach("remount: failed")
		if srcNS == dstNS && dstPath == "kv/" {
			return // remounting onto itself is refused as a conflict
		}
		vxAssert("a failed remount leaves the entry in its source namespace", me.NamespaceID == srcNS.ID || vxRMoveFails)
		return
	}
	vxReach("remount: ok")
	vxAssert("success only when the table write and the data move succeeded", !vxRPersistFails && (!vxRMoveFails || srcNS == dstNS))
	vxAssert("the entry belongs to the destination namespace", me.NamespaceID == dstNS.ID && me.Namespace == dstNS && me.Path == dstPath && !me.Tainted)
	vxAssert("stored data moves exactly when the namespace changes", (vxRMoved == 1) == (srcNS != dstNS))
	got := c.router.MatchingStorageByAPIPath(rootCtx, dstNS.Path+dstPath+"x")
	vxAssert("after: requests to the new path get storage confined to the DESTINATION namespace", vxRPrefixOf(got) == wantDst)
	if srcNS.Path+"kv/" != dstNS.Path+dstPath {
		vxAssert("after: the old path routes nowhere", c.router.MatchingMountEntry(rootCtx, srcNS.Path+"kv/x") == nil)
	}
	vxAssert("the moved mount is routable again (not tainted)", c.router.MatchingMountEntry(rootCtx, dstNS.Path+dstPath+"x") == me)
}
