package barrier

// C12(a) — barrier.view: every operation goes through the prefixed storage view; read-only error blocks writes.
//
//vx:pkg github.com/openbao/openbao/v2/internal/vault/barrier
//vx:bodies strings,internal/stringslite,context,github.com/openbao/openbao/sdk/v2/logical
//vx:param keyLen quick=4 thorough=6

import (
	"context"

	"github.com/openbao/openbao/sdk/v2/logical"
)

func vxSpecRelative(s string) bool {
	start := 0
	for i := 0; i <= len(s); i++ {
		if i == len(s) || s[i] == '/' {
			seg := s[start:i]
			if seg == "." || seg == ".." {
				return true
			}
			start = i + 1
		}
	}
	return false
}

type vxStore struct {
	calls   int
	lastOp  string
	lastKey string
}

func (m *vxStore) List(ctx context.Context, prefix string) ([]string, error) {
	m.calls++
	m.lastOp, m.lastKey = "list", prefix
	return nil, nil
}
func (m *vxStore) ListPage(ctx context.Context, prefix string, after string, limit int) ([]string, error) {
	m.calls++
	m.lastOp, m.lastKey = "listpage", prefix
	return nil, nil
}
func (m *vxStore) Get(ctx context.Context, key string) (*logical.StorageEntry, error) {
	m.calls++
	m.lastOp, m.lastKey = "get", key
	return &logical.StorageEntry{Key: key, Value: []byte{7}}, nil
}
func (m *vxStore) Put(ctx context.Context, e *logical.StorageEntry) error {
	m.calls++
	m.lastOp, m.lastKey = "put", e.Key
	return nil
}
func (m *vxStore) Delete(ctx context.Context, key string) error {
	m.calls++
	m.lastOp, m.lastKey = "delete", key
	return nil
}

func VxBarrierView() {
	prefix := vxString("prefix", vxChoose("plen", 3))
	sub := vxString("sub", vxChoose("slen", 2))
	key := vxString("key", vxChoose("klen", vxParam("keyLen")+1))
	m := &vxStore{}
	var v View = NewView(m, prefix)
	full := prefix
	if vxBool("useSubView") {
		v = v.SubView(sub)
		full = prefix + sub
	}
	vxAssert("Prefix() reports the composed prefix", v.Prefix() == full)
	readOnly := vxBool("readOnly")
	roErr := vxErr("read only")
	if readOnly {
		v.SetReadOnlyErr(roErr)
	}
	ctx := context.Background()
	op := vxChoose("op", 5)
	var err error
	name := ""
	switch op {
	case 0:
		name = "get"
		var e *logical.StorageEntry
		e, err = v.Get(ctx, key)
		if err == nil {
			vxAssert("Get strips the prefix", e != nil && e.Key == key)
		}
	case 1:
		name = "put"
		err = v.Put(ctx, &logical.StorageEntry{Key: key})
	case 2:
		name = "delete"
		err = v.Delete(ctx, key)
	case 3:
		name = "list"
		_, err = v.List(ctx, key)
	case 4:
		name = "listpage"
		_, err = v.ListPage(ctx, key, "", 0)
	}
	if readOnly && (op == 1 || op == 2) {
		vxReach("barrier view: read-only refuses writes")
		vxAssert("read-only view refuses put/delete", err == roErr && m.calls == 0)
		return
	}
	if vxSpecRelative(key) {
		vxReach("barrier view: relative refused")
		vxAssert("relative key refused", err == logical.ErrRelativePath && m.calls == 0)
		return
	}
	vxReach("barrier view: forwarded")
	vxAssert("clean key accepted, one call", err == nil && m.calls == 1 && m.lastOp == name)
	vxAssert("forwarded key stays under the prefix", m.lastKey == full+key)
}
