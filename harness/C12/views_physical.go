package physical

// C12(a) — physical.View confinement for ALL byte strings up to the bound.
//
//vx:pkg github.com/openbao/openbao/sdk/v2/physical
//vx:bodies strings,internal/stringslite,context
//vx:param keyLen quick=5 thorough=7
//vx:param pfxLen quick=2 thorough=3

import "context"

func vxHasDotDotSegment(s string) bool {
	start := 0
	for i := 0; i <= len(s); i++ {
		if i == len(s) || s[i] == '/' {
			if s[start:i] == ".." {
				return true
			}
			start = i + 1
		}
	}
	return false
}

func vxHasDotDot(s string) bool {
	for i := 0; i+1 < len(s); i++ {
		if s[i] == '.' && s[i+1] == '.' {
			return true
		}
	}
	return false
}

type vxBackend struct {
	calls   int
	lastOp  string
	lastKey string
	lastAft string
	lastLim int
}

func (m *vxBackend) Put(ctx context.Context, e *Entry) error {
	m.calls++
	m.lastOp, m.lastKey = "put", e.Key
	return nil
}
func (m *vxBackend) Get(ctx context.Context, key string) (*Entry, error) {
	m.calls++
	m.lastOp, m.lastKey = "get", key
	return &Entry{Key: key, Value: []byte{7}}, nil
}
func (m *vxBackend) Delete(ctx context.Context, key string) error {
	m.calls++
	m.lastOp, m.lastKey = "delete", key
	return nil
}
func (m *vxBackend) List(ctx context.Context, prefix string) ([]string, error) {
	m.calls++
	m.lastOp, m.lastKey = "list", prefix
	return nil, nil
}
func (m *vxBackend) ListPage(ctx context.Context, prefix string, after string, limit int) ([]string, error) {
	m.calls++
	m.lastOp, m.lastKey, m.lastAft, m.lastLim = "listpage", prefix, after, limit
	return nil, nil
}

func vxCheckPhys(m *vxBackend, op, prefix, key string, err error) {
	if vxHasDotDotSegment(key) {
		vxReach("physview: traversal refused")
		vxAssert("a key with a '..' segment is refused", err == ErrRelativePath)
	}
	if err != nil {
		vxAssert("refusal is ErrRelativePath", err == ErrRelativePath)
		vxAssert("refused key never reaches the backend", m.calls == 0)
		vxAssert("only keys containing '..' are refused", vxHasDotDot(key))
		return
	}
	vxReach("physview: forwarded")
	vxAssert("exactly one backend call", m.calls == 1 && m.lastOp == op)
	vxAssert("forwarded key is prefix + key", m.lastKey == prefix+key)
}

func VxPhysicalView() {
	prefix := vxString("prefix", vxChoose("plen", vxParam("pfxLen")+1))
	key := vxString("key", vxChoose("klen", vxParam("keyLen")+1))
	m := &vxBackend{}
	v := NewView(m, prefix)
	ctx := context.Background()
	switch vxChoose("op", 5) {
	case 0:
		e, err := v.Get(ctx, key)
		vxCheckPhys(m, "get", prefix, key, err)
		if err == nil {
			vxAssert("Get strips the prefix", e != nil && e.Key == key)
		}
	case 1:
		vxCheckPhys(m, "put", prefix, key, v.Put(ctx, &Entry{Key: key, Value: []byte{1}}))
	case 2:
		vxCheckPhys(m, "delete", prefix, key, v.Delete(ctx, key))
	case 3:
		_, err := v.List(ctx, key)
		vxCheckPhys(m, "list", prefix, key, err)
	case 4:
		after := vxString("after", 2)
		limit := vxInt("limit")
		_, err := v.ListPage(ctx, key, after, limit)
		vxCheckPhys(m, "listpage", prefix, key, err)
		if err == nil {
			vxAssert("after and limit pass through", m.lastAft == after && m.lastLim == limit)
		}
	}
}
