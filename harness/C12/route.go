package routing

// C12 (b) — request routing confines every request to the mount (and namespace) its path names: the real
// Router.Route / routeCommon over the real radix tree of mounts, for request paths = a mount-ish prefix plus ALL
// tails over {a,b,/} up to the bound, in the root namespace and a child namespace: the backend invoked is the one
// mounted at the LONGEST prefix of <namespace path><request path>; it is handed exactly that mount's storage view,
// the path relative to the mount, a salted (never the raw) client token - for cubbyhole the token's own cubbyhole id,
// a function of the token only -, no token entry, no headers; tainted mounts serve only revoke / rollback; afterwards
// the request object is restored.
//
//vx:pkg github.com/openbao/openbao/v2/internal/vault/routing
//vx:assume backends are recording stubs; the salt functions are injective ("salt(<key>,<id>)"); storage views are the real barrier.View objects over no storage (only their prefix is observed); metrics dropped
//vx:bodies context,github.com/armon/go-radix,github.com/openbao/openbao/sdk/v2/logical,github.com/openbao/openbao/v2/internal/helper/namespace,github.com/openbao/openbao/v2/internal/vault/barrier,github.com/openbao/openbao/sdk/v2/helper/consts
//vx:redirect github.com/openbao/openbao/sdk/v2/helper/salt.SaltID vxSaltFn
//vx:redirect (*github.com/openbao/openbao/sdk/v2/helper/salt.Salt).SaltID vxTokenSalt
//vx:noop github.com/hashicorp/go-metrics/compat.*
//vx:param tail quick=2 thorough=3
//vx:unwind 300

import (
	"context"

	log "github.com/hashicorp/go-hclog"
	"github.com/openbao/openbao/sdk/v2/helper/salt"
	"github.com/openbao/openbao/sdk/v2/logical"
	"github.com/openbao/openbao/v2/internal/helper/namespace"
	"github.com/openbao/openbao/v2/internal/vault/barrier"
)

type vxRLog struct{ log.Logger }

func (vxRLog) Debug(msg string, args ...interface{}) {}
func (vxRLog) Trace(msg string, args ...interface{}) {}
func (vxRLog) Info(msg string, args ...interface{})  {}
func (vxRLog) Warn(msg string, args ...interface{})  {}
func (vxRLog) Error(msg string, args ...interface{}) {}

func vxSaltFn(saltVal, id string, hash salt.HashFunc) string { return "salt(" + saltVal + "," + id + ")" }
func vxTokenSalt(s *salt.Salt, id string) string            { return "ts(" + id + ")" }

type vxSeen struct {
	mount                 string
	path, token, storage  string
	hasTE, hasHeaders     bool
	mountPoint, mountType string
}

var vxCalls []vxSeen

type vxBackend struct {
	logical.Backend
	name string
}

func (b *vxBackend) HandleRequest(ctx context.Context, req *logical.Request) (*logical.Response, error) {
	s := vxSeen{mount: b.name, path: req.Path, token: req.ClientToken, hasTE: req.TokenEntry() != nil, hasHeaders: req.Headers != nil, mountPoint: req.MountPoint, mountType: req.MountType}
	if v, ok := req.Storage.(barrier.View); ok && v != nil {
		s.storage = v.Prefix()
	}
	vxCalls = append(vxCalls, s)
	return &logical.Response{Data: map[string]any{"from": b.name}}, nil
}
func (b *vxBackend) SpecialPaths() *logical.Paths { return nil }

type vxMount struct {
	full string // namespace path + mount path
	ns   *namespace.Namespace
	path string
	typ  string
	uuid string
}

func VxRouteConfinement() {
	vxCalls = nil
	n1 := &namespace.Namespace{ID: "n1", UUID: "u1", Path: "n1/"}
	mounts := []vxMount{
		{"a/", namespace.RootNamespace, "a/", "kv", "m-a"},
		{"ab/", namespace.RootNamespace, "ab/", "kv", "m-ab"}, // not nested (nested mounts are refused), but shares a stem
		{"sys/", namespace.RootNamespace, "sys/", MountTypeSystem, "m-sys"},
		{"cubbyhole/", namespace.RootNamespace, "cubbyhole/", "cubbyhole", "m-cub"},
		{"n1/a/", n1, "a/", "kv", "m-n1a"},
		{"n1/cubbyhole/", n1, "cubbyhole/", "cubbyhole", "m-n1cub"},
	}
	r := NewRouter(vxRLog{})
	r.SetTokenStoreSaltFunc(func(context.Context) (*salt.Salt, error) { return &salt.Salt{}, nil })
	present := make([]bool, len(mounts))
	for i, m := range mounts {
		present[i] = i >= 2 || vxBool("mounted: "+m.full) // sys and cubbyhole always exist
		if !present[i] {
			continue
		}
		me := &MountEntry{Table: MountTableType, Type: m.typ, Path: m.path, UUID: m.uuid, Accessor: "acc-" + m.uuid, NamespaceID: m.ns.ID, Namespace: m.ns}
		view := barrier.NewView(nil, "view-of/"+m.uuid+"/")
		vxAssert("mount ok", r.Mount(&vxBackend{name: m.full}, m.path, me, view) == nil)
	}
	taint := vxBool("mount a/ is tainted")
	if taint && present[0] {
		vxAssert("taint ok", r.Taint(namespace.RootContext(context.Background()), "a/") == nil)
	}

	reqNS := namespace.RootNamespace
	if vxBool("request in namespace n1") {
		reqNS = n1
	}
	prefixes := []string{"", "a/", "ab/", "ab", "sys/", "cubbyhole/", "b"}
	pfx := prefixes[vxChoose("request path prefix", len(prefixes))]
	tb := vxBytes("tail", vxChoose("tail length", vxParam("tail")+1))
	for _, c := range tb {
		vxAssume(c == 'a' || c == 'b' || c == '/')
	}
	path := pfx + string(tb)
	op := []logical.Operation{logical.ReadOperation, logical.UpdateOperation, logical.RevokeOperation}[vxChoose("operation(read,update,revoke)", 3)]
	te := &logical.TokenEntry{ID: "tok-id", Type: logical.TokenTypeService, NamespaceID: reqNS.ID, CubbyholeID: "cubby-of-tok"}
	if vxBool("batch token") {
		te.Type = logical.TokenTypeBatch
	}
	customID := vxBool("root-namespace token with a caller-chosen id")
	token := "s.tok"
	if customID {
		token = "custom"
	}
	req := &logical.Request{Operation: op, Path: path, ClientToken: token, Headers: map[string][]string{"X-Y": {"z"}}}
	req.SetTokenEntry(te)
	ctx := namespace.ContextWithNamespace(context.Background(), reqNS)
	resp, err := r.Route(ctx, req)

	// reference: the longest mounted prefix of <ns path><path> (or of that plus "/" when nothing matches)
	full := reqNS.Path + path
	best := -1
	match := func(s string) int {
		b := -1
		for i, m := range mounts {
			if present[i] && len(s) >= len(m.full) && s[:len(m.full)] == m.full && (b < 0 || len(m.full) > len(mounts[b].full)) {
				b = i
			}
		}
		return b
	}
	best = match(full)
	adjusted := path
	if best < 0 && (len(path) == 0 || path[len(path)-1] != '/') {
		best = match(full + "/")
		adjusted = path + "/"
	}
	vxAssert("the caller's client token is never replaced by routing", req.ClientToken == token || (len(vxCalls) == 0 && err == nil && resp != nil && resp.IsError()))
	if best < 0 {
		vxReach("route: no mount")
		vxAssert("a path under no mount reaches no backend", len(vxCalls) == 0 && err != nil)
		return
	}
	m := mounts[best]
	if m.full == "a/" && taint && op != logical.RevokeOperation {
		vxReach("route: tainted")
		vxAssert("a tainted mount serves only revoke / rollback", len(vxCalls) == 0 && err != nil)
		return
	}
	isCubby := m.typ == "cubbyhole"
	if isCubby && te.Type != logical.TokenTypeService {
		vxReach("route: cubbyhole refused for non-service token")
		vxAssert("cubbyhole refuses non-service tokens", len(vxCalls) == 0 && resp != nil && resp.IsError())
		return
	}
	vxReach("route: routed")
	vxAssert("exactly one backend is invoked", len(vxCalls) == 1 && err == nil)
	// (observation, not asserted for refusals: the early returns in the cubbyhole branch leave req.Path / req.Storage
	// as adjusted for the mount, because the restoring defer is registered later)
	vxAssert("after a routed request the request object is restored", req.ClientToken == token && req.Storage == nil && req.TokenEntry() == te && req.Headers != nil && req.Path == adjusted)
	c := vxCalls[0]
	vxAssert("the backend invoked is the one mounted at the longest prefix of <namespace><path>", c.mount == m.full)
	vxAssert("it is handed that mount's own storage view", c.storage == "view-of/"+m.uuid+"/")
	rel := (reqNS.Path + adjusted)[len(m.full):]
	if rel == "/" {
		rel = ""
	}
	vxAssert("it sees the path relative to its mount point", c.path == rel && c.mountPoint == m.full && c.mountType == m.typ)
	vxAssert("it sees neither the token entry nor the request headers", !c.hasTE && !c.hasHeaders)
	switch {
	case m.typ == MountTypeSystem:
		vxAssert("the system backend gets the client token as is", c.token == token)
	case isCubby:
		vxReach("route: cubbyhole")
		if reqNS == namespace.RootNamespace && customID {
			vxAssert("cubbyhole of a root-namespace custom-id token is keyed by the double-salted token id", c.token == "salt("+m.uuid+",ts("+token+"))")
		} else {
			vxAssert("cubbyhole is keyed by the token's own cubbyhole id", c.token == "cubby-of-tok")
		}
	default:
		vxAssert("other backends get a salted client token, never the raw one", c.token == "salt("+m.uuid+","+token+")")
	}
}
