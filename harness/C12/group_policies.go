package vault

// C12 — "with the default group-policy application mode a token authorises requests only in its own namespace and its
// descendants": the real Core.filterGroupPoliciesByNS / getApplicableGroupPolicies (with the real
// namespace.HasParent) for EVERY token namespace and every set of group-policy namespaces out of a tree with nested,
// sibling and prefix-sharing paths (root, a/, a/b/, ab/, c/), policies that exist or not, and the application mode
// (default, explicit hierarchy, "any"): in the default mode a group policy is applied only if it is defined in the
// token's own namespace or in a DESCENDANT of it - never one of a parent, sibling or look-alike namespace; every policy
// of the token's own namespace is applied; nothing is invented.
//
//vx:pkg github.com/openbao/openbao/v2/internal/vault
//vx:assume (this file) the namespace store and the policy-type lookup are stubs (a policy either exists as an ACL policy in its namespace or does not); the application mode is read through a stub of GetGroupPolicyApplicationMode (its decoding of the stored record is plain JSON)
//vx:bodies context,strings,internal/stringslite,github.com/openbao/openbao/v2/internal/helper/namespace,github.com/hashicorp/go-secure-stdlib/strutil,github.com/openbao/openbao/v2/internal/vault/policy,errors,internal/reflectlite
//vx:redirect (*github.com/openbao/openbao/v2/internal/vault.Core).NamespaceByID vxGPNamespaceByID
//vx:redirect (*github.com/openbao/openbao/v2/internal/vault.Core).GetGroupPolicyApplicationMode vxGPMode
//vx:redirect (*github.com/openbao/openbao/v2/internal/vault/policy.Store).GetNonEGPPolicyType vxGPPolicyType
//vx:unwind 300

import (
	"context"

	log "github.com/hashicorp/go-hclog"
	"github.com/openbao/openbao/v2/internal/helper/namespace"
	"github.com/openbao/openbao/v2/internal/vault/policy"
)

type vxGPLog struct{ log.Logger }

func (vxGPLog) Debug(msg string, args ...interface{}) {}
func (vxGPLog) Trace(msg string, args ...interface{}) {}
func (vxGPLog) Info(msg string, args ...interface{})  {}
func (vxGPLog) Warn(msg string, args ...interface{})  {}
func (vxGPLog) Error(msg string, args ...interface{}) {}

var vxGPTree = []*namespace.Namespace{
	namespace.RootNamespace,
	{ID: "na", Path: "a/"},
	{ID: "nab", Path: "a/b/"},
	{ID: "nx", Path: "ab/"},
	{ID: "nc", Path: "c/"},
}

// reference: child is parent or lies below it (segment-wise)
func vxGPBelowOrSame(child, parent *namespace.Namespace) bool {
	c, p := child.Path, parent.Path
	return len(c) >= len(p) && c[:len(p)] == p
}

var (
	vxGPModeVal string
	vxGPMissing string // "<ns id>/<policy>" that does not exist
)

func vxGPNamespaceByID(c *Core, ctx context.Context, id string) (*namespace.Namespace, error) {
	for _, n := range vxGPTree {
		if n.ID == id {
			return n, nil
		}
	}
	return nil, nil
}
func vxGPMode(c *Core, ctx context.Context) (string, error) { return vxGPModeVal, nil }
func vxGPPolicyType(ps *policy.Store, ctx context.Context, name string) (*policy.Type, error) {
	ns, _ := namespace.FromContext(ctx)
	if ns.ID+"/"+name == vxGPMissing {
		return nil, policy.ErrPolicyNotExist
	}
	t := policy.TypeACL
	return &t, nil
}

func VxGroupPoliciesFollowTheHierarchy() {
	c := &Core{logger: vxGPLog{}, policyStore: &policy.Store{}}
	tokenNS := vxGPTree[vxChoose("token namespace(root,a/,a/b/,ab/,c/)", len(vxGPTree))]
	vxGPModeVal = []string{groupPolicyApplicationModeWithinNamespaceHierarchy, "any"}[vxChoose("application mode(default hierarchy, any)", 2)]
	groups := map[string][]string{}
	for _, n := range vxGPTree {
		if vxBool("the entity is in a group of namespace " + n.Path + " carrying policies") {
			groups[n.ID] = []string{"p", "q"}
		}
	}
	vxGPMissing = ""
	if vxBool("one of the policies does not exist") {
		vxGPMissing = vxGPTree[vxChoose("namespace of the missing policy", len(vxGPTree))].ID + "/q"
	}
	out, err := c.filterGroupPoliciesByNS(namespace.ContextWithNamespace(context.Background(), tokenNS), tokenNS, groups)
	vxAssert("filtering succeeds", err == nil)
	vxReach("group policies: filtered")
	for nsID, l := range out {
		var pns *namespace.Namespace
		for _, n := range vxGPTree {
			if n.ID == nsID {
				pns = n
			}
		}
		vxAssert("only namespaces the entity has groups in appear", pns != nil && len(groups[nsID]) > 0 && len(l) > 0)
		for _, p := range l {
			vxAssert("nothing is invented", p == "p" || p == "q")
		}
		if vxGPModeVal == groupPolicyApplicationModeWithinNamespaceHierarchy {
			if pns != tokenNS {
				vxReach("group policies: a policy of another namespace applies")
			}
			vxAssert("in the default mode a group policy applies only if it is defined in the token's namespace or a descendant of it", vxGPBelowOrSame(pns, tokenNS))
		}
	}
	if len(groups[tokenNS.ID]) > 0 {
		vxAssert("every group policy of the token's own namespace is applied", len(out[tokenNS.ID]) == 2)
	}
	for _, n := range vxGPTree {
		if n == tokenNS || len(groups[n.ID]) == 0 {
			continue
		}
		if vxGPBelowOrSame(n, tokenNS) || vxGPModeVal == "any" {
			want := 2
			if vxGPMissing == n.ID+"/q" {
				want = 1
			}
			vxAssert("group policies of descendant namespaces (any namespace in mode 'any') are applied when they exist", len(out[n.ID]) == want)
		}
	}
}
