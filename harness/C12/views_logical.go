package logical

// C12(a) — logical.storageView confinement and IsRelativePath, for ALL byte strings up to the bound.
//
//vx:pkg github.com/openbao/openbao/sdk/v2/logical
//vx:bodies strings,internal/stringslite,context
//vx:param relLen quick=8 thorough=11
//vx:param keyLen quick=5 thorough=7
//vx:param pfxLen quick=2 thorough=3

import (
	"context"
)

// specification: some '/'-separated segment is "." or ".."
func vxSpecRelative(s string) bool {
	start := 0
	for i := 0; i <= len(s); i++ {
		if i == len(s) || s[i] == '/' {
			seg := s[start:i]
			if seg == "." || seg == ".." {
				return true
			}
			start = i + 1
		}
	}
	return false
}

func VxIsRelativePath() {
	n := vxChoose("len", vxParam("relLen")+1)
	s := vxString("path", n)
	got := IsRelativePath(s)
	want := vxSpecRelative(s)
	if want {
		vxReach("relpath: relative")
	} else {
		vxReach("relpath: clean")
	}
	vxAssert("IsRelativePath equals the segment-based definition", got == want)
}

// recording model of the underlying store
type vxStore struct {
	calls   int
	lastOp  string
	lastKey string
	lastAft string
	lastLim int
	lastVal []byte
}

func (m *vxStore) List(ctx context.Context, prefix string) ([]string, error) {
	m.calls++
	m.lastOp, m.lastKey = "list", prefix
	return []string{"x"}, nil
}

func (m *vxStore) ListPage(ctx context.Context, prefix string, after string, limit int) ([]string, error) {
	m.calls++
	m.lastOp, m.lastKey, m.lastAft, m.lastLim = "listpage", prefix, after, limit
	return []string{"x"}, nil
}

func (m *vxStore) Get(ctx context.Context, key string) (*StorageEntry, error) {
	m.calls++
	m.lastOp, m.lastKey = "get", key
	return &StorageEntry{Key: key, Value: []byte{7}}, nil
}

func (m *vxStore) Put(ctx context.Context, e *StorageEntry) error {
	m.calls++
	m.lastOp, m.lastKey, m.lastVal = "put", e.Key, e.Value
	return nil
}

func (m *vxStore) Delete(ctx context.Context, key string) error {
	m.calls++
	m.lastOp, m.lastKey = "delete", key
	return nil
}

func vxCheckForward(m *vxStore, op, prefix, key string, err error) {
	if vxSpecRelative(key) {
		vxReach("view: relative key refused")
		vxAssert("relative key is refused with ErrRelativePath", err == ErrRelativePath)
		vxAssert("refused key never reaches the underlying store", m.calls == 0)
		return
	}
	vxReach("view: clean key forwarded")
	vxAssert("clean key is accepted", err == nil)
	vxAssert("exactly one call on the underlying store", m.calls == 1 && m.lastOp == op)
	vxAssert("forwarded key is prefix + key (stays under the prefix)", m.lastKey == prefix+key)
}

func VxStorageView() {
	prefix := vxString("prefix", vxChoose("plen", vxParam("pfxLen")+1))
	key := vxString("key", vxChoose("klen", vxParam("keyLen")+1))
	m := &vxStore{}
	v := NewStorageView(m, prefix)
	ctx := context.Background()
	switch vxChoose("op", 5) {
	case 0:
		e, err := v.Get(ctx, key)
		vxCheckForward(m, "get", prefix, key, err)
		if err == nil {
			vxAssert("Get returns the key with the prefix stripped", e != nil && e.Key == key)
		} else {
			vxAssert("no entry with an error", e == nil)
		}
	case 1:
		err := v.Put(ctx, &StorageEntry{Key: key, Value: []byte{1}})
		vxCheckForward(m, "put", prefix, key, err)
	case 2:
		err := v.Delete(ctx, key)
		vxCheckForward(m, "delete", prefix, key, err)
	case 3:
		_, err := v.List(ctx, key)
		vxCheckForward(m, "list", prefix, key, err)
	case 4:
		after := vxString("after", 2)
		limit := vxInt("limit")
		_, err := v.ListPage(ctx, key, after, limit)
		vxCheckForward(m, "listpage", prefix, key, err)
		if err == nil {
			vxAssert("after and limit are passed through unchanged", m.lastAft == after && m.lastLim == limit)
		}
	}
}

func VxSubView() {
	prefix := vxString("prefix", vxChoose("plen", 3))
	sub := vxString("sub", vxChoose("slen", 3))
	key := vxString("key", vxChoose("klen", 4))
	m := &vxStore{}
	v := NewStorageView(m, prefix).SubView(sub)
	vxAssert("SubView prefix composes", v.Prefix() == prefix+sub)
	err := v.Delete(context.Background(), key)
	if vxSpecRelative(key) {
		vxAssert("subview: relative key refused", err == ErrRelativePath && m.calls == 0)
	} else {
		vxReach("subview: forwarded")
		vxAssert("subview: key stays under prefix+sub", err == nil && m.lastKey == prefix+sub+key)
	}
}
