package vault

// C04 (lease side) — every lease issued under a revoked token is queued for immediate revocation: the real
// ExpirationManager.RevokeByToken (lookupLeasesByToken over the token->lease index, lazyRevokeInternal, loadEntry,
// persistEntry) for a token of the root or of a child namespace whose leases live in its OWN namespace and / or in a
// CHILD namespace it was used in (every non-empty combination, up to three leases), each lease in storage or already
// gone, with ONE storage failure at any call: when RevokeByToken reports success every indexed lease that is still in
// storage has its expiry set to now (persisted, and handed to the expiry tracker), in whichever namespace it lives;
// leases of other tokens are untouched.
//
//vx:pkg github.com/openbao/openbao/v2/internal/vault
//vx:assume lease and index storage are per-namespace key/value models with boxed lease entries; salting is "s-"+id; the token's own lease (te.Path) is cleaned up by revokeCommon, a recording stub here; the expiry tracker is a recording stub; clock model (whole seconds)
//vx:bodies context,strings,internal/stringslite,path,github.com/openbao/openbao/sdk/v2/logical,github.com/openbao/openbao/v2/internal/helper/namespace
//vx:redirect (*github.com/openbao/openbao/v2/internal/vault.TokenStore).SaltID vxRLSaltID
//vx:redirect (*github.com/openbao/openbao/v2/internal/vault.Core).NamespaceByID vxRLNamespaceByID
//vx:redirect (*github.com/openbao/openbao/v2/internal/vault.ExpirationManager).tokenIndexView vxRLIndexView
//vx:redirect (*github.com/openbao/openbao/v2/internal/vault.ExpirationManager).leaseView vxRLLeaseView
//vx:redirect (*github.com/openbao/openbao/v2/internal/vault.ExpirationManager).updatePending vxRLUpdatePending
//vx:redirect (*github.com/openbao/openbao/v2/internal/vault.ExpirationManager).revokeCommon vxRLRevokeCommon
//vx:redirect github.com/openbao/openbao/v2/internal/vault.decodeLeaseEntry vxRLDecode
//vx:redirect (*github.com/openbao/openbao/v2/internal/vault.leaseEntry).encode vxRLEncode
//vx:noop github.com/hashicorp/go-metrics/compat.*
//vx:unwind 400

import (
	"context"
	"time"

	"github.com/openbao/openbao/sdk/v2/logical"
	"github.com/openbao/openbao/v2/internal/helper/namespace"
	"github.com/openbao/openbao/v2/internal/vault/barrier"
)

var (
	vxRLChild = &namespace.Namespace{ID: "n1", Path: "n1/"}
	vxRLGrand = &namespace.Namespace{ID: "n2", Path: "n1/n2/"}
)

type vxRLKV struct {
	barrier.View
	ns   string
	kind string
}

type vxRLWorld struct {
	keys    []string // "<kind>|<ns>|<key>"
	vals    [][]byte
	calls   int
	failAt  int
	pending []string
	cleaned []string
}

var vxRL *vxRLWorld

func (w *vxRLWorld) find(k string) int {
	for i := range w.keys {
		if w.keys[i] == k {
			return i
		}
	}
	return -1
}
func (w *vxRLWorld) step() bool {
	w.calls++
	return w.failAt >= 0 && w.calls-1 == w.failAt
}

func (v *vxRLKV) full(k string) string { return v.kind + "|" + v.ns + "|" + k }
func (v *vxRLKV) Get(ctx context.Context, k string) (*logical.StorageEntry, error) {
	if vxRL.step() {
		return nil, vxErr("injected storage failure")
	}
	if i := vxRL.find(v.full(k)); i >= 0 {
		return &logical.StorageEntry{Key: k, Value: vxRL.vals[i]}, nil
	}
	return nil, nil
}
func (v *vxRLKV) Put(ctx context.Context, e *logical.StorageEntry) error {
	if vxRL.step() {
		return vxErr("injected storage failure")
	}
	if i := vxRL.find(v.full(e.Key)); i >= 0 {
		vxRL.vals[i] = e.Value
		return nil
	}
	vxRL.keys, vxRL.vals = append(vxRL.keys, v.full(e.Key)), append(vxRL.vals, e.Value)
	return nil
}
func (v *vxRLKV) List(ctx context.Context, prefix string) ([]string, error) {
	if vxRL.step() {
		return nil, vxErr("injected storage failure")
	}
	var out []string
	p := v.full(prefix)
	for _, k := range vxRL.keys {
		if len(k) >= len(p) && k[:len(p)] == p {
			out = append(out, k[len(p):])
		}
	}
	return out, nil
}

func vxRLSaltID(ts *TokenStore, ctx context.Context, id string) (string, error) {
	return "s-" + id, nil
}
func vxRLNamespaceByID(c *Core, ctx context.Context, id string) (*namespace.Namespace, error) {
	switch id {
	case namespace.RootNamespaceID:
		return namespace.RootNamespace, nil
	case "n1":
		return vxRLChild, nil
	case "n2":
		return vxRLGrand, nil
	}
	return nil, nil
}
func vxRLIndexView(m *ExpirationManager, ns *namespace.Namespace) barrier.View {
	return &vxRLKV{ns: ns.ID, kind: "index"}
}
func vxRLLeaseView(m *ExpirationManager, ns *namespace.Namespace) barrier.View {
	return &vxRLKV{ns: ns.ID, kind: "lease"}
}
func vxRLUpdatePending(m *ExpirationManager, le *leaseEntry) {
	if le.ExpireTime.After(time.Now()) {
		return
	}
	vxRL.pending = append(vxRL.pending, le.LeaseID)
}
func vxRLRevokeCommon(m *ExpirationManager, ctx context.Context, leaseID string, force, skipToken bool) error {
	vxRL.cleaned = append(vxRL.cleaned, leaseID)
	return nil
}
func vxRLDecode(buf []byte) (*leaseEntry, error) {
	out := new(leaseEntry)
	if !vxUnbox(buf, out) {
		return nil, vxErr("invalid lease entry")
	}
	return out, nil
}
func vxRLEncode(le *leaseEntry) ([]byte, error) { return vxBox(*le), nil }

func vxRLHas(l []string, s string) bool {
	for _, x := range l {
		if x == s {
			return true
		}
	}
	return false
}

func VxRevokeByTokenReachesEveryLease() {
	vxRL = &vxRLWorld{failAt: -1}
	m := &ExpirationManager{core: &Core{}, tokenStore: &TokenStore{}, useCache: true}
	// the token: of the root namespace or of n1
	tokNS, useNS := namespace.RootNamespace, vxRLChild // its own namespace, and a child namespace it may be used in
	tok := "tok"
	if vxBool("token belongs to child namespace n1") {
		tokNS, useNS = vxRLChild, vxRLGrand
		tok = "tok.n1"
	}
	te := &logical.TokenEntry{ID: tok, NamespaceID: tokNS.ID, Path: "auth/token/create"}
	future := time.Now().Add(time.Hour)
	type lease struct {
		id      string
		ns      *namespace.Namespace
		stored  bool
		indexed bool
	}
	suffix := func(ns *namespace.Namespace) string {
		if ns.ID == namespace.RootNamespaceID {
			return ""
		}
		return "." + ns.ID
	}
	leases := []*lease{
		{id: "kv/creds/a/h1" + suffix(tokNS), ns: tokNS},
		{id: "kv/creds/a/h2" + suffix(useNS), ns: useNS},
		{id: "kv/creds/b/h3" + suffix(useNS), ns: useNS},
	}
	any := false
	for _, l := range leases {
		l.indexed = vxBool("token has lease " + l.id)
		if !l.indexed {
			continue
		}
		any = true
		l.stored = vxBool("lease entry still in storage: " + l.id)
		// the token->lease index lives in the TOKEN's namespace (createIndexByToken)
		vxRL.keys = append(vxRL.keys, "index|"+tokNS.ID+"|s-"+tok+"/s-"+l.id)
		vxRL.vals = append(vxRL.vals, []byte(l.id))
		if l.stored {
			vxRL.keys = append(vxRL.keys, "lease|"+l.ns.ID+"|"+l.id)
			vxRL.vals = append(vxRL.vals, vxBox(leaseEntry{LeaseID: l.id, ClientToken: tok, Path: "kv/creds/a", ExpireTime: future, IssueTime: time.Now()}))
		}
	}
	vxAssume(any)
	// another token's lease, in the child namespace
	other := "kv/creds/a/other" + suffix(useNS)
	vxRL.keys = append(vxRL.keys, "lease|"+useNS.ID+"|"+other)
	vxRL.vals = append(vxRL.vals, vxBox(leaseEntry{LeaseID: other, ClientToken: "someone-else", ExpireTime: future}))
	fail := vxChoose("failing storage call (12 = none)", 13)
	if fail < 12 {
		vxRL.failAt = fail
	}
	before := time.Now()
	err := m.RevokeByToken(namespace.ContextWithNamespace(context.Background(), tokNS), te)
	after := time.Now()
	vxAssume(vxTimeLE(after, before))
	if err != nil {
		vxReach("revoke by token: failed (caller retries)")
		vxAssert("only an injected storage failure makes it fail", fail < 12)
		return
	}
	vxReach("revoke by token: reported successful")
	for _, l := range leases {
		if !l.indexed || !l.stored {
			continue
		}
		i := vxRL.find("lease|" + l.ns.ID + "|" + l.id)
		vxAssert("the lease entry is still where it was", i >= 0)
		le := new(leaseEntry)
		vxAssert("lease entry decodes", vxUnbox(vxRL.vals[i], le))
		if l.ns != tokNS {
			vxReach("revoke by token: lease in a namespace other than the token's")
		}
		vxAssert("every lease issued under the revoked token is queued for immediate revocation (expiry = now), in whichever namespace it lives", !le.ExpireTime.After(before))
		vxAssert("and is handed to the expiry tracker", vxRLHas(vxRL.pending, l.id))
	}
	oi := vxRL.find("lease|" + useNS.ID + "|" + other)
	ole := new(leaseEntry)
	vxAssert("another token's lease is untouched", oi >= 0 && vxUnbox(vxRL.vals[oi], ole) && ole.ExpireTime.Equal(future))
	vxAssert("the token's own lease is cleaned up", len(vxRL.cleaned) == 1)
}
