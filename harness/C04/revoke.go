package vault

// C04 — token revocation is final and cascades, also when an earlier attempt was interrupted by ONE storage /
// collaborator failure at ANY call and then retried: whenever revokeInternal / revokeTreeInternal report success, the
// token entry is gone, its cubbyhole destroy and lease revocation ran successfully, its parent and accessor index
// entries are removed, direct children are orphaned (single revoke) or revoked too (tree revoke).
//
//vx:pkg github.com/openbao/openbao/v2/internal/vault
//vx:bodies context,github.com/openbao/openbao/sdk/v2/helper/locksutil,github.com/openbao/openbao/v2/internal/helper/namespace
//vx:redirect (*github.com/openbao/openbao/v2/internal/vault.TokenStore).lookupInternal vxLookupInternal
//vx:redirect (*github.com/openbao/openbao/v2/internal/vault.TokenStore).store vxStoreToken
//vx:redirect (*github.com/openbao/openbao/v2/internal/vault.TokenStore).SaltID vxSaltID
//vx:redirect (*github.com/openbao/openbao/v2/internal/vault.TokenStore).idView vxIDView
//vx:redirect (*github.com/openbao/openbao/v2/internal/vault.TokenStore).parentView vxParentView
//vx:redirect (*github.com/openbao/openbao/v2/internal/vault.TokenStore).accessorView vxAccessorView
//vx:redirect (*github.com/openbao/openbao/v2/internal/vault.Core).NamespaceByID vxNamespaceByID
//vx:redirect (*github.com/openbao/openbao/v2/internal/vault.ExpirationManager).RevokeByToken vxRevokeByToken
//vx:redirect (*github.com/openbao/openbao/sdk/v2/framework.Backend).Logger vxBackendLogger
//vx:redirect github.com/openbao/openbao/sdk/v2/helper/locksutil.LockIndexForKey vxLockIndex
//vx:redirect (*github.com/openbao/openbao/v2/internal/vault/routing.Router).MatchingStorageByAPIPath vxCubbyStorage
//vx:redirect github.com/openbao/openbao/sdk/v2/helper/salt.SaltID vxSaltFn
//vx:redirect github.com/openbao/openbao/sdk/v2/logical.ClearView vxClearView
//vx:redirect encoding/json.Marshal vxJSONBox
//vx:noop github.com/hashicorp/go-metrics/compat.*
//vx:param treeSize quick=3 thorough=5
//vx:param faults quick=1 thorough=2
//vx:unwind 400

import (
	"context"
	"sync"

	log "github.com/hashicorp/go-hclog"
	"github.com/openbao/openbao/sdk/v2/framework"
	"github.com/openbao/openbao/sdk/v2/helper/locksutil"
	"github.com/openbao/openbao/sdk/v2/helper/salt"
	"github.com/openbao/openbao/sdk/v2/logical"
	"github.com/openbao/openbao/v2/internal/helper/namespace"
	"github.com/openbao/openbao/v2/internal/vault/barrier"
	"github.com/openbao/openbao/v2/internal/vault/routing"
)

type vxLogger struct{ log.Logger }

func (vxLogger) Debug(msg string, args ...interface{}) {}
func (vxLogger) Trace(msg string, args ...interface{}) {}
func (vxLogger) Info(msg string, args ...interface{})  {}
func (vxLogger) Warn(msg string, args ...interface{})  {}
func (vxLogger) Error(msg string, args ...interface{}) {}

func vxBackendLogger(b *framework.Backend) log.Logger { return vxLogger{} }
func vxLockIndex(key string) uint8                    { return 0 }

// ---- world model (assumptions: salted id = "s-"+id; views are key sets; one injected failure at call index failAt) ----

type vxWorld struct {
	tokens    []*logical.TokenEntry // stored entries (keyed by "s-"+ID)
	parentIdx []string              // "s-parent/s-child"
	accIdx    []string              // "s-accessor"
	cubbyOK   []string              // ids whose cubbyhole destroy succeeded
	leasesOK  []string              // ids whose leases were revoked / queued successfully
	calls     int
	failAt    int
}

var vxW *vxWorld

// one scheduling point anywhere in the operation under test: before the vxHookAt-th storage / collaborator call another
// request runs to completion
var (
	vxHookAt int
	vxHook   func()
)

func vxStep() error {
	if f := vxHook; f != nil && vxW.calls == vxHookAt {
		vxHook = nil
		f()
	}
	vxW.calls++
	if vxW.failAt >= 0 && vxW.calls-1 == vxW.failAt {
		return vxErr("injected failure")
	}
	return nil
}

func vxHas(set []string, k string) bool {
	for _, x := range set {
		if x == k {
			return true
		}
	}
	return false
}

func vxDel(set []string, k string) []string {
	var out []string
	for _, x := range set {
		if x != k {
			out = append(out, x)
		}
	}
	return out
}

func vxFindTok(salted string) int {
	for i, t := range vxW.tokens {
		if "s-"+t.ID == salted {
			return i
		}
	}
	return -1
}

func vxSaltID(ts *TokenStore, ctx context.Context, id string) (string, error) { return "s-" + id, nil }

var vxNS1 = &namespace.Namespace{ID: "n1", Path: "n1/"}

func vxNamespaceByID(c *Core, ctx context.Context, nsID string) (*namespace.Namespace, error) {
	if nsID == "n1" {
		return vxNS1, nil
	}
	return namespace.RootNamespace, nil
}

func vxCtxNS(ctx context.Context) string {
	ns, err := namespace.FromContext(ctx)
	if err != nil || ns == nil {
		return namespace.RootNamespaceID
	}
	return ns.ID
}

func vxLookupInternal(ts *TokenStore, ctx context.Context, id string, salted, tainted bool) (*logical.TokenEntry, error) {
	if err := vxStep(); err != nil {
		vxTrace("lookup " + id + " -> injected failure")
		return nil, err
	}
	vxTrace("lookup " + id)
	if !salted {
		id = "s-" + id
	}
	i := vxFindTok(id)
	if i < 0 {
		return nil, nil
	}
	if salted && vxW.tokens[i].NamespaceID != vxCtxNS(ctx) {
		return nil, nil // a salted id is resolved in the token-id view of the context's namespace
	}
	if vxW.tokens[i].NumUses < 0 && !tainted {
		return nil, nil
	}
	c := *vxW.tokens[i]
	return &c, nil
}

func vxStoreToken(ts *TokenStore, ctx context.Context, te *logical.TokenEntry) error {
	if err := vxStep(); err != nil {
		vxTrace("store " + te.ID + " -> injected failure")
		return err
	}
	vxTrace("store " + te.ID + " parent=" + te.Parent)
	c := *te
	if i := vxFindTok("s-" + te.ID); i >= 0 {
		vxW.tokens[i] = &c
	} else {
		vxW.tokens = append(vxW.tokens, &c)
	}
	return nil
}

func vxCubbyDestroy(ctx context.Context, ts *TokenStore, te *logical.TokenEntry) error {
	if err := vxStep(); err != nil {
		return err
	}
	vxW.cubbyOK = append(vxW.cubbyOK, te.ID)
	return nil
}

func vxRevokeByToken(m *ExpirationManager, ctx context.Context, te *logical.TokenEntry) error {
	if err := vxStep(); err != nil {
		return err
	}
	vxW.leasesOK = append(vxW.leasesOK, te.ID)
	return nil
}

// views
type vxView struct{ kind, ns string }

func (v *vxView) Prefix() string                { return v.kind + "/" }
func (v *vxView) SubView(p string) barrier.View { return &vxSubView{vxView: *v, prefix: p} }
func (v *vxView) SetReadOnlyErr(error)          {}
func (v *vxView) GetReadOnlyErr() error         { return nil }
func (v *vxView) Get(ctx context.Context, k string) (*logical.StorageEntry, error) {
	return nil, vxStep()
}
func (v *vxView) Put(ctx context.Context, e *logical.StorageEntry) error {
	if err := vxStep(); err != nil {
		return err
	}
	switch v.kind {
	case "parent":
		// the one scheduling point modelled for child creation: between "the parent exists" (looked up just before)
		// and the write of the parent index, another request may run to completion
		if f := vxAtParentIndexWrite; f != nil {
			vxAtParentIndexWrite = nil
			f()
		}
		vxW.parentIdx = append(vxW.parentIdx, v.nsPfx()+e.Key)
	case "id":
		te := &logical.TokenEntry{}
		if vxUnbox(e.Value, te) {
			if i := vxFindTok(e.Key); i >= 0 {
				vxW.tokens[i] = te
			} else {
				vxW.tokens = append(vxW.tokens, te)
			}
		}
	case "accessor":
		vxW.accIdx = append(vxW.accIdx, e.Key)
	}
	return nil
}

var vxAtParentIndexWrite func()

func vxJSONBox(v any) ([]byte, error) { return vxBox(v), nil }
func (v *vxView) ListPage(ctx context.Context, p, a string, l int) ([]string, error) {
	return v.List(ctx, p)
}
func (v *vxView) Delete(ctx context.Context, k string) error {
	if err := vxStep(); err != nil {
		vxTrace(v.kind + ".Delete " + k + " -> injected failure")
		return err
	}
	vxTrace(v.kind + ".Delete " + k)
	switch v.kind {
	case "id":
		if i := vxFindTok(k); i >= 0 && vxW.tokens[i].NamespaceID == v.nsOr() {
			vxW.tokens = append(vxW.tokens[:i:i], vxW.tokens[i+1:]...)
		}
	case "parent":
		vxW.parentIdx = vxDel(vxW.parentIdx, v.nsPfx()+k)
	case "accessor":
		vxW.accIdx = vxDel(vxW.accIdx, k)
	}
	return nil
}
func (v *vxView) List(ctx context.Context, prefix string) ([]string, error) {
	if err := vxStep(); err != nil {
		return nil, err
	}
	var out []string
	if v.kind == "parent" {
		prefix = v.nsPfx() + prefix
		for _, k := range vxW.parentIdx {
			if len(k) > len(prefix) && k[:len(prefix)] == prefix {
				out = append(out, k[len(prefix):])
			}
		}
	}
	return out, nil
}

func (v *vxView) nsOr() string {
	if v.ns == "" {
		return namespace.RootNamespaceID
	}
	return v.ns
}

// parent index entries of the root namespace are stored bare (as before); other namespaces get a "<ns>|" prefix
func (v *vxView) nsPfx() string {
	if v.ns == "" || v.ns == namespace.RootNamespaceID {
		return ""
	}
	return v.ns + "|"
}

func vxNSID(ns *namespace.Namespace) string {
	if ns == nil {
		return namespace.RootNamespaceID
	}
	return ns.ID
}
func vxIDView(ts *TokenStore, ns *namespace.Namespace) barrier.View {
	return &vxView{kind: "id", ns: vxNSID(ns)}
}
func vxParentView(ts *TokenStore, ns *namespace.Namespace) barrier.View {
	return &vxView{kind: "parent", ns: vxNSID(ns)}
}
func vxAccessorView(ts *TokenStore, ns *namespace.Namespace) barrier.View {
	return &vxView{kind: "accessor", ns: vxNSID(ns)}
}

func vxTokenStore() *TokenStore {
	return &TokenStore{
		Backend:               &framework.Backend{},
		core:                  &Core{},
		expiration:            &ExpirationManager{},
		tokenLocks:            locksutil.CreateLocks(),
		tokensPendingDeletion: &sync.Map{},
		cubbyholeDestroyer:    vxCubbyDestroy,
		logger:                vxLogger{},
		quitContext:           context.Background(),
	}
}

func vxAddToken(id, parent string) {
	vxW.tokens = append(vxW.tokens, &logical.TokenEntry{ID: id, Parent: parent, Accessor: "acc-" + id, NamespaceID: "root", Policies: []string{"p"}})
	vxW.accIdx = append(vxW.accIdx, "s-acc-"+id)
	if parent != "" {
		vxW.parentIdx = append(vxW.parentIdx, "s-"+parent+"/s-"+id)
	}
}

func vxRevokedFully(id string, what string) {
	vxAssert(what+": token entry is gone (or revocation-pending)", vxFindTok("s-"+id) < 0 || vxW.tokens[vxFindTok("s-"+id)].NumUses == tokenRevocationPending)
	vxAssert(what+": cubbyhole destroyed", vxHas(vxW.cubbyOK, id))
	vxAssert(what+": leases revoked or queued", vxHas(vxW.leasesOK, id))
	if vxFindTok("s-"+id) < 0 {
		vxAssert(what+": accessor index removed together with the entry", !vxHas(vxW.accIdx, "s-acc-"+id))
	}
}

// revoke one token that has a parent and a child; one failure anywhere, then retry
func VxRevokeWithRetry() {
	ctx := namespace.RootContext(context.Background())
	ts := vxTokenStore()
	vxW = &vxWorld{failAt: -1}
	vxAddToken("P", "")
	vxAddToken("T", "P")
	vxAddToken("C", "T")
	fail := vxChoose("failing call (14 = none)", 15)
	if fail < 14 {
		vxW.failAt = fail
	}
	err := ts.revokeInternal(ctx, "s-T", false)
	vxW.failAt = -1
	if err != nil {
		vxReach("revoke: first attempt failed")
		err = ts.revokeInternal(ctx, "s-T", false) // the client retries
		vxAssert("the retry, with storage healthy again, succeeds", err == nil)
	}
	vxReach("revoke: reported successful")
	vxRevokedFully("T", "revoke")
	vxAssert("revoke: parent index entry removed", !vxHas(vxW.parentIdx, "s-P/s-T"))
	c := vxFindTok("s-C")
	vxAssert("revoke: the child survives as an orphan", c >= 0 && vxW.tokens[c].Parent == "" && vxW.tokens[c].NumUses == 0)
	p := vxFindTok("s-P")
	vxAssert("revoke: the parent token is untouched", p >= 0 && vxW.tokens[p].NumUses == 0)
}

// tree revocation over a 3-token tree (two shapes); one failure anywhere, then retry
func VxRevokeTreeWithRetry() {
	ctx := namespace.RootContext(context.Background())
	ts := vxTokenStore()
	vxW = &vxWorld{failAt: -1}
	vxAddToken("R", "")
	vxAddToken("A", "R")
	if vxBool("chain (R-A-B) instead of fan (R-A, R-B)") {
		vxAddToken("B", "A")
	} else {
		vxAddToken("B", "R")
	}
	vxAddToken("O", "") // unrelated token
	fail := vxChoose("failing call (30 = none)", 31)
	if fail < 30 {
		vxW.failAt = fail
	}
	err := ts.revokeTreeInternal(ctx, "s-R")
	vxW.failAt = -1
	if err != nil {
		vxReach("tree: first attempt failed")
		err = ts.revokeTreeInternal(ctx, "s-R")
		vxAssert("the retry, with storage healthy again, succeeds", err == nil)
	}
	vxReach("tree: reported successful")
	for _, id := range []string{"R", "A", "B"} {
		vxRevokedFully(id, "tree revoke")
	}
	o := vxFindTok("s-O")
	vxAssert("tree revoke: unrelated token untouched", o >= 0 && vxW.tokens[o].NumUses == 0 && vxHas(vxW.accIdx, "s-acc-O"))
}

// tree revocation across a namespace boundary: R lives in the root namespace, its child A and grandchild B in
// namespace n1 (created through n1/auth/token/create by a sudo token of the parent namespace); revoking R revokes
// all three. One failure anywhere, then a retry.
func vxAddTokenNS(id, parent, ns, parentNS string) {
	vxW.tokens = append(vxW.tokens, &logical.TokenEntry{ID: id, Parent: parent, Accessor: "acc-" + id, NamespaceID: ns, Policies: []string{"p"}})
	vxW.accIdx = append(vxW.accIdx, "s-acc-"+id)
	if parent != "" {
		// storeCommon: the index lives in the PARENT's namespace view; a child of another namespace carries its
		// namespace id as suffix
		k := "s-" + parent + "/s-" + id
		if ns != namespace.RootNamespaceID {
			k += "." + ns
		}
		if parentNS != namespace.RootNamespaceID {
			k = parentNS + "|" + k
		}
		vxW.parentIdx = append(vxW.parentIdx, k)
	}
}

func VxRevokeTreeAcrossNamespaces() {
	ctx := namespace.RootContext(context.Background())
	ts := vxTokenStore()
	vxW = &vxWorld{failAt: -1}
	vxAddTokenNS("R", "", "root", "root")
	vxAddTokenNS("A", "R", "n1", "root")
	vxAddTokenNS("B", "A", "n1", "n1")
	vxAddTokenNS("O", "", "n1", "n1") // unrelated token in n1
	fail := vxChoose("failing call (30 = none)", 31)
	if fail < 30 {
		vxW.failAt = fail
	}
	err := ts.revokeTreeInternal(ctx, "s-R")
	vxW.failAt = -1
	if err != nil {
		vxReach("cross-namespace tree: first attempt failed")
		err = ts.revokeTreeInternal(ctx, "s-R")
		vxAssert("the retry, with storage healthy again, succeeds", err == nil)
	}
	vxReach("cross-namespace tree: reported successful")
	for _, id := range []string{"R", "A", "B"} {
		vxRevokedFully(id, "cross-namespace tree revoke")
	}
	o := vxFindTok("s-O")
	vxAssert("cross-namespace tree revoke: unrelated token untouched", o >= 0 && vxW.tokens[o].NumUses == 0)
}

// child creation racing a tree revocation of its parent (no common lock): the real storeCommon of the child is
// interrupted at the one point that matters - after it has seen the parent exist, before it writes the parent index -
// by a complete, successful revokeTreeInternal(parent). Afterwards no valid child of the revoked parent may exist
// unless the creation reported an error.
func VxChildCreateRacesTreeRevoke() {
	ctx := namespace.RootContext(context.Background())
	ts := vxTokenStore()
	vxW = &vxWorld{failAt: -1}
	vxAddToken("P", "")
	child := &logical.TokenEntry{ID: "C", Parent: "P", Accessor: "acc-C", NamespaceID: "root", Policies: []string{"p"}}
	raced := vxBool("the parent's tree revocation runs inside the child's creation")
	var rerr error
	if raced {
		vxAtParentIndexWrite = func() { rerr = ts.revokeTreeInternal(ctx, "s-P") }
	}
	cerr := ts.storeCommon(ctx, child, true)
	if !raced {
		vxReach("create: undisturbed")
		vxAssert("undisturbed creation stores the child under its parent", cerr == nil && vxFindTok("s-C") >= 0 && vxHas(vxW.parentIdx, "s-P/s-C"))
		// a later tree revocation of the parent takes the child with it
		vxAssert("later tree revocation succeeds", ts.revokeTreeInternal(ctx, "s-P") == nil)
		vxAssert("and revokes the child", vxFindTok("s-C") < 0 && vxFindTok("s-P") < 0)
		return
	}
	vxReach("create: raced by tree revocation")
	vxAssert("the tree revocation reported success", rerr == nil)
	vxAssert("the parent is gone", vxFindTok("s-P") < 0)
	c := vxFindTok("s-C")
	survives := c >= 0 && vxW.tokens[c].NumUses >= 0
	vxAssert("a child created while its parent's tree revocation completes does not survive it (or its creation fails)", !survives || cerr != nil)
}

// the other nesting: a child creation that STARTS while the tree revocation of its parent is under way - at ANY
// storage / collaborator call of the revocation after the revocation-pending marker has been written onto the parent
// (the marker is what keeps new children out from then on: the tree walk has listed the children already and will not
// look again). The real storeCommon of the child runs to completion at that point; the revocation then finishes.
func VxChildCreateStartsInsideTreeRevoke() {
	ctx := namespace.RootContext(context.Background())
	ts := vxTokenStore()
	vxW = &vxWorld{failAt: -1}
	vxAddToken("P", "")
	vxAddToken("K", "P") // an existing child: the tree walk has something to do before it reaches P
	child := &logical.TokenEntry{ID: "C", Parent: "P", Accessor: "acc-C", NamespaceID: "root", Policies: []string{"p"}}
	vxHookAt = vxChoose("the child's creation starts before this call of the revocation", 40)
	started, marked := false, false
	var cerr error
	vxHook = func() {
		started = true
		i := vxFindTok("s-P")
		marked = i >= 0 && vxW.tokens[i].NumUses == tokenRevocationPending
		if !marked {
			return // before the marker / after the parent is gone: the other entries cover those positions
		}
		cerr = ts.storeCommon(ctx, child, true)
	}
	rerr := ts.revokeTreeInternal(ctx, "s-P")
	vxHook = nil
	vxAssert("the tree revocation reports success", rerr == nil)
	vxAssert("the parent is gone", vxFindTok("s-P") < 0)
	if !started || !marked {
		return
	}
	vxReach("create: started inside the parent's tree revocation, after the marker")
	c := vxFindTok("s-C")
	survives := c >= 0 && vxW.tokens[c].NumUses >= 0
	vxAssert("a child whose creation starts after its parent was marked revocation-pending is refused (it would survive the tree revocation)", cerr != nil && !survives)
	vxAssert("and leaves no parent index entry behind", !vxHas(vxW.parentIdx, "s-P/s-C"))
}

// ---- the real destroyCubbyhole: success means the token's cubbyhole storage (keyed exactly as the cubbyhole backend
// keys requests of that token) was cleared ----

var vxCleared []string
var vxClearedNS []string // "<namespace id>|<prefix>"

func vxCubbyStorage(r *routing.Router, ctx context.Context, path string) logical.Storage {
	v := &vxView{kind: "cubby"}
	if ns, err := namespace.FromContext(ctx); err == nil {
		v.ns = ns.ID // every namespace has its own cubbyhole mount
	}
	return v
}

// assumption: the salt function is injective
func vxSaltFn(saltVal, id string, hash salt.HashFunc) string {
	return "salt(" + saltVal + "," + id + ")"
}

type vxSubView struct {
	vxView
	prefix string
}

func (v *vxSubView) Prefix() string { return v.prefix }

func vxClearView(ctx context.Context, view logical.ClearableView) error {
	if sv, ok := view.(*vxSubView); ok {
		vxCleared = append(vxCleared, sv.prefix)
		vxClearedNS = append(vxClearedNS, sv.ns+"|"+sv.prefix)
	}
	return vxStep()
}

func VxDestroyCubbyhole() {
	ctx := namespace.RootContext(context.Background())
	ts := vxTokenStore()
	ts.core = &Core{router: &routing.Router{}}
	ts.cubbyholeBackend = &CubbyholeBackend{saltUUID: "u"}
	vxW = &vxWorld{failAt: -1}
	var te *logical.TokenEntry
	want := ""
	switch vxChoose("token kind", 4) {
	case 0: // root-namespace token with a caller-chosen id: cubbyhole keyed by the double-salted id
		te = &logical.TokenEntry{ID: "custom-id", NamespaceID: namespace.RootNamespaceID}
		want = "salt(u,s-custom-id)/"
	case 1: // service token: keyed by its cubbyhole id
		te = &logical.TokenEntry{ID: "s.abcdef", NamespaceID: namespace.RootNamespaceID, CubbyholeID: "cid-1"}
		want = "cid-1/"
	case 2: // namespaced token
		te = &logical.TokenEntry{ID: "custom-id2", NamespaceID: "ns1", CubbyholeID: "cid-2"}
		want = "cid-2/"
	case 3: // service token that lost its cubbyhole id: must not be reported as cleaned
		te = &logical.TokenEntry{ID: "s.abcdef", NamespaceID: namespace.RootNamespaceID}
	}
	err := destroyCubbyhole(ctx, ts, te)
	if want == "" {
		vxReach("cubbyhole: nothing to key by")
		vxAssert("a token whose cubbyhole cannot be located is not reported as cleaned", err != nil)
		return
	}
	vxReach("cubbyhole: destroyed")
	vxAssert("cubbyhole destroy succeeds", err == nil)
	vxAssert("success means the storage under the token's cubbyhole key was cleared", len(vxCleared) == 1 && vxCleared[0] == want)
}

// a token may be used in its own namespace and in every namespace below it, and each namespace has its own cubbyhole
// mount: wherever the token wrote cubbyhole data, revoking it must remove that data ("unreachable AND removed").
// The real destroyCubbyhole is called the way revokeInternal calls it (context = the token's namespace).
func VxCubbyholeRemovedWhereverTheTokenWrote() {
	ts := vxTokenStore()
	ts.core = &Core{router: &routing.Router{}}
	ts.cubbyholeBackend = &CubbyholeBackend{saltUUID: "u"}
	vxW = &vxWorld{failAt: -1}
	vxCleared, vxClearedNS = nil, nil
	te := &logical.TokenEntry{ID: "s.abcdef", NamespaceID: namespace.RootNamespaceID, CubbyholeID: "cid-1"}
	wroteOwn := vxBool("the token wrote cubbyhole data in its own namespace")
	wroteChild := vxBool("the token wrote cubbyhole data in a child namespace it was used in")
	vxAssume(wroteOwn || wroteChild)
	err := destroyCubbyhole(namespace.RootContext(context.Background()), ts, te)
	vxAssert("cubbyhole destroy succeeds", err == nil)
	if wroteOwn {
		vxReach("cubbyhole: data in the token's own namespace")
		vxAssert("the token's cubbyhole in its own namespace is removed", vxHas(vxClearedNS, namespace.RootNamespaceID+"|cid-1/"))
	}
	if wroteChild {
		vxReach("cubbyhole: data in a child namespace")
		vxAssert("the token's cubbyhole in a child namespace it was used in is removed as well", vxHas(vxClearedNS, "n1|cid-1/"))
	}
}

// every tree shape over treeSize tokens (each descendant hangs under any earlier token), up to `faults` storage
// failures - one per attempt, anywhere - each followed by a retry: once an attempt reports success the whole tree is
// revoked and the unrelated token is untouched.
func VxRevokeAnyTreeWithRetries() {
	ctx := namespace.RootContext(context.Background())
	ts := vxTokenStore()
	vxW = &vxWorld{failAt: -1}
	n := vxParam("treeSize")
	ids := []string{"R", "A", "B", "C", "D"}[:n]
	vxAddToken("R", "")
	for i := 1; i < n; i++ {
		vxAddToken(ids[i], ids[vxChoose("parent of "+ids[i], i)])
	}
	vxAddToken("O", "")
	var err error
	for attempt := 0; attempt <= vxParam("faults"); attempt++ {
		vxW.failAt = -1
		if attempt < vxParam("faults") {
			fail := vxChoose("failing call of this attempt (40 = none)", 41)
			if fail < 40 {
				vxW.failAt = vxW.calls + fail
			}
		}
		err = ts.revokeTreeInternal(ctx, "s-R")
		if err == nil {
			break
		}
		vxReach("any tree: an attempt failed")
	}
	vxW.failAt = -1
	vxAssert("with storage healthy again the revocation succeeds", err == nil)
	vxReach("any tree: reported successful")
	for _, id := range ids {
		vxRevokedFully(id, "any tree")
	}
	o := vxFindTok("s-O")
	vxAssert("any tree: unrelated token untouched", o >= 0 && vxW.tokens[o].NumUses == 0 && vxHas(vxW.accIdx, "s-acc-O"))
}
