package raft

// C08 — raft backend, end to end: one writing transaction (real RaftTransaction.Get / List / ListPage / Put / Delete /
// Commit, the real leader-side RaftBackend.applyLog with its trim-bound computation, the real FSM.ApplyBatch /
// applyBatchTxOps / verification / fast-path tracker) interleaved with plain writes of another client (real
// RaftBackend.Put / Delete): reads reflect the begin-time snapshot; the transaction commits ONLY IF every key it read
// or wrote and every listing it observed is unchanged at commit; a failed commit leaves the store untouched; a
// successful one applies exactly its writes; an undisturbed transaction commits.
//
//vx:pkg github.com/openbao/openbao/v2/internal/physical/raft
//vx:include ../common/raft_models.go
//vx:assume the raft library is replaced by a synchronous single-node model: Raft.Apply hands the command straight to the real FSM.ApplyBatch as the next log entry; Raft.AppliedIndex returns the FSM's index, optionally ahead of it (symbolic)
//vx:assume bbolt read transactions are begin-time snapshots; cursors iterate keys in byte order, Seek positions at the first key >= the argument
//vx:bodies path/filepath,internal/filepathlite,os,github.com/hashicorp/go-raftchunking,github.com/hashicorp/raft
//vx:redirect (*go.etcd.io/bbolt.DB).Begin vxDBBegin
//vx:redirect (*go.etcd.io/bbolt.Tx).Rollback vxTxRollback
//vx:redirect (*go.etcd.io/bbolt.Bucket).Cursor vxBucketCursor
//vx:redirect (*go.etcd.io/bbolt.Cursor).Seek vxCursorSeek
//vx:redirect (*go.etcd.io/bbolt.Cursor).Next vxCursorNext
//vx:redirect (*github.com/hashicorp/raft.Raft).AppliedIndex vxRaftAppliedIndex
//vx:redirect (*github.com/hashicorp/raft.Raft).Apply vxRaftApply
//vx:redirect (runtime.Cleanup).Stop vxCleanupStop
//vx:redirect (*github.com/openbao/openbao/sdk/v2/physical.PermitPool).Acquire vxPermit
//vx:redirect (*github.com/openbao/openbao/sdk/v2/physical.PermitPool).Release vxPermit
//vx:param ops quick=2 thorough=3
//vx:param lag quick=0 thorough=1
//vx:param writers quick=1 thorough=2
//vx:unwind 400

import (
	"context"
	"runtime"
	"time"

	"github.com/hashicorp/raft"
	"github.com/openbao/openbao/sdk/v2/physical"
	bolt "go.etcd.io/bbolt"
)

func vxFSM() *FSM {
	return &FSM{logger: vxLogger{}, db: vxNewDB(), fastTxnTracker: FsmTxnCommitIndexTracker()}
}

func vxPermit(p *physical.PermitPool) {}
func vxCleanupStop(c runtime.Cleanup) {}

// ---- bbolt snapshots and cursors over the shared bucket model ----

func vxDBBegin(db *bolt.DB, writable bool) (*bolt.Tx, error) {
	m := vxDBs[db]
	tx := &bolt.Tx{}
	vxTxs[tx] = &vxBoltDB{data: m.data.clone(), cfg: m.cfg.clone()}
	return tx, nil
}
func vxTxRollback(tx *bolt.Tx) error { return nil }

type vxCur struct {
	b   *vxBkt
	pos int
}

var vxCurs = map[*bolt.Cursor]*vxCur{}

func vxBucketCursor(b *bolt.Bucket) *bolt.Cursor {
	c := &bolt.Cursor{}
	vxCurs[c] = &vxCur{b: vxBkts[b]}
	return c
}
func vxCursorSeek(c *bolt.Cursor, seek []byte) ([]byte, []byte) {
	cu := vxCurs[c]
	for i, k := range cu.b.keys {
		if k >= string(seek) {
			cu.pos = i
			return []byte(k), cu.b.vals[i]
		}
	}
	cu.pos = len(cu.b.keys)
	return nil, nil
}
func vxCursorNext(c *bolt.Cursor) ([]byte, []byte) {
	cu := vxCurs[c]
	cu.pos++
	if cu.pos >= len(cu.b.keys) {
		return nil, nil
	}
	return []byte(cu.b.keys[cu.pos]), cu.b.vals[cu.pos]
}

// ---- synchronous raft model ----

var (
	vxTheFSM  *FSM
	vxRaftLag uint64
)

type vxFuture struct {
	raft.ApplyFuture
	resp any
}

func (f vxFuture) Error() error  { return nil }
func (f vxFuture) Response() any { return f.resp }

func vxRaftAppliedIndex(r *raft.Raft) uint64 { return vxTheFSM.latestIndex.Load() + vxRaftLag }

func vxRaftApply(r *raft.Raft, cmd []byte, timeout time.Duration) raft.ApplyFuture {
	l := &raft.Log{Index: vxTheFSM.latestIndex.Load() + 1, Term: 1, Type: raft.LogCommand, Data: cmd}
	resp := vxTheFSM.ApplyBatch([]*raft.Log{l})
	return vxFuture{resp: resp[0]}
}

// ---- the scenario ----

var vxTK = []string{"p/a", "p/b", "q"}

type vxSnap struct {
	present [3]bool
	val     [3]byte
}

func vxStateOf(f *FSM) vxSnap {
	var s vxSnap
	d := vxDBs[f.db].data
	for i, k := range vxTK {
		if j := d.find(k); j >= 0 {
			s.present[i] = true
			s.val[i] = d.vals[j][0]
		}
	}
	return s
}

func vxListP(s vxSnap) []string {
	var out []string
	if s.present[0] {
		out = append(out, "a")
	}
	if s.present[1] {
		out = append(out, "b")
	}
	return out
}

func vxSameStrs(a, b []string) bool {
	if len(a) != len(b) {
		return false
	}
	for i := range a {
		if a[i] != b[i] {
			return false
		}
	}
	return true
}

func vxPlainWrite(b *RaftBackend, tag string) bool {
	ctx := context.Background()
	k := vxChoose(tag+" key", 3)
	if vxBool(tag + " is delete") {
		vxAssert("plain delete ok", b.Delete(ctx, vxTK[k]) == nil)
	} else {
		vxAssert("plain put ok", b.Put(ctx, &physical.Entry{Key: vxTK[k], Value: []byte{vxByte(tag + " value")}}) == nil)
	}
	return true
}

func VxRaftTxnEndToEnd() {
	ctx := context.Background()
	f := vxFSM()
	vxTheFSM = f
	vxRaftLag = uint64(vxChoose("raft applied index ahead of the fsm by", vxParam("lag")+1))
	b := &RaftBackend{fsm: f, raft: &raft.Raft{}, logger: vxLogger{}, maxEntrySize: 1 << 20, maxTransactionSize: 1 << 22}
	// initial contents through the real write path
	for i, k := range vxTK {
		if vxBool("initially present: " + k) {
			vxAssert("initial put ok", b.Put(ctx, &physical.Entry{Key: k, Value: []byte{vxByte("initial value")}}) == nil)
		}
		_ = i
	}
	// begin (what newTransaction does, minus the leak detector)
	f.l.RLock()
	idx := b.AppliedIndex()
	tx, _ := f.db.Begin(false)
	f.fastTxnTracker.trackTransaction(idx)
	t := &RaftTransaction{b: b, tx: tx, updates: map[string]*raftTxnUpdateRecord{}, reads: map[string]*LogOperation{}, lists: map[string]map[string]map[int]*LogOperation{}, writable: true, index: idx, started: time.Now()}
	begin := vxStateOf(f)

	readKey := [3]bool{}
	listed := false
	disturbed := false
	nops := vxParam("ops")
	// the other client's writes happen at symbolic positions: before operation i (i < nops) or just before commit
	var slots []int
	for w := 0; w < vxParam("writers"); w++ {
		if vxBool("another client writes") {
			slots = append(slots, vxChoose("position of the other client's write", nops+1))
		}
	}
	at := func(pos int) {
		for _, sl := range slots {
			if sl == pos {
				disturbed = vxPlainWrite(b, "concurrent write")
			}
		}
	}
	for i := 0; i < nops; i++ {
		at(i)
		switch vxChoose("transaction op(get,list,listpage)", 3) {
		case 0:
			k := vxChoose("get key", 3)
			e, err := t.Get(ctx, vxTK[k])
			vxAssert("get ok", err == nil)
			vxAssert("reads reflect the begin-time snapshot", (e != nil) == begin.present[k] && (e == nil || e.Value[0] == begin.val[k]))
			readKey[k] = true
		case 1:
			got, err := t.List(ctx, "p/")
			vxAssert("list ok, reflects the begin-time snapshot", err == nil && vxSameStrs(got, vxListP(begin)))
			listed = true
		default:
			got, err := t.ListPage(ctx, "p/", "", 1)
			want := vxListP(begin)
			if len(want) > 1 {
				want = want[:1]
			}
			vxAssert("list page ok, reflects the begin-time snapshot", err == nil && vxSameStrs(got, want))
			listed = true
		}
	}
	// the transaction's write
	wk := vxChoose("written key", 3)
	wdel := vxBool("transaction write is a delete")
	wv := vxByte("written value")
	if wdel {
		vxAssert("txn delete ok", t.Delete(ctx, vxTK[wk]) == nil)
	} else {
		vxAssert("txn put ok", t.Put(ctx, &physical.Entry{Key: vxTK[wk], Value: []byte{wv}}) == nil)
	}
	readKey[wk] = true // a write verifies the key's previous contents
	at(nops)
	pre := vxStateOf(f)
	err := t.Commit(ctx)
	post := vxStateOf(f)
	vxAssert("the fsm read lock is released by commit", vxHeld(&f.l) == 0)
	if err != nil {
		vxReach("raft txn: commit refused")
		vxAssert("a refused commit leaves the store untouched", post == pre)
		vxAssert("an undisturbed transaction commits", disturbed)
		return
	}
	vxReach("raft txn: committed")
	for k := 0; k < 3; k++ {
		if readKey[k] {
			vxAssert("commit only if every key read or written is unchanged since the snapshot", pre.present[k] == begin.present[k] && (!pre.present[k] || pre.val[k] == begin.val[k]))
		}
	}
	if listed {
		vxAssert("commit only if every listing observed is unchanged since the snapshot", vxSameStrs(vxListP(pre), vxListP(begin)))
	}
	want := pre
	if wdel {
		want.present[wk] = false
		want.val[wk] = 0
	} else {
		want.present[wk], want.val[wk] = true, wv
	}
	if !post.present[wk] {
		post.val[wk] = 0
	}
	vxAssert("a successful commit applies exactly the transaction's writes", post == want)
}

