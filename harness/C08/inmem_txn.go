package inmem

// C08 — in-memory backend transactions: for every program of two transactions (+ a plain writer in thorough) over two
// keys, every interleaving of their operations and commits, and ALL written values: a writing transaction commits
// only if everything it observed is unchanged at commit time (else commit-conflict and nothing becomes visible), its
// writes become visible together, reads reflect own writes and the snapshot taken at begin, read-only transactions
// refuse writes, finished transactions refuse use; the final store equals the serial specification in commit order.
//
//vx:pkg github.com/openbao/openbao/sdk/v2/physical/inmem
//vx:bodies context,github.com/armon/go-radix,github.com/openbao/openbao/sdk/v2/physical
//vx:param opsT0 quick=2 thorough=2
//vx:param opsT1 quick=1 thorough=2
//vx:param writer quick=0 thorough=1
//vx:param writerL quick=1 thorough=2
//vx:unwind 600

import (
	"context"

	radix "github.com/armon/go-radix"
	"github.com/openbao/openbao/sdk/v2/physical"
)

var vxKeys = [2]string{"a", "b/c"}

type vxKVSpec struct {
	present [2]bool
	val     [2]byte
}

type vxObs struct { // an observation made by a transaction from its snapshot
	key     int
	present bool
	val     byte
}

type vxTxn struct {
	tx       physical.Transaction
	snap     vxKVSpec // specification of what the transaction sees (snapshot at begin + own writes)
	obs      []vxObs  // reads of keys not yet written by the transaction itself
	wrote    [2]bool
	writes   vxKVSpec
	anyWrite bool
	opsLeft  int
	begun    bool
	done     bool
}

func vxNewBackend() *TransactionalInmemBackend {
	return &TransactionalInmemBackend{
		InmemBackend:  InmemBackend{root: radix.New(), permitPool: physical.NewPermitPool(4)},
		txnPermitPool: physical.NewPermitPool(4),
	}
}

func vxSpecGet(s *vxKVSpec, k int) (bool, byte) { return s.present[k], s.val[k] }

func vxCheckEntry(e *physical.Entry, present bool, val byte, what string) {
	if present {
		vxAssert(what+": value as specified", e != nil && len(e.Value) == 1 && e.Value[0] == val)
	} else {
		vxAssert(what+": absent as specified", e == nil)
	}
}

func VxInmemSchedules() {
	vxSchedules(vxParam("opsT0"), vxParam("opsT1"), vxParam("writer"))
}

// one longer transaction (three operations, so it can write a key twice and then trip over a later operation) against
// plain writers
func VxInmemLongTxnVsWriter() {
	vxSchedules(3, -1, vxParam("writerL"))
}

func vxSchedules(ops0, ops1, writers int) {
	ctx := context.Background()
	b := vxNewBackend()
	var spec vxKVSpec // committed state
	// initial content
	if vxBool("key a initially present") {
		v := vxByte("init a")
		vxAssert("init put", b.Put(ctx, &physical.Entry{Key: vxKeys[0], Value: []byte{v}}) == nil)
		spec.present[0], spec.val[0] = true, v
	}
	txns := [2]*vxTxn{{opsLeft: ops0}, {opsLeft: ops1, done: ops1 < 0}}
	writerLeft := writers
	for step := 0; step < 12; step++ {
		// actors that can still move
		var movers []int
		for i, t := range txns {
			if !t.done {
				movers = append(movers, i)
			}
		}
		if writerLeft > 0 {
			movers = append(movers, 2)
		}
		if len(movers) == 0 {
			break
		}
		who := movers[vxChoose("scheduler", len(movers))]
		if who == 2 { // plain (non-transactional) write
			writerLeft--
			k := vxChoose("writer key", 2)
			v := vxByte("writer value")
			vxAssert("plain put ok", b.Put(ctx, &physical.Entry{Key: vxKeys[k], Value: []byte{v}}) == nil)
			spec.present[k], spec.val[k] = true, v
			continue
		}
		t := txns[who]
		if !t.begun {
			tx, err := b.BeginTx(ctx)
			vxAssert("begin ok", err == nil)
			t.tx, t.snap, t.begun = tx, spec, true
			continue
		}
		if t.opsLeft == 0 { // commit
			err := t.tx.Commit(ctx)
			t.done = true
			// specification: a writing transaction may commit iff every observation still holds in the committed state
			valid := true
			for _, o := range t.obs {
				p, v := vxSpecGet(&spec, o.key)
				if p != o.present || (p && v != o.val) {
					valid = false
				}
			}
			if !t.anyWrite {
				vxReach("commit: nothing written")
				vxAssert("a transaction that wrote nothing commits", err == nil)
			} else if valid {
				vxReach("commit: valid")
				vxAssert("a transaction whose observations are unchanged commits", err == nil)
				for k := 0; k < 2; k++ {
					if t.wrote[k] {
						spec.present[k], spec.val[k] = t.writes.present[k], t.writes.val[k]
					}
				}
			} else {
				vxReach("commit: conflict")
				vxAssert("a transaction with a stale observation fails to commit", err != nil)
			}
			vxAssert("a finished transaction refuses further use", t.tx.Commit(ctx) == physical.ErrTransactionAlreadyCommitted)
			_, gerr := t.tx.Get(ctx, vxKeys[0])
			vxAssert("a finished transaction refuses reads", gerr == physical.ErrTransactionAlreadyCommitted)
			continue
		}
		t.opsLeft--
		k := vxChoose("op key", 2)
		switch vxChoose("op kind", 3) {
		case 0: // get
			e, err := t.tx.Get(ctx, vxKeys[k])
			vxAssert("get ok", err == nil)
			p, v := vxSpecGet(&t.snap, k)
			vxCheckEntry(e, p, v, "read inside a transaction (snapshot + own writes)")
			if !t.wrote[k] {
				t.obs = append(t.obs, vxObs{k, p, v})
			}
		case 1: // put
			v := vxByte("txn value")
			vxAssert("put ok", t.tx.Put(ctx, &physical.Entry{Key: vxKeys[k], Value: []byte{v}}) == nil)
			if !t.wrote[k] { // the value overwritten is an observation too (verified at commit)
				p, ov := vxSpecGet(&t.snap, k)
				t.obs = append(t.obs, vxObs{k, p, ov})
			}
			t.snap.present[k], t.snap.val[k] = true, v
			t.writes.present[k], t.writes.val[k] = true, v
			t.wrote[k], t.anyWrite = true, true
		case 2: // delete
			vxAssert("delete ok", t.tx.Delete(ctx, vxKeys[k]) == nil)
			if !t.wrote[k] {
				p, ov := vxSpecGet(&t.snap, k)
				t.obs = append(t.obs, vxObs{k, p, ov})
			}
			t.snap.present[k] = false
			t.writes.present[k] = false
			t.wrote[k], t.anyWrite = true, true
		}
	}
	// final state equals the serial specification
	for k := 0; k < 2; k++ {
		e, err := b.Get(ctx, vxKeys[k])
		vxAssert("final get ok", err == nil)
		vxCheckEntry(e, spec.present[k], spec.val[k], "final committed state")
	}
}

func VxReadOnlyTxn() {
	ctx := context.Background()
	b := vxNewBackend()
	vxAssert("put", b.Put(ctx, &physical.Entry{Key: "a", Value: []byte{1}}) == nil)
	tx, err := b.BeginReadOnlyTx(ctx)
	vxAssert("begin ok", err == nil)
	vxAssert("read-only transaction refuses put", tx.Put(ctx, &physical.Entry{Key: "a", Value: []byte{2}}) == physical.ErrTransactionReadOnly)
	vxAssert("read-only transaction refuses delete", tx.Delete(ctx, "a") == physical.ErrTransactionReadOnly)
	e, err := tx.Get(ctx, "a")
	vxAssert("read-only transaction reads", err == nil && e != nil && e.Value[0] == 1)
	vxAssert("rollback ok", tx.Rollback(ctx) == nil)
	vxAssert("rolled-back transaction refuses use", tx.Rollback(ctx) == physical.ErrTransactionAlreadyCommitted)
	vxReach("read-only txn")
}
