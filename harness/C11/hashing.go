package audit

// C11 (c) — credentials never reach an audit entry in the clear: the real HashAuth, HashRequest, HashResponse and
// HashWrapInfo, for ALL token / accessor / wrapping-token strings (symbolic) and both settings of hmac_accessor:
// every client token, wrapping token and (when configured) accessor field of the copy handed to the formatter is the
// keyed hash of the original, never the original; the caller's own request / response / auth objects are not
// modified (the response goes back to the client after auditing).
//
//vx:pkg github.com/openbao/openbao/v2/internal/audit
//vx:assume the salted HMAC is an injective keyed hash ("hmac-sha256:" + h(x)) that never equals its input; copystructure.Copy of an Auth block is a field-wise copy; the JSON round trip of request / response data is a copy; the deep walk that hashes every string leaf of arbitrary nested data (HashStructure / reflectwalk) is replaced by a recording stub and is NOT decided
//vx:bodies context,github.com/openbao/openbao/sdk/v2/logical,github.com/openbao/openbao/sdk/v2/helper/wrapping
//vx:redirect (*github.com/openbao/openbao/sdk/v2/helper/salt.Salt).GetIdentifiedHMAC vxHMAC
//vx:redirect github.com/mitchellh/copystructure.Copy vxHCopy
//vx:redirect github.com/openbao/openbao/v2/internal/audit.getUnmarshaledCopy vxHUnmarshaledCopy
//vx:redirect github.com/openbao/openbao/v2/internal/audit.HashStructure vxHashStructure
//vx:unwind 100

import (
	"github.com/openbao/openbao/sdk/v2/helper/salt"
	"github.com/openbao/openbao/sdk/v2/helper/wrapping"
	"github.com/openbao/openbao/sdk/v2/logical"
)

func vxHMAC(s *salt.Salt, data string) string { return "hmac-sha256:" + data }

func vxHCopy(v any) (any, error) {
	if a, ok := v.(*logical.Auth); ok {
		c := *a
		return &c, nil
	}
	return nil, vxErr("harness: unexpected type handed to copystructure.Copy")
}

func vxHUnmarshaledCopy(data any) (map[string]any, error) {
	out := map[string]any{}
	if m, ok := data.(map[string]any); ok {
		for k, v := range m {
			out[k] = v
		}
	}
	return out, nil
}

var vxWalked int

func vxHashStructure(data any, cb HashCallback, ignored []string, elide bool) error {
	vxWalked++
	return nil
}

func vxTok(tag string) string {
	b := vxBytes(tag, 1+vxChoose(tag+" length", 2))
	return string(b)
}

func vxIsHashOf(got, orig string) bool { return got == "hmac-sha256:"+orig }

func VxHashCredentials() {
	s := &salt.Salt{}
	hmacAcc := vxBool("hmac_accessor")
	tok, acc := vxTok("client token"), vxTok("accessor")
	wtok, wacc, wwacc := vxTok("wrapping token"), vxTok("wrapping accessor"), vxTok("wrapped accessor")

	// request
	auth := &logical.Auth{ClientToken: tok, Accessor: acc, DisplayName: "u"}
	req := &logical.Request{ClientToken: tok, ClientTokenAccessor: acc, Auth: auth, Path: "kv/a", Data: map[string]any{"k": "v"}}
	hreq, err := HashRequest(s, req, hmacAcc, nil)
	vxAssert("request hashing succeeds", err == nil && hreq != nil)
	vxAssert("request entry: client token is hashed", vxIsHashOf(hreq.ClientToken, tok) && vxIsHashOf(hreq.Auth.ClientToken, tok))
	if hmacAcc {
		vxReach("hash: accessors hashed")
		vxAssert("request entry: accessor is hashed when hmac_accessor is on", vxIsHashOf(hreq.ClientTokenAccessor, acc) && vxIsHashOf(hreq.Auth.Accessor, acc))
	} else {
		vxReach("hash: accessors in the clear")
		vxAssert("request entry: accessor is reported as is when hmac_accessor is off", hreq.ClientTokenAccessor == acc && hreq.Auth.Accessor == acc)
	}
	vxAssert("request data goes through the deep hash walk", vxWalked == 1)
	vxAssert("the caller's request is not modified", req.ClientToken == tok && req.ClientTokenAccessor == acc && req.Auth == auth && auth.ClientToken == tok && auth.Accessor == acc)

	// response with auth block and wrap info
	rauth := &logical.Auth{ClientToken: tok, Accessor: acc}
	wi := &wrapping.ResponseWrapInfo{Token: wtok, Accessor: wacc, WrappedAccessor: wwacc}
	resp := &logical.Response{Auth: rauth, WrapInfo: wi, Data: map[string]any{"secret": "s"}}
	hresp, err2 := HashResponse(s, resp, hmacAcc, nil, false)
	vxAssert("response hashing succeeds", err2 == nil && hresp != nil)
	vxAssert("response entry: client token and wrapping token are hashed", vxIsHashOf(hresp.Auth.ClientToken, tok) && vxIsHashOf(hresp.WrapInfo.Token, wtok))
	if hmacAcc {
		vxAssert("response entry: accessors are hashed when hmac_accessor is on", vxIsHashOf(hresp.Auth.Accessor, acc) && vxIsHashOf(hresp.WrapInfo.Accessor, wacc) && vxIsHashOf(hresp.WrapInfo.WrappedAccessor, wwacc))
	} else {
		vxAssert("response entry: accessors are reported as is when hmac_accessor is off", hresp.Auth.Accessor == acc && hresp.WrapInfo.Accessor == wacc && hresp.WrapInfo.WrappedAccessor == wwacc)
	}
	vxAssert("response data goes through the deep hash walk", vxWalked == 2)
	vxAssert("the response returned to the client is not modified by auditing", resp.Auth == rauth && rauth.ClientToken == tok && rauth.Accessor == acc && resp.WrapInfo == wi && wi.Token == wtok && wi.Accessor == wacc && wi.WrappedAccessor == wwacc)
	vxAssert("the audit copy does not share the wrap info / auth objects with the live response", hresp.WrapInfo != wi && hresp.Auth != rauth)

	// nil inputs
	n1, e1 := HashAuth(s, nil, hmacAcc)
	n2, e2 := HashWrapInfo(s, nil, hmacAcc)
	vxAssert("absent blocks stay absent", n1 == nil && e1 == nil && n2 == nil && e2 == nil)
}
