package audit

// C11 (c') — the deep walk that keeps secrets out of audit entries: the real HashStructure / hashWalker, driven by the
// real github.com/mitchellh/reflectwalk (both interpreted from source over the engine's reflect.Value model), on
// EVERY JSON-shaped document of the bounded grammar below (maps, lists, strings, numbers nested up to three levels
// under a top-level key, with exempt and non-exempt keys at every level): afterwards every string leaf is the keyed
// hash of the original unless the nearest enclosing map key is configured as exempt (audit_non_hmac_*_keys); map
// keys, numbers and the shape of the document are unchanged. The expected document is computed by a ten-line
// reference walk written from the documented semantics.
//
//vx:pkg github.com/openbao/openbao/v2/internal/audit
//vx:assume (this file) reflect.Value is the engine's model (maps, slices, strings, numbers, interfaces; map keys visited in insertion order); string leaves are not RFC 3339 timestamps (those are left as they are by design); the keyed hash is "hmac:"+x
//vx:bodies github.com/mitchellh/reflectwalk
//vx:redirect (*time.Time).UnmarshalText vxNotATimestamp
//vx:param listlen quick=2 thorough=3
//vx:unwind 400

import "time"

func vxNotATimestamp(t *time.Time, b []byte) error { return vxErr("parsing time: not a timestamp") }

var vxLeafN int

// a document of depth d: leaf (string or number), map with 1..2 entries, list with 1..listlen elements
func vxDoc(d int) any {
	kinds := 2
	if d > 0 {
		kinds = 4
	}
	switch vxChoose("node(string,number,map,list)", kinds) {
	case 0:
		vxLeafN++
		return "S" + string(rune('a'+vxLeafN))
	case 1:
		return 7
	case 2:
		m := map[string]any{}
		switch vxChoose("map keys({k},{x},{k,x})", 3) {
		case 0:
			m["k"] = vxDoc(d - 1)
		case 1:
			m["x"] = vxDoc(d - 1)
		default:
			m["k"] = vxDoc(d - 1)
			m["x"] = vxDoc(d - 1)
		}
		return m
	}
	n := 1 + vxChoose("list length", vxParam("listlen"))
	l := make([]any, n)
	for i := range l {
		l[i] = vxDoc(d - 1)
	}
	return l
}

// reference: documented semantics
func vxExpect(v any, exempt bool) any {
	switch x := v.(type) {
	case string:
		if exempt {
			return x
		}
		return "hmac:" + x
	case map[string]any:
		out := map[string]any{}
		for k, e := range x {
			out[k] = vxExpect(e, k == "x")
		}
		return out
	case []any:
		out := make([]any, len(x))
		for i, e := range x {
			out[i] = vxExpect(e, exempt)
		}
		return out
	}
	return v
}

func vxSameDoc(a, b any) bool {
	switch x := a.(type) {
	case string:
		y, ok := b.(string)
		return ok && x == y
	case int:
		y, ok := b.(int)
		return ok && x == y
	case map[string]any:
		y, ok := b.(map[string]any)
		if !ok || len(x) != len(y) {
			return false
		}
		for k, e := range x {
			f, ok := y[k]
			if !ok || !vxSameDoc(e, f) {
				return false
			}
		}
		return true
	case []any:
		y, ok := b.([]any)
		if !ok || len(x) != len(y) {
			return false
		}
		for i := range x {
			if !vxSameDoc(x[i], y[i]) {
				return false
			}
		}
		return true
	}
	return false
}

func VxHashStructureDeep() {
	vxLeafN = 0
	top := []string{"k", "x", "items"}[vxChoose("top-level key(k,x,items)", 3)]
	doc := map[string]any{top: vxDoc(2)}
	if vxBool("a second top-level entry follows") {
		doc["z"] = vxDoc(0)
	}
	want := vxExpect(doc, false)
	err := HashStructure(doc, func(s string) string { return "hmac:" + s }, []string{"x"}, false)
	vxAssert("the walk succeeds on JSON-shaped data", err == nil)
	vxReach("deep hash: walked")
	vxAssert("every string leaf is hashed unless its nearest enclosing map key is exempt; keys, numbers and shape are unchanged", vxSameDoc(doc, want))
}
