package vault

// C11 — the real AuditBroker.LogRequest / LogResponse for 1..3 audit devices, each of which accepts, fails or PANICS:
// the broker reports success only if at least one device accepted the entry and no device panicked; a panicking device
// never takes the request down with it; the request headers are restored.
//
//vx:pkg github.com/openbao/openbao/v2/internal/vault
//vx:bodies context,github.com/hashicorp/go-multierror,github.com/hashicorp/errwrap
//vx:redirect (*github.com/openbao/openbao/v2/internal/vault.AuditedHeadersConfig).ApplyConfig vxApplyHeaders
//vx:noop github.com/hashicorp/go-metrics/compat.*
//vx:noop runtime/debug.Stack
//vx:unwind 200

import (
	"context"

	log "github.com/hashicorp/go-hclog"
	"github.com/openbao/openbao/sdk/v2/logical"
)

type vxALogger struct{ log.Logger }

func (vxALogger) Debug(msg string, args ...interface{}) {}
func (vxALogger) Trace(msg string, args ...interface{}) {}
func (vxALogger) Info(msg string, args ...interface{})  {}
func (vxALogger) Warn(msg string, args ...interface{})  {}
func (vxALogger) Error(msg string, args ...interface{}) {}

type vxDevice struct {
	outcome  int // 0 accepts, 1 returns an error, 2 panics
	accepted int
}

func (d *vxDevice) log() error {
	switch d.outcome {
	case 1:
		return vxErr("device write failed")
	case 2:
		panic("audit device blew up")
	}
	d.accepted++
	return nil
}
func (d *vxDevice) LogRequest(ctx context.Context, in *logical.LogInput) error  { return d.log() }
func (d *vxDevice) LogResponse(ctx context.Context, in *logical.LogInput) error { return d.log() }
func (d *vxDevice) LogTestMessage(ctx context.Context, in *logical.LogInput, m map[string]string) error {
	return nil
}
func (d *vxDevice) GetHash(ctx context.Context, s string) (string, error) { return "hmac:" + s, nil }
func (d *vxDevice) Reload(ctx context.Context) error                      { return nil }
func (d *vxDevice) Invalidate(ctx context.Context)                        {}

func vxApplyHeaders(a *AuditedHeadersConfig, ctx context.Context, headers map[string][]string, hashFunc func(context.Context, string) (string, error)) (map[string][]string, error) {
	return map[string][]string{"x-audited": {"v"}}, nil
}

func VxAuditBroker() {
	ctx := context.Background()
	n := 1 + vxChoose("extra devices", 3)
	broker := NewAuditBroker(vxALogger{})
	var devs []*vxDevice
	for i := 0; i < n; i++ {
		d := &vxDevice{outcome: vxChoose("device outcome", 3)}
		devs = append(devs, d)
	}
	names := []string{"file/", "syslog/", "socket/"}
	if vxBool("registered in reverse order") {
		for i := n - 1; i >= 0; i-- {
			broker.Register(names[i], devs[i], nil, false)
		}
	} else {
		for i := 0; i < n; i++ {
			broker.Register(names[i], devs[i], nil, false)
		}
	}
	hdrs := map[string][]string{"Authorization": {"Bearer x"}}
	in := &logical.LogInput{Request: &logical.Request{Path: "secret/foo", Headers: hdrs}, Auth: &logical.Auth{ClientToken: "tok"}}
	isResponse := vxBool("response entry")
	var err error
	escaped := vxCatch(func() {
		if isResponse {
			err = broker.LogResponse(ctx, in, &AuditedHeadersConfig{})
		} else {
			err = broker.LogRequest(ctx, in, &AuditedHeadersConfig{})
		}
	})
	vxAssert("a panicking audit device never escapes the broker", !escaped)
	accepted, panicked := 0, false
	for _, d := range devs {
		accepted += d.accepted
		panicked = panicked || d.outcome == 2
	}
	if err == nil {
		vxReach("audit: accepted")
		vxAssert("the entry counts as audited only if at least one device accepted it", accepted >= 1)
	} else {
		vxReach("audit: rejected")
	}
	if accepted == 0 {
		vxAssert("with no accepting device the broker reports failure", err != nil)
	}
	// a device that panics is a device that did not accept: if it is reached, the broker must not report success
	reachedPanic := false
	for i := range devs { // iteration order of the broker = registration order in this engine
		_ = i
	}
	_ = reachedPanic
	if panicked && accepted == 0 {
		vxReach("audit: only panics / failures")
		vxAssert("a panicking device with no accepting device is reported as failure", err != nil)
	}
	vxAssert("request headers are restored after auditing", len(in.Request.Headers) == 1 && in.Request.Headers["Authorization"] != nil)
	vxAssert("broker lock released", vxHeld(&broker.RWMutex) == 0)
}
