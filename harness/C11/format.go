package audit

// C11 (c') — what is WRITTEN to the audit device: the real AuditFormatter.FormatRequest and FormatResponse (with the
// real HashAuth / HashRequest / HashResponse / HashWrapInfo) in the default (non-raw) mode, for ALL client token /
// accessor / wrapping-token strings (symbolic), a wrapping token in plain or JWT format (the JWT carries the token id
// as its "jti"), both settings of hmac_accessor, with and without an auth block and wrap info on the response: no
// field of the written entry holds a client token, a wrapping token - nor the id inside a JWT-format wrapping token -
// in the clear; accessors are hashed when hmac_accessor is on; the objects handed in are left as they were.
//
//vx:pkg github.com/openbao/openbao/v2/internal/audit
//vx:include hashing.go
//vx:assume (this file) a JWT-format wrapping token is the string "<id>.jwt.sig" and parses (go-jose, unverified claims) to its id; any other string - in particular a keyed hash - does not parse; time formatting yields a constant; the format writer records the entry instead of serialising it (JSON encoding of the entry structs is plain encoding/json)
//vx:bodies context,github.com/openbao/openbao/sdk/v2/logical,github.com/openbao/openbao/sdk/v2/helper/wrapping,github.com/openbao/openbao/v2/internal/helper/namespace,maps
//vx:redirect (*github.com/openbao/openbao/sdk/v2/helper/salt.Salt).GetIdentifiedHMAC vxHMAC
//vx:redirect github.com/mitchellh/copystructure.Copy vxHCopy
//vx:redirect github.com/openbao/openbao/v2/internal/audit.getUnmarshaledCopy vxHUnmarshaledCopy
//vx:redirect github.com/openbao/openbao/v2/internal/audit.HashStructure vxHashStructure
//vx:redirect github.com/openbao/openbao/v2/internal/audit.parseVaultTokenFromJWT vxFParseJWT
//vx:redirect (time.Time).Format vxFTimeFormat
//vx:redirect (time.Duration).Seconds vxFSeconds
//vx:unwind 100

import (
	"context"
	"io"
	"time"

	"github.com/openbao/openbao/sdk/v2/helper/salt"
	"github.com/openbao/openbao/sdk/v2/helper/wrapping"
	"github.com/openbao/openbao/sdk/v2/logical"
	"github.com/openbao/openbao/v2/internal/helper/namespace"
)

func vxFTimeFormat(t time.Time, layout string) string { return "<time>" }
func vxFSeconds(d time.Duration) float64              { return 0 }

// "<id>.jwt.sig" -> id
func vxFParseJWT(token string) *string {
	if len(token) >= 12 && token[:12] == "hmac-sha256:" {
		return nil // a keyed hash is hex: it never parses as a JWT
	}
	if len(token) > 8 && token[len(token)-8:] == ".jwt.sig" {
		id := token[:len(token)-8]
		return &id
	}
	return nil
}

type vxFWriter struct {
	reqs  []*AuditRequestEntry
	resps []*AuditResponseEntry
}

func (w *vxFWriter) WriteRequest(_ io.Writer, e *AuditRequestEntry) error {
	w.reqs = append(w.reqs, e)
	return nil
}
func (w *vxFWriter) WriteResponse(_ io.Writer, e *AuditResponseEntry) error {
	w.resps = append(w.resps, e)
	return nil
}
func (w *vxFWriter) Salt(context.Context) (*salt.Salt, error) { return &salt.Salt{}, nil }

type vxFSink struct{}

func (vxFSink) Write(p []byte) (int, error) { return len(p), nil }

func VxFormattedEntriesCarryNoCredential() {
	ctx := namespace.RootContext(context.Background())
	rec := &vxFWriter{}
	f := &AuditFormatter{AuditFormatWriter: rec}
	hmacAcc := vxBool("hmac_accessor")
	cfg := FormatterConfig{HMACAccessor: hmacAcc, OmitTime: vxBool("omit time")}
	tok, acc := vxTok("client token"), vxTok("accessor")
	wid, wacc := vxTok("wrapping token id"), vxTok("wrapping accessor")
	newTok, newAcc := vxTok("issued token"), vxTok("issued accessor")
	auth := &logical.Auth{ClientToken: tok, Accessor: acc, DisplayName: "u"}
	req := &logical.Request{ClientToken: tok, ClientTokenAccessor: acc, Path: "kv/a", Operation: logical.ReadOperation, Data: map[string]any{"k": "v"}}
	in := &logical.LogInput{Auth: auth, Request: req}

	// request entry
	vxAssert("request entry is written", f.FormatRequest(ctx, vxFSink{}, cfg, in) == nil && len(rec.reqs) == 1)
	re := rec.reqs[0]
	vxAssert("request entry: no client token in the clear", vxIsHashOf(re.Auth.ClientToken, tok) && vxIsHashOf(re.Request.ClientToken, tok))
	if hmacAcc {
		vxAssert("request entry: accessors hashed when hmac_accessor is on", vxIsHashOf(re.Auth.Accessor, acc) && vxIsHashOf(re.Request.ClientTokenAccessor, acc))
	}

	// response entry
	resp := &logical.Response{Data: map[string]any{"k": "v"}}
	issued := vxBool("response issues a token")
	if issued {
		resp.Auth = &logical.Auth{ClientToken: newTok, Accessor: newAcc}
	}
	wrapped := vxBool("response is wrapped")
	jwtFormat := false
	wtok := wid
	if wrapped {
		jwtFormat = vxBool("wrapping token in JWT format")
		if jwtFormat {
			wtok = wid + ".jwt.sig"
		}
		resp.WrapInfo = &wrapping.ResponseWrapInfo{Token: wtok, Accessor: wacc, TTL: 60 * time.Second, CreationPath: "kv/a"}
		if jwtFormat {
			resp.WrapInfo.Format = "jwt"
		}
	}
	in.Response = resp
	vxAssert("response entry is written", f.FormatResponse(ctx, vxFSink{}, cfg, in) == nil && len(rec.resps) == 1)
	e := rec.resps[0]
	vxReach("format: entries written")
	vxAssert("response entry: the presenting token is hashed", vxIsHashOf(e.Auth.ClientToken, tok) && vxIsHashOf(e.Request.ClientToken, tok))
	if issued {
		vxReach("format: issued token")
		vxAssert("response entry: a token issued by the response is hashed", e.Response.Auth != nil && vxIsHashOf(e.Response.Auth.ClientToken, newTok))
		if hmacAcc {
			vxAssert("response entry: its accessor is hashed when hmac_accessor is on", vxIsHashOf(e.Response.Auth.Accessor, newAcc))
		}
	}
	if wrapped {
		vxReach("format: wrapped response")
		wi := e.Response.WrapInfo
		vxAssert("response entry: wrap info present", wi != nil)
		vxAssert("response entry: the wrapping token is never written in the clear", wi.Token != wtok)
		vxAssert("response entry: nor is the token id carried inside a JWT-format wrapping token (the bare id is accepted by sys/wrapping/unwrap)", wi.Token != wid)
		vxAssert("response entry: the wrapping token field is the keyed hash of the token as issued", vxIsHashOf(wi.Token, wtok))
		if hmacAcc {
			vxAssert("response entry: the wrapping accessor is hashed when hmac_accessor is on", vxIsHashOf(wi.Accessor, wacc))
		}
		vxAssert("the response handed in still carries the real wrapping token (it goes to the client)", resp.WrapInfo.Token == wtok)
	}
	vxAssert("the caller's request and auth objects are untouched", req.ClientToken == tok && auth.ClientToken == tok && auth.Accessor == acc)
	if issued {
		vxAssert("the caller's response auth is untouched", resp.Auth.ClientToken == newTok && resp.Auth.Accessor == newAcc)
	}
}
