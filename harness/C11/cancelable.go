package vault

// C11 / C18 — the real Core.handleCancelableRequest around a backend result: response data is handed back only after
// the response audit entry was accepted (otherwise an internal error carrying nothing of the backend's answer);
// a response that is to be wrapped is replaced by one that carries only the wrapping info; internal data is stripped.
//
//vx:pkg github.com/openbao/openbao/v2/internal/vault
//vx:bodies context,github.com/openbao/openbao/v2/internal/vault/routing,github.com/openbao/openbao/sdk/v2/helper/consts,github.com/openbao/openbao/sdk/v2/logical,github.com/openbao/openbao/sdk/v2/helper/wrapping,github.com/openbao/openbao/v2/internal/helper/namespace,github.com/hashicorp/go-multierror,github.com/hashicorp/errwrap
//vx:redirect (*github.com/openbao/openbao/v2/internal/vault.Core).handleRequest vxInnerHandle
//vx:redirect (*github.com/openbao/openbao/v2/internal/vault.Core).handleLoginRequest vxInnerHandle
//vx:redirect (*github.com/openbao/openbao/v2/internal/vault.Core).PopulateTokenEntry vxPopulate
//vx:redirect (*github.com/openbao/openbao/v2/internal/vault.Core).wrapInCubbyhole vxWrapInCubbyhole
//vx:redirect (*github.com/openbao/openbao/v2/internal/vault.AuditBroker).LogResponse vxLogResponse
//vx:redirect (*github.com/openbao/openbao/v2/internal/vault/routing.Router).MatchingMount vxMatchingMount
//vx:redirect (*github.com/openbao/openbao/v2/internal/vault/routing.Router).LoginPath vxLoginPath
//vx:redirect (*github.com/openbao/openbao/v2/internal/vault/routing.Router).MatchingMountEntry vxMountEntry
//vx:noop github.com/hashicorp/go-metrics/compat.*
//vx:unwind 200

import (
	"context"
	"time"

	log "github.com/hashicorp/go-hclog"
	"github.com/openbao/openbao/sdk/v2/helper/wrapping"
	"github.com/openbao/openbao/sdk/v2/logical"
	"github.com/openbao/openbao/v2/internal/helper/namespace"
	"github.com/openbao/openbao/v2/internal/vault/routing"
)

type vxKLogger struct{ log.Logger }

func (vxKLogger) Debug(msg string, args ...interface{}) {}
func (vxKLogger) Trace(msg string, args ...interface{}) {}
func (vxKLogger) Info(msg string, args ...interface{})  {}
func (vxKLogger) Warn(msg string, args ...interface{})  {}
func (vxKLogger) Error(msg string, args ...interface{}) {}

type vxCan struct {
	respKind     int // 0 nil, 1 data, 2 secret, 3 auth, 4 data to be wrapped, 5 backend error response
	innerErr     bool
	respAuditOK  bool
	wrapOutcome  int // 0 ok, 1 error, 2 error response
	auditedResp  *logical.Response
	auditCalls   int
	wrapCalls    int
	wrapToken    string
}

var vxK *vxCan

var vxSecretData = map[string]any{"secret_value": "s3cr3t"}

func vxInnerHandle(c *Core, ctx context.Context, req *logical.Request) (*logical.Response, *logical.Auth, error) {
	auth := &logical.Auth{ClientToken: "tok"}
	var err error
	if vxK.innerErr {
		err = logical.ErrPermissionDenied
	}
	switch vxK.respKind {
	case 1:
		return &logical.Response{Data: map[string]any{"secret_value": "s3cr3t"}}, auth, err
	case 2:
		return &logical.Response{Data: map[string]any{"secret_value": "s3cr3t"}, Secret: &logical.Secret{LeaseID: "l/1", InternalData: map[string]any{"backend_private": "x"}}}, auth, err
	case 3:
		return &logical.Response{Auth: &logical.Auth{ClientToken: "new-token", InternalData: map[string]any{"backend_private": "x"}}}, auth, err
	case 4:
		return &logical.Response{Data: map[string]any{"secret_value": "s3cr3t"}, WrapInfo: &wrapping.ResponseWrapInfo{TTL: time.Minute}}, auth, err
	case 5:
		return logical.ErrorResponse("backend refused"), auth, err
	}
	return nil, auth, err
}

func vxPopulate(c *Core, ctx context.Context, req *logical.Request) error { return nil }

func vxWrapInCubbyhole(c *Core, ctx context.Context, req *logical.Request, resp *logical.Response, auth *logical.Auth, extra map[string]string) (*logical.Response, error) {
	vxK.wrapCalls++
	switch vxK.wrapOutcome {
	case 1:
		return nil, ErrInternalError
	case 2:
		return logical.ErrorResponse("cubbyhole write failed"), nil
	}
	resp.WrapInfo.Token = "wrapping-token"
	return nil, nil
}

func vxLogResponse(a *AuditBroker, ctx context.Context, in *logical.LogInput, hc *AuditedHeadersConfig) error {
	vxK.auditCalls++
	vxK.auditedResp = in.Response
	if !vxK.respAuditOK {
		return vxErr("no audit device accepted the response entry")
	}
	return nil
}

func vxMatchingMount(r *routing.Router, ctx context.Context, path string) string { return "aws/" }
func vxLoginPath(r *routing.Router, ctx context.Context, path string) bool      { return vxK.respKind == 3 }
func vxMountEntry(r *routing.Router, ctx context.Context, path string) *routing.MountEntry {
	return &routing.MountEntry{Type: "aws"}
}

func VxResponseAuditAndWrapping() {
	ctx := namespace.RootContext(context.Background())
	c := &Core{router: &routing.Router{}, logger: vxKLogger{}, auditBroker: &AuditBroker{}}
	vxK = &vxCan{respKind: vxChoose("backend result", 6), innerErr: vxBool("inner error"), respAuditOK: vxBool("response audit accepted"), wrapOutcome: vxChoose("cubbyhole outcome", 3)}
	req := &logical.Request{Operation: logical.ReadOperation, Path: "aws/creds/dev", ClientToken: "tok"}
	resp, err := c.handleCancelableRequest(ctx, req)
	vxAssert("exactly one response audit entry per request", vxK.auditCalls == 1)
	if !vxK.respAuditOK {
		vxReach("response audit rejected")
		vxAssert("without an accepted response audit entry the client gets an internal error and nothing else", resp == nil && err == ErrInternalError)
		return
	}
	vxReach("response audit accepted")
	wrapping := vxK.respKind == 4 && !vxK.innerErr
	if wrapping {
		vxAssert("a response to be wrapped is stored in the cubbyhole exactly once", vxK.wrapCalls == 1)
		if vxK.wrapOutcome == 0 {
			vxReach("wrapped")
			vxAssert("the requester of a wrapped response receives only the wrapping info", resp != nil && resp.Data == nil && resp.Secret == nil && resp.Auth == nil && resp.WrapInfo != nil && resp.WrapInfo.Token == "wrapping-token")
			vxAssert("the audited response is the wrapping response, not the payload", vxK.auditedResp == resp)
		} else {
			vxReach("wrapping failed")
			_, leaked := map[string]any(nil)["x"]
			if resp != nil {
				_, leaked = resp.Data["secret_value"]
			}
			vxAssert("a failed wrap never falls back to returning the payload", !leaked && (err != nil || (resp != nil && resp.IsError())))
		}
	} else {
		vxAssert("nothing is wrapped unless asked for", vxK.wrapCalls == 0)
	}
	if resp != nil && resp.Secret != nil {
		vxAssert("backend-internal secret data is stripped", resp.Secret.InternalData == nil)
	}
	if resp != nil && resp.Auth != nil {
		vxAssert("backend-internal auth data is stripped", resp.Auth.InternalData == nil)
	}
}
