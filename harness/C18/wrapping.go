package vault

// C18 — response wrapping: repeated third-party unwrap attempts on one wrapping token obtain the payload exactly
// once (real responseWrappingUnwrap + real UseTokenByID/UseToken over the token-storage model), after which token and
// payload are gone; a token is accepted as wrapping token only if its policy list is exactly [response-wrapping] and
// every rejected attempt is audited; the token minted by wrapInCubbyhole has one use, only the response-wrapping
// policy and a lifetime capped at the wrap TTL, and failures while storing the payload revoke it.
//
//vx:pkg github.com/openbao/openbao/v2/internal/vault
//vx:bodies context,github.com/openbao/openbao/v2/internal/vault/routing,github.com/openbao/openbao/sdk/v2/helper/consts,github.com/openbao/openbao/sdk/v2/logical,github.com/openbao/openbao/sdk/v2/helper/wrapping,github.com/openbao/openbao/v2/internal/helper/namespace,github.com/openbao/openbao/sdk/v2/helper/locksutil
//vx:redirect (*github.com/openbao/openbao/v2/internal/vault.TokenStore).lookupInternal vxWLookupInternal
//vx:redirect (*github.com/openbao/openbao/v2/internal/vault.TokenStore).store vxWStore
//vx:redirect (*github.com/openbao/openbao/v2/internal/vault.TokenStore).revokeOrphan vxWRevokeOrphan
//vx:redirect (*github.com/openbao/openbao/v2/internal/vault.TokenStore).create vxWCreate
//vx:redirect (*github.com/openbao/openbao/v2/internal/vault/routing.Router).Route vxWRoute
//vx:redirect (*github.com/openbao/openbao/v2/internal/vault.AuditBroker).LogRequest vxWLogRequest
//vx:redirect (*github.com/openbao/openbao/v2/internal/vault.ExpirationManager).RegisterAuth vxWRegisterAuth
//vx:redirect github.com/openbao/openbao/sdk/v2/helper/locksutil.LockIndexForKey vxWLockIndex
//vx:redirect encoding/json.Marshal vxWJSON
//vx:redirect (encoding/json.Number).Int64 vxWNumInt64
//vx:redirect (*github.com/openbao/openbao/sdk/v2/framework.FieldData).Get vxWGet
//vx:noop github.com/hashicorp/go-metrics/compat.*
//vx:noop (*github.com/openbao/openbao/v2/internal/helper/metricsutil.ClusterMetricSink).*
//vx:noop github.com/openbao/openbao/v2/internal/helper/metricsutil.*
//vx:param attempts quick=3 thorough=5
//vx:unwind 400

import (
	"context"
	"encoding/json"
	"time"

	log "github.com/hashicorp/go-hclog"
	"github.com/openbao/openbao/sdk/v2/framework"
	"github.com/openbao/openbao/sdk/v2/helper/locksutil"
	"github.com/openbao/openbao/sdk/v2/helper/wrapping"
	"github.com/openbao/openbao/sdk/v2/logical"
	"github.com/openbao/openbao/v2/internal/helper/metricsutil"
	"github.com/openbao/openbao/v2/internal/helper/namespace"
	"github.com/openbao/openbao/v2/internal/vault/routing"
)

type vxWLogger struct{ log.Logger }

func (vxWLogger) Debug(msg string, args ...interface{}) {}
func (vxWLogger) Trace(msg string, args ...interface{}) {}
func (vxWLogger) Info(msg string, args ...interface{})  {}
func (vxWLogger) Warn(msg string, args ...interface{})  {}
func (vxWLogger) Error(msg string, args ...interface{}) {}

type vxWrapWorld struct {
	token      *logical.TokenEntry // the stored wrapping token (nil = gone)
	payload    map[string]any      // cubbyhole content of that token (nil = gone)
	cubbyReads int
	infoReads  int
	audits     int
	created    *logical.TokenEntry
	cubbyPuts  []string
	revoked    []string
	routeFail  int // fail the n-th cubbyhole write (1-based), 0 = none
	regAuthOK  bool
	createOK   bool
}

var vxWW *vxWrapWorld

func vxWGet(d *framework.FieldData, k string) any {
	if v, ok := d.Raw[k]; ok {
		return v
	}
	return ""
}
func vxWNumInt64(n json.Number) (int64, error) {
	if string(n) == "60000000000" {
		return 60000000000, nil
	}
	return 0, vxErr("strconv.ParseInt: invalid syntax")
}

// a client holds the server-side-consistent spelling of its token ("ssc:"+stored id); the stored id is what the entry is
// kept under. The two spellings hash to different lock stripes (255 times out of 256).
func vxWCanon(id string) string {
	if len(id) > 4 && id[:4] == "ssc:" {
		return id[4:]
	}
	return id
}
func vxWLockIndex(key string) uint8 {
	if key == "wt" {
		return 0
	}
	return 1
}
func vxWJSON(v any) ([]byte, error) { return vxBox(v), nil }

func vxWLookupInternal(ts *TokenStore, ctx context.Context, id string, salted, tainted bool) (*logical.TokenEntry, error) {
	t := vxWW.token
	if !salted {
		id = vxWCanon(id) // lookupInternal resolves the server-side-consistent spelling
	}
	if t == nil || t.ID != id {
		return nil, nil
	}
	if t.NumUses < 0 && !tainted {
		return nil, nil
	}
	c := *t
	return &c, nil
}

func vxWStore(ts *TokenStore, ctx context.Context, te *logical.TokenEntry) error {
	if vxWW.token != nil && te.ID == vxWW.token.ID {
		vxAssert("the wrapping token's entry is stored while the write lock of ITS stripe (the stored id's) is held", vxHeldW(ts.tokenLocks[vxWLockIndex(te.ID)]))
	}
	c := *te
	vxWW.token = &c
	return nil
}

// revokeOrphan salts the id it is given: the server-side-consistent spelling is NOT resolved there
func vxWRevokeOrphan(ts *TokenStore, ctx context.Context, id string) error {
	vxWW.revoked = append(vxWW.revoked, id)
	if vxWW.token != nil && vxWW.token.ID == id {
		vxWW.token, vxWW.payload = nil, nil
	}
	return nil
}

func vxWCreate(ts *TokenStore, ctx context.Context, entry *logical.TokenEntry, persist bool) error {
	if !vxWW.createOK {
		return vxErr("token creation failed")
	}
	entry.ID, entry.ExternalID, entry.Accessor = "wrap-tok", "wrap-tok", "wrap-acc"
	c := *entry
	vxWW.created = &c
	return nil
}

// the cubbyhole a request reaches is the one of the token ENTRY attached to it (routeCommon; decided under C12)
func vxWReqToken(req *logical.Request) string {
	if te := req.TokenEntry(); te != nil {
		return te.ID
	}
	return ""
}

func vxWRoute(r *routing.Router, ctx context.Context, req *logical.Request) (*logical.Response, error) {
	switch req.Operation {
	case logical.ReadOperation: // cubbyhole/response (or cubbyhole/wrapinfo) read with the wrapping token
		if req.Path == "cubbyhole/wrapinfo" {
			vxWW.infoReads++
			if vxWW.payload == nil || vxWW.token == nil || vxWReqToken(req) != vxWW.token.ID {
				return logical.ErrorResponse("no value found at cubbyhole/wrapinfo"), nil
			}
			return &logical.Response{Data: map[string]any{"creation_ttl": json.Number("60000000000"), "creation_path": "secret/x"}}, nil
		}
		vxWW.cubbyReads++
		if vxWW.payload == nil || vxWW.token == nil || vxWReqToken(req) != vxWW.token.ID {
			return logical.ErrorResponse("no value found at cubbyhole/response"), nil
		}
		return &logical.Response{Data: vxWW.payload}, nil
	case logical.CreateOperation:
		vxWW.cubbyPuts = append(vxWW.cubbyPuts, req.Path+" as "+req.ClientToken)
		if vxWW.routeFail == len(vxWW.cubbyPuts) {
			return nil, vxErr("cubbyhole write failed")
		}
	}
	return nil, nil
}

func vxWLogRequest(a *AuditBroker, ctx context.Context, in *logical.LogInput, hc *AuditedHeadersConfig) error {
	vxWW.audits++
	return nil
}

func vxWRegisterAuth(m *ExpirationManager, ctx context.Context, te *logical.TokenEntry, auth *logical.Auth, role string, persist bool) error {
	if !vxWW.regAuthOK {
		return vxErr("lease registration failed")
	}
	return nil
}

func vxWBodyToken() string {
	if vxBool("token in the body is in its server-side-consistent spelling") {
		return "ssc:wt"
	}
	return "wt"
}

func vxWCore() *Core {
	return &Core{router: &routing.Router{}, logger: vxWLogger{}, auditBroker: &AuditBroker{}, expiration: &ExpirationManager{},
		tokenStore: &TokenStore{tokenLocks: locksutil.CreateLocks()}, metricSink: &metricsutil.ClusterMetricSink{}}
}

// three unwrap attempts (token passed in the request body) on one wrapping token: exactly one obtains the payload
func VxUnwrapAtMostOnce() {
	ctx := namespace.RootContext(context.Background())
	c := vxWCore()
	b := &SystemBackend{Core: c}
	vxWW = &vxWrapWorld{
		token:   &logical.TokenEntry{ID: "wt", NumUses: 1, Policies: []string{"response-wrapping"}, NamespaceID: namespace.RootNamespaceID},
		payload: map[string]any{"response": "{\"secret\":\"s3cr3t\"}"},
	}
	got := 0
	for i := 0; i < vxParam("attempts"); i++ {
		holder := &logical.TokenEntry{ID: "wt", NumUses: 1, Policies: []string{"response-wrapping"}} // each caller looked the token up before anyone used it
		resp, err := b.responseWrappingUnwrap(ctx, holder, true)
		if err == nil && resp == "{\"secret\":\"s3cr3t\"}" {
			got++
		} else {
			vxAssert("a failed unwrap reveals nothing of the payload", resp != "{\"secret\":\"s3cr3t\"}")
		}
	}
	vxReach("unwrap: three attempts")
	vxAssert("exactly one unwrap attempt obtains the wrapped response", got == 1)
	vxAssert("the payload was read from the cubbyhole exactly once", vxWW.cubbyReads == 1)
	vxAssert("afterwards the wrapping token and its payload no longer exist", vxWW.token == nil && vxWW.payload == nil)
}

// a second unwrap arriving while the first is still in flight: the first request has consumed the single use (the
// stored entry is revocation-pending) but has not yet read and destroyed the cubbyhole. Whatever copy of the entry the
// second request's handler holds - looked up before the first one's use (NumUses 1) or after it (tainted lookup:
// revocation-pending) - it must not obtain the payload and must not touch the cubbyhole.
func VxUnwrapWhileAnotherInFlight() {
	ctx := namespace.RootContext(context.Background())
	c := vxWCore()
	b := &SystemBackend{Core: c}
	vxWW = &vxWrapWorld{
		token:   &logical.TokenEntry{ID: "wt", NumUses: tokenRevocationPending, Policies: []string{"response-wrapping"}, NamespaceID: namespace.RootNamespaceID},
		payload: map[string]any{"response": "{\"secret\":\"s3cr3t\"}"},
	}
	holder := &logical.TokenEntry{ID: "wt", NumUses: 1, Policies: []string{"response-wrapping"}}
	if vxBool("second request looked the token up after the first one consumed the use") {
		holder.NumUses = tokenRevocationPending
	}
	resp, err := b.responseWrappingUnwrap(ctx, holder, true)
	vxReach("unwrap: second request while the first is in flight")
	vxAssert("a second unwrap in flight obtains nothing", err != nil && resp == "")
	vxAssert("and does not read the cubbyhole", vxWW.cubbyReads == 0)
	vxAssert("the payload is still there for the request that consumed the use", vxWW.payload != nil)
}

// rewrap is an unwrap whose payload goes into a new wrapping token: any two operations out of {unwrap, rewrap} on one
// wrapping token (token passed in the body), each caller having looked the token up before the other used it: exactly
// one obtains the payload; a rewrap hands on exactly the original payload, creation path and creation TTL; afterwards
// the old token and its cubbyhole are gone.
func VxRewrapAndUnwrapShareOneUse() {
	ctx := namespace.RootContext(context.Background())
	c := vxWCore()
	b := &SystemBackend{Core: c}
	payload := "{\"secret\":\"s3cr3t\"}"
	vxWW = &vxWrapWorld{
		token:   &logical.TokenEntry{ID: "wt", NumUses: 1, Policies: []string{"response-wrapping"}, NamespaceID: namespace.RootNamespaceID},
		payload: map[string]any{"response": payload},
	}
	got := 0
	for i := 0; i < vxParam("attempts")-1; i++ {
		if vxBool("operation is a rewrap (else an unwrap)") {
			d := &framework.FieldData{Raw: map[string]any{"token": vxWBodyToken()}, Schema: map[string]*framework.FieldSchema{"token": {Type: framework.TypeString}}}
			resp, err := b.handleWrappingRewrap(ctx, &logical.Request{ClientToken: "caller", Operation: logical.UpdateOperation}, d)
			if err == nil && resp != nil && !resp.IsError() && resp.Data != nil && resp.Data["response"] != nil {
				got++
				vxReach("rewrap: payload handed on")
				vxAssert("a rewrap hands on exactly the original payload", resp.Data["response"] == payload)
				vxAssert("with the original creation path and creation TTL", resp.WrapInfo != nil && resp.WrapInfo.CreationPath == "secret/x" && resp.WrapInfo.TTL == 60*time.Second)
			} else {
				vxAssert("a refused rewrap reveals nothing of the payload", resp == nil || resp.Data == nil || resp.Data["response"] != payload)
			}
		} else {
			holder := &logical.TokenEntry{ID: "wt", NumUses: 1, Policies: []string{"response-wrapping"}}
			resp, err := b.responseWrappingUnwrap(ctx, holder, true)
			if err == nil && resp == payload {
				got++
			} else {
				vxAssert("a failed unwrap reveals nothing of the payload", resp != payload)
			}
		}
	}
	vxReach("rewrap/unwrap: two operations")
	vxAssert("exactly one of two unwrap / rewrap operations obtains the wrapped response", got == 1)
	vxAssert("the payload was read from the cubbyhole exactly once", vxWW.cubbyReads == 1)
	vxAssert("afterwards the old wrapping token and its payload no longer exist", vxWW.token == nil && vxWW.payload == nil)
}

// a rewrap arriving while another unwrap / rewrap is in flight (use consumed, cubbyhole not yet destroyed)
func VxRewrapWhileAnotherInFlight() {
	ctx := namespace.RootContext(context.Background())
	c := vxWCore()
	b := &SystemBackend{Core: c}
	payload := "{\"secret\":\"s3cr3t\"}"
	vxWW = &vxWrapWorld{
		token:   &logical.TokenEntry{ID: "wt", NumUses: tokenRevocationPending, Policies: []string{"response-wrapping"}, NamespaceID: namespace.RootNamespaceID},
		payload: map[string]any{"response": payload},
	}
	d := &framework.FieldData{Raw: map[string]any{"token": vxWBodyToken()}, Schema: map[string]*framework.FieldSchema{"token": {Type: framework.TypeString}}}
	resp, err := b.handleWrappingRewrap(ctx, &logical.Request{ClientToken: "caller", Operation: logical.UpdateOperation}, d)
	vxReach("rewrap: second request while the first is in flight")
	vxAssert("a rewrap in flight behind another use obtains nothing", err != nil || resp == nil || resp.Data == nil || resp.Data["response"] == nil)
	vxAssert("and does not read the cubbyhole", vxWW.cubbyReads == 0 && vxWW.infoReads == 0)
	vxAssert("the payload is still there for the request that consumed the use", vxWW.payload != nil)
}

// a token is a wrapping token only if its policy list is exactly [response-wrapping]; rejected attempts are audited
func VxValidateWrappingToken() {
	ctx := namespace.RootContext(context.Background())
	c := vxWCore()
	universe := []string{"response-wrapping", "default", "root", "p"}
	n := vxChoose("number of policies", 3)
	var pols []string
	for i := 0; i < n; i++ {
		pols = append(pols, universe[vxChoose("policy", len(universe))])
	}
	vxWW = &vxWrapWorld{token: &logical.TokenEntry{ID: "wt", NumUses: 1, Policies: pols, NamespaceID: namespace.RootNamespaceID}}
	req := &logical.Request{Path: "sys/wrapping/unwrap", ClientToken: "wt"}
	if vxBool("token in request body") {
		req.ClientToken = "someone-else"
		req.Data = map[string]any{"token": "wt"}
	}
	if vxBool("token does not exist") {
		vxWW.token = nil
	}
	valid, err := c.validateWrappingToken(ctx, req)
	want := vxWW.token != nil && len(pols) == 1 && pols[0] == "response-wrapping"
	vxAssert("valid iff the token exists and carries exactly the response-wrapping policy", err == nil && valid == want)
	if want {
		vxReach("validate: accepted")
		vxAssert("an accepted attempt is not audited here (it is audited by the request path)", vxWW.audits == 0)
	} else {
		vxReach("validate: rejected")
		vxAssert("a rejected unwrap / lookup / rewrap attempt leaves an audit entry", vxWW.audits == 1)
	}
}

// the wrapping token minted for a response
func VxWrapInCubbyhole() {
	ctx := namespace.RootContext(context.Background())
	c := vxWCore()
	vxWW = &vxWrapWorld{routeFail: vxChoose("failing cubbyhole write (0 = none)", 3), regAuthOK: vxBool("lease registration ok"), createOK: vxBool("token creation ok")}
	ttl := time.Duration(vxInt64("wrap ttl"))
	vxAssume(ttl > 0)
	req := &logical.Request{Operation: logical.ReadOperation, Path: "aws/creds/dev", ClientToken: "requester"}
	resp := &logical.Response{Data: map[string]any{"secret_value": "s3cr3t"}, WrapInfo: &wrapping.ResponseWrapInfo{TTL: ttl}}
	out, err := c.wrapInCubbyhole(ctx, req, resp, &logical.Auth{ClientToken: "requester"}, nil)
	if !vxWW.createOK {
		vxAssert("no token, no wrapping", err != nil && out == nil && len(vxWW.cubbyPuts) == 0)
		return
	}
	te := vxWW.created
	vxAssert("the wrapping token has exactly one use", te.NumUses == 1)
	vxAssert("the wrapping token carries only the response-wrapping policy", len(te.Policies) == 1 && te.Policies[0] == "response-wrapping")
	vxAssert("the wrapping token lives no longer than the wrap TTL", te.TTL == ttl && te.ExplicitMaxTTL == ttl)
	vxAssert("lookup will report the creating path", te.Path == "aws/creds/dev")
	for _, p := range vxWW.cubbyPuts {
		vxAssert("the payload is stored under the wrapping token, never under the requester's token", p == "cubbyhole/response as wrap-tok" || p == "cubbyhole/wrapinfo as wrap-tok")
	}
	if vxWW.routeFail == 0 && vxWW.regAuthOK {
		vxReach("wrap: stored")
		vxAssert("wrapping succeeded", err == nil && out == nil && resp.WrapInfo.Token == "wrap-tok" && resp.WrapInfo.CreationPath == "aws/creds/dev")
		vxAssert("both cubbyhole records written", len(vxWW.cubbyPuts) == 2)
		vxAssert("the token is kept", len(vxWW.revoked) == 0)
	} else {
		vxReach("wrap: failed")
		vxAssert("a wrapping token whose payload / lease could not be stored is revoked", err != nil && len(vxWW.revoked) == 1 && vxWW.revoked[0] == "wrap-tok")
	}
}
