package kv

// C14 — versioned KV kernels: AddVersion (consecutive numbering, exact pruning to max_versions, from an arbitrary
// metadata state) and validateCheckAndSetOption (exact check-and-set) for ALL values.
//
//vx:pkg github.com/openbao/openbao/v2/internal/builtin/logical/kv
//vx:redirect (*github.com/openbao/openbao/sdk/v2/framework.FieldData).GetOk vxGetOk
//vx:redirect github.com/go-viper/mapstructure/v2.WeakDecode vxWeakDecode
//vx:unwind 64

import (
	"github.com/openbao/openbao/sdk/v2/framework"
)

func vxGetOk(d *framework.FieldData, k string) (any, bool) {
	v, ok := d.Raw[k]
	return v, ok
}

// assumption: mapstructure.WeakDecode of an int-like JSON number into *int yields that number
func vxWeakDecode(in, out any) error {
	p, ok := out.(*int)
	if !ok {
		return vxErr("unsupported target")
	}
	switch x := in.(type) {
	case int:
		*p = x
		return nil
	case string:
		return vxErr("not a number")
	}
	return vxErr("unsupported input")
}

// One AddVersion step from an arbitrary metadata state that satisfies the representation invariant
// "Versions = {v : lo < v <= Current} with lo >= OldestVersion-1" (Current = B+c, symbolic base B).
func VxAddVersion() {
	base := vxU64("base")
	vxAssume(base < 1<<62)
	c := vxChoose("versions present", 5) // versions B+1 .. B+c are present
	k := &KeyMetadata{Key: "k", Versions: map[uint64]*VersionMetadata{}}
	for j := 1; j <= c; j++ {
		k.Versions[base+uint64(j)] = &VersionMetadata{}
	}
	k.CurrentVersion = base + uint64(c)
	if c == 0 {
		vxAssume(base == 0) // a key without versions has never been written
	}
	// OldestVersion: 0 while nothing was ever pruned, else the first retained version
	if vxBool("pruned before") && c > 0 {
		k.OldestVersion = base + 1
	} else {
		vxAssume(base == 0)
	}
	keyMax, cfgMax := vxU32("key max_versions"), vxU32("mount max_versions")
	k.MaxVersions = keyMax
	eff := defaultMaxVersions
	if keyMax > 0 || cfgMax > 0 {
		eff = keyMax
		if cfgMax > eff {
			eff = cfgMax
		}
	}
	cur := k.CurrentVersion
	vm, del := k.AddVersion(nil, nil, cfgMax)
	vxReach("addversion: done")
	vxAssert("version numbers are consecutive", k.CurrentVersion == cur+1)
	got, ok := k.Versions[cur+1]
	vxAssert("the new version is recorded", ok && got == vm)
	// retained = the newest 'eff' versions
	kept := 1
	for j := 1; j <= c; j++ {
		v := base + uint64(j)
		_, present := k.Versions[v]
		want := (cur+1)-v < uint64(eff)
		vxAssert("a version is retained iff it is among the newest max_versions", present == want)
		if present {
			kept++
		}
	}
	vxAssert("no more than max_versions versions are kept", uint64(kept) <= uint64(eff))
	if del != 0 {
		vxReach("addversion: pruned")
		vxAssert("reported prune point is current - max_versions", del == cur+1-uint64(eff))
		vxAssert("oldest version follows the prune point", k.OldestVersion == del+1)
	}
	vxAssert("map holds exactly the retained versions", len(k.Versions) == kept)
}

// exact check-and-set
func VxCheckAndSet() {
	cur := vxU64("current version")
	meta := &KeyMetadata{CurrentVersion: cur, CasRequired: vxBool("key cas_required")}
	cfg := &Configuration{CasRequired: vxBool("mount cas_required")}
	raw := map[string]any{}
	hasOptions, hasCas := vxBool("options present"), vxBool("cas present")
	cas := vxInt("cas")
	if hasOptions {
		opts := map[string]any{}
		if hasCas {
			opts["cas"] = cas
		}
		raw["options"] = opts
	}
	err := validateCheckAndSetOption(&framework.FieldData{Raw: raw}, cfg, meta)
	if hasOptions && hasCas {
		vxReach("cas: supplied")
		vxAssert("a check-and-set write passes iff the supplied version equals the current one", (err == nil) == (uint64(cas) == cur))
	} else {
		vxReach("cas: absent")
		vxAssert("without cas the write passes iff cas is not required", (err == nil) == !(cfg.CasRequired || meta.CasRequired))
	}
}
