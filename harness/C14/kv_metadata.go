package kv

// C14 — "metadata updates ... affect only the versions they name" (a metadata update names none; deleting a key's
// metadata names all of that key's versions and nothing else): the real pathMetadataWrite and pathMetadataDelete on
// the storage model with ONE injected failure at ANY storage call, plain and transactional storage, for 0..3 existing
// versions of the key plus a second key.
//   update: any subset of max_versions / cas_required / metadata_cas_required supplied (max_versions: ALL ints in a
//   range), metadata check-and-set required by mount, by key or not at all, supplied or not, ALL cas values: an accepted
//   update changes exactly the supplied settings and the metadata version counter - never the version list, the
//   current / oldest version numbers or any version record (pruning to a lowered max_versions is the next write's
//   business); the metadata check-and-set is exact; a refused or failed update leaves the committed state unchanged.
//   delete: success removes the key's metadata and every listed version record and nothing of the other key; on
//   transactional storage a failed delete changes nothing; on plain storage a failed delete keeps the metadata (so the
//   delete can be repeated and still finds every version it has to remove).
//
//vx:pkg github.com/openbao/openbao/v2/internal/builtin/logical/kv
//vx:include kv_handlers.go
//vx:assume (this file) the key-name encryption of the metadata record (keysutil.EncryptedKeyStorageWrapper) is replaced by the identity naming "metadata/<key>" used by the other C14 entries; custom_metadata validation and delete_version_after are not exercised
//vx:redirect (*github.com/openbao/openbao/v2/internal/builtin/logical/kv.versionedKVBackend).getKeyEncryptor vxKeyEncryptor
//vx:redirect (*github.com/openbao/openbao/sdk/v2/helper/keysutil.EncryptedKeyStorageWrapper).Wrap vxWrap
//vx:param maxv quick=4 thorough=6

import (
	"bytes"
	"context"
	"strconv"

	"github.com/openbao/openbao/sdk/v2/framework"
	"github.com/openbao/openbao/sdk/v2/helper/keysutil"
	"github.com/openbao/openbao/sdk/v2/logical"
)

type vxMetaKeyStorage struct {
	logical.Storage
	s logical.Storage
}

func (m *vxMetaKeyStorage) Delete(ctx context.Context, k string) error {
	return m.s.Delete(ctx, "metadata/"+k)
}

func vxKeyEncryptor(b *versionedKVBackend, ctx context.Context, s logical.Storage) (*keysutil.EncryptedKeyStorageWrapper, error) {
	return &keysutil.EncryptedKeyStorageWrapper{}, nil
}
func vxWrap(w *keysutil.EncryptedKeyStorageWrapper, s logical.Storage) logical.Storage {
	return &vxMetaKeyStorage{s: s}
}

// a second key whose records must never be touched
func vxAddOtherKey() {
	other := &KeyMetadata{Key: "bar", Versions: map[uint64]*VersionMetadata{1: {}}, CurrentVersion: 1}
	vxE.committed.keys = append(vxE.committed.keys, "versions/bar/1", "metadata/bar")
	vxE.committed.vals = append(vxE.committed.vals, []byte{99}, vxBox(other))
}

func vxSameState(a, b *vxState) bool {
	if len(a.keys) != len(b.keys) {
		return false
	}
	for i, k := range a.keys {
		j := b.find(k)
		if j < 0 || !bytes.Equal(a.vals[i], b.vals[j]) {
			return false
		}
	}
	return true
}

func VxMetadataWrite() {
	current := vxChoose("existing versions", 4)
	transactional := vxBool("transactional storage")
	b, store, pre := vxSetup(current, transactional)
	vxAddOtherKey()
	vxCfg = &Configuration{MetadataCasRequired: vxBool("mount metadata_cas_required")}
	if pre != nil {
		pre.MetadataCasRequired = vxBool("key metadata_cas_required")
		pre.CurrentMetadataVersion = 3
		pre.MaxVersions = 5
		pre.OldestVersion = 1
		vxE.committed.vals[vxE.committed.find("metadata/foo")] = vxBox(pre)
	}
	before := vxE.committed.clone()
	raw := map[string]any{"path": "foo"}
	setMax, setCas, setMCasReq, haveMCas := vxBool("max_versions supplied"), vxBool("cas_required supplied"), vxBool("metadata_cas_required supplied"), vxBool("metadata_cas supplied")
	maxv := vxInt("max_versions")
	vxAssume(maxv >= 0 && maxv <= vxParam("maxv"))
	if setMax {
		raw["max_versions"] = maxv
	}
	if setCas {
		raw["cas_required"] = true
	}
	if setMCasReq {
		raw["metadata_cas_required"] = true
	}
	mcas := vxInt("metadata_cas")
	vxAssume(mcas >= 0 && mcas <= 5)
	if haveMCas {
		raw["metadata_cas"] = mcas
	}
	fail := vxChoose("failing storage call (5 = none)", 6)
	if fail < 5 {
		vxE.failAt = fail
	}
	req := &logical.Request{Storage: store, Path: "metadata/foo", Operation: logical.UpdateOperation}
	resp, err := b.pathMetadataWrite()(context.Background(), req, &framework.FieldData{Raw: raw})
	vxAssert("key lock released on exit", vxHeld(vxE.lock) == 0)
	// whatever happened: no version record and nothing of the other key is ever touched by a metadata update
	for v := 1; v <= current; v++ {
		i := vxE.committed.find("versions/foo/" + strconv.Itoa(v))
		vxAssert("a metadata update never touches a version record", i >= 0 && len(vxE.committed.vals[i]) == 1 && vxE.committed.vals[i][0] == byte(v))
	}
	vxAssert("a metadata update never touches another key", vxE.committed.find("versions/bar/1") >= 0 && bytes.Equal(vxE.committed.vals[vxE.committed.find("metadata/bar")], before.vals[before.find("metadata/bar")]))
	accepted := err == nil && (resp == nil || !resp.IsError())
	nothing := !setMax && !setCas && !setMCasReq
	casNeeded := vxCfg.MetadataCasRequired || (pre != nil && pre.MetadataCasRequired)
	casOK := !haveMCas || (pre == nil && mcas == 0) || (pre != nil && uint64(mcas) == pre.CurrentMetadataVersion)
	if !accepted || nothing {
		vxReach("metadata update: refused, failed or empty")
		vxAssert("a refused, failed or empty metadata update leaves the committed state unchanged", vxSameState(before, vxE.committed) && vxSameState(vxE.committed, before))
		if err == nil && !nothing {
			vxAssert("a metadata update is refused only for a missing or mismatching metadata check-and-set", (casNeeded && !haveMCas) || !casOK)
		}
		return
	}
	vxReach("metadata update: accepted")
	vxAssert("an accepted update had its metadata check-and-set satisfied (exactly the current metadata version; 0 for a new key)", (!casNeeded || haveMCas) && casOK)
	m := vxMetaNow()
	vxAssert("metadata exists afterwards", m != nil && m.Key == "foo")
	if pre == nil {
		vxAssert("new metadata starts at metadata version 1 with no versions", m.CurrentMetadataVersion == 1 && len(m.Versions) == 0 && m.CurrentVersion == 0)
	} else {
		vxAssert("the metadata version counter advances by one", m.CurrentMetadataVersion == pre.CurrentMetadataVersion+1)
		vxAssert("the version list, current and oldest version are untouched by a metadata update", len(m.Versions) == current && m.CurrentVersion == pre.CurrentVersion && m.OldestVersion == pre.OldestVersion)
		for v := 1; v <= current; v++ {
			vm := m.Versions[uint64(v)]
			vxAssert("every version stays listed, undeleted and undestroyed", vm != nil && vm.DeletionTime == nil && !vm.Destroyed)
		}
	}
	wantMax, wantCas, wantMCas := uint32(0), false, false
	if pre != nil {
		wantMax, wantCas, wantMCas = pre.MaxVersions, pre.CasRequired, pre.MetadataCasRequired
	}
	if setMax {
		wantMax = uint32(maxv)
	}
	if setCas {
		wantCas = true
	}
	if setMCasReq {
		wantMCas = true
	}
	vxAssert("exactly the supplied settings change", m.MaxVersions == wantMax && m.CasRequired == wantCas && m.MetadataCasRequired == wantMCas)
}

func VxMetadataDelete() {
	current := 1 + vxChoose("existing versions", 3)
	transactional := vxBool("transactional storage")
	b, store, _ := vxSetup(current, transactional)
	vxAddOtherKey()
	vxCfg = &Configuration{}
	before := vxE.committed.clone()
	fail := vxChoose("failing storage call (8 = none)", 9)
	if fail < 8 {
		vxE.failAt = fail
	}
	req := &logical.Request{Storage: store, Path: "metadata/foo", Operation: logical.DeleteOperation}
	_, err := b.pathMetadataDelete()(context.Background(), req, &framework.FieldData{Raw: map[string]any{"path": "foo"}})
	vxAssert("key lock released on exit", vxHeld(vxE.lock) == 0)
	vxAssert("deleting a key's metadata never touches another key", vxE.committed.find("versions/bar/1") >= 0 && vxE.committed.find("metadata/bar") >= 0 && bytes.Equal(vxE.committed.vals[vxE.committed.find("metadata/bar")], before.vals[before.find("metadata/bar")]))
	if err == nil {
		vxReach("metadata delete: succeeded")
		vxAssert("only an undisturbed delete succeeds", fail == 8 || vxE.calls <= fail)
		vxAssert("the key's metadata is gone", vxE.committed.find("metadata/foo") < 0)
		for v := 1; v <= current; v++ {
			vxAssert("every version record of the key is gone", vxE.committed.find("versions/foo/"+strconv.Itoa(v)) < 0)
		}
		vxAssert("and nothing else", len(vxE.committed.keys) == 2)
		return
	}
	vxReach("metadata delete: failed")
	if transactional {
		vxAssert("a failed delete changes nothing on transactional storage", vxSameState(before, vxE.committed))
	} else {
		vxAssert("a failed delete on plain storage keeps the metadata, so a repeated delete still finds every version", vxE.committed.find("metadata/foo") >= 0)
	}
}
