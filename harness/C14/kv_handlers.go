package kv

// C14 — versioned KV write / delete handlers on a storage model with ONE injected failure at ANY storage call:
// a successful write gets version current+1, exact check-and-set, version record and metadata are written inside
// the key lock (and inside one committed transaction when storage is transactional); a failed write leaves the
// committed state unchanged (transactional) or the metadata unchanged (non-transactional); soft delete touches only
// the latest version's deletion time.
//
//vx:pkg github.com/openbao/openbao/v2/internal/builtin/logical/kv
//vx:bodies context,github.com/openbao/openbao/sdk/v2/helper/locksutil,github.com/openbao/openbao/sdk/v2/logical
//vx:redirect (*github.com/openbao/openbao/sdk/v2/framework.FieldData).GetOk vxGetOk
//vx:redirect (*github.com/openbao/openbao/sdk/v2/framework.FieldData).Get vxGet
//vx:redirect github.com/go-viper/mapstructure/v2.WeakDecode vxWeakDecode
//vx:redirect (*github.com/openbao/openbao/v2/internal/builtin/logical/kv.versionedKVBackend).config vxConfig
//vx:redirect (*github.com/openbao/openbao/v2/internal/builtin/logical/kv.versionedKVBackend).getKeyMetadata vxGetMeta
//vx:redirect (*github.com/openbao/openbao/v2/internal/builtin/logical/kv.versionedKVBackend).writeKeyMetadata vxWriteMeta
//vx:redirect (*github.com/openbao/openbao/v2/internal/builtin/logical/kv.versionedKVBackend).getVersionKey vxVersionKey
//vx:redirect (*github.com/openbao/openbao/v2/internal/builtin/logical/kv.Configuration).IsDeleteVersionAfterDisabled vxDVADisabled
//vx:redirect github.com/openbao/openbao/v2/internal/builtin/logical/kv.ptypesTimestampToString vxTsString
//vx:redirect encoding/json.Marshal vxJSONMarshal
//vx:redirect google.golang.org/protobuf/proto.Marshal vxProtoMarshal
//vx:redirect google.golang.org/protobuf/types/known/timestamppb.Now vxTsNow
//vx:redirect github.com/openbao/openbao/sdk/v2/helper/locksutil.LockIndexForKey vxLockIndex
//vx:redirect (*google.golang.org/protobuf/types/known/timestamppb.Timestamp).AsTime vxTsAsTime
//vx:redirect (*google.golang.org/protobuf/types/known/timestamppb.Timestamp).CheckValid vxTsCheckValid
//vx:unwind 400

import (
	"context"
	"strconv"
	"time"

	"github.com/openbao/openbao/sdk/v2/framework"
	"github.com/openbao/openbao/sdk/v2/helper/locksutil"
	"github.com/openbao/openbao/sdk/v2/logical"
	"google.golang.org/protobuf/proto"
	"google.golang.org/protobuf/types/known/timestamppb"
)

func vxGetOk(d *framework.FieldData, k string) (any, bool) { v, ok := d.Raw[k]; return v, ok }
func vxGet(d *framework.FieldData, k string) any {
	if v, ok := d.Raw[k]; ok {
		return v
	}
	return ""
}
func vxWeakDecode(in, out any) error {
	p, ok := out.(*int)
	if !ok {
		return vxErr("unsupported target")
	}
	x, ok := in.(int)
	if !ok {
		return vxErr("not a number")
	}
	*p = x
	return nil
}

var vxCfg *Configuration

func vxConfig(b *versionedKVBackend, ctx context.Context, s logical.Storage) (*Configuration, error) {
	c := *vxCfg
	return &c, nil
}
func vxDVADisabled(c *Configuration) bool            { return true } // delete_version_after: outside this claim
func vxTsString(t *timestamppb.Timestamp) string     { return "" }
func vxJSONMarshal(v any) ([]byte, error)            { return vxBox(v), nil }
func vxProtoMarshal(m proto.Message) ([]byte, error) { return vxBox(m), nil }
func vxTsNow() *timestamppb.Timestamp                { return &timestamppb.Timestamp{Seconds: 7} }
func vxLockIndex(key string) uint8                   { return 0 }
func vxTsCheckValid(t *timestamppb.Timestamp) error  { return nil }
func vxTsAsTime(t *timestamppb.Timestamp) time.Time  { return time.Time{} }

func vxVersionKey(b *versionedKVBackend, ctx context.Context, key string, version uint64, s logical.Storage) (string, error) {
	return "versions/" + key + "/" + strconv.Itoa(int(version)), nil
}

func vxGetMeta(b *versionedKVBackend, ctx context.Context, s logical.Storage, key string) (*KeyMetadata, error) {
	item, err := s.Get(ctx, "metadata/"+key)
	if err != nil || item == nil {
		return nil, err
	}
	m := &KeyMetadata{}
	if !vxUnbox(item.Value, m) {
		return nil, vxErr("failed to decode key metadata from storage")
	}
	return m, nil
}

func vxWriteMeta(b *versionedKVBackend, ctx context.Context, s logical.Storage, meta *KeyMetadata) error {
	return s.Put(ctx, &logical.StorageEntry{Key: "metadata/" + meta.Key, Value: vxBox(meta)})
}

// ---- storage model: committed state + optional transactions, fault injection, lock discipline assertions ----

type vxState struct {
	keys []string
	vals [][]byte
}

func (s *vxState) find(k string) int {
	for i := range s.keys {
		if s.keys[i] == k {
			return i
		}
	}
	return -1
}
func (s *vxState) clone() *vxState {
	return &vxState{keys: append([]string(nil), s.keys...), vals: append([][]byte(nil), s.vals...)}
}

type vxEnv struct {
	committed *vxState
	calls     int
	failAt    int
	lock      *locksutil.LockEntry
	commits   int
	txOpen    int
	reading   bool
}

var vxE *vxEnv

type vxStore struct {
	st *vxState
	tx bool
}

func (m *vxStore) step(op string) error {
	if vxE.reading {
		// a read holds the key's lock shared; its (read-only) transaction may be opened before the lock is taken
		if op != "begin" {
			vxAssert("a read touches storage only while the key's lock is held", vxHeld(vxE.lock) >= 1)
		}
	} else {
		vxAssert("storage is only touched while the key's lock is held", vxHeldW(vxE.lock))
	}
	vxE.calls++
	if vxE.failAt >= 0 && vxE.calls-1 == vxE.failAt {
		return vxErr("injected storage failure")
	}
	return nil
}
func (m *vxStore) Get(ctx context.Context, k string) (*logical.StorageEntry, error) {
	if err := m.step("get"); err != nil {
		return nil, err
	}
	if i := m.st.find(k); i >= 0 {
		return &logical.StorageEntry{Key: k, Value: m.st.vals[i]}, nil
	}
	return nil, nil
}
func (m *vxStore) Put(ctx context.Context, e *logical.StorageEntry) error {
	if err := m.step("put"); err != nil {
		return err
	}
	if i := m.st.find(e.Key); i >= 0 {
		m.st.vals[i] = e.Value
		return nil
	}
	m.st.keys, m.st.vals = append(m.st.keys, e.Key), append(m.st.vals, e.Value)
	return nil
}
func (m *vxStore) Delete(ctx context.Context, k string) error {
	if err := m.step("delete"); err != nil {
		return err
	}
	if i := m.st.find(k); i >= 0 {
		m.st.keys = append(m.st.keys[:i:i], m.st.keys[i+1:]...)
		m.st.vals = append(m.st.vals[:i:i], m.st.vals[i+1:]...)
	}
	return nil
}
func (m *vxStore) List(ctx context.Context, p string) ([]string, error) { return nil, m.step("list") }
func (m *vxStore) ListPage(ctx context.Context, p, a string, l int) ([]string, error) {
	return nil, m.step("listpage")
}

// transactional flavour
type vxTxStore struct{ vxStore }
type vxTxn struct {
	vxStore
	done bool
}

func (m *vxTxStore) BeginTx(ctx context.Context) (logical.Transaction, error) {
	if err := m.step("begin"); err != nil {
		return nil, err
	}
	vxE.txOpen++
	return &vxTxn{vxStore: vxStore{st: m.st.clone(), tx: true}}, nil
}
func (m *vxTxStore) BeginReadOnlyTx(ctx context.Context) (logical.Transaction, error) {
	return m.BeginTx(ctx)
}
func (t *vxTxn) Commit(ctx context.Context) error {
	if t.done {
		return vxErr("transaction already finished")
	}
	if err := t.step("commit"); err != nil {
		return err
	}
	t.done = true
	vxE.commits++
	vxE.committed.keys, vxE.committed.vals = t.st.keys, t.st.vals
	return nil
}
func (t *vxTxn) Rollback(ctx context.Context) error { t.done = true; return nil }

// ---- scenario ----

func vxSetup(current int, transactional bool) (*versionedKVBackend, logical.Storage, *KeyMetadata) {
	b := &versionedKVBackend{locks: locksutil.CreateLocks()}
	vxE = &vxEnv{committed: &vxState{}, failAt: -1, lock: b.locks[0]}
	var meta *KeyMetadata
	if current > 0 {
		meta = &KeyMetadata{Key: "foo", Versions: map[uint64]*VersionMetadata{}, CurrentVersion: uint64(current), CasRequired: vxBool("key cas_required")}
		for v := 1; v <= current; v++ {
			meta.Versions[uint64(v)] = &VersionMetadata{}
			vxE.committed.keys = append(vxE.committed.keys, "versions/foo/"+strconv.Itoa(v))
			vxE.committed.vals = append(vxE.committed.vals, []byte{byte(v)})
		}
		vxE.committed.keys = append(vxE.committed.keys, "metadata/foo")
		vxE.committed.vals = append(vxE.committed.vals, vxBox(meta))
	}
	if transactional {
		return b, &vxTxStore{vxStore{st: vxE.committed}}, meta
	}
	return b, &vxStore{st: vxE.committed}, meta
}

func vxMetaNow() *KeyMetadata {
	i := vxE.committed.find("metadata/foo")
	if i < 0 {
		return nil
	}
	m := &KeyMetadata{}
	vxAssert("stored metadata decodes", vxUnbox(vxE.committed.vals[i], m))
	return m
}

func VxDataWrite() {
	current := vxChoose("existing versions", 3)
	transactional := vxBool("transactional storage")
	b, store, pre := vxSetup(current, transactional)
	vxCfg = &Configuration{CasRequired: vxBool("mount cas_required"), MaxVersions: uint32(vxChoose("mount max_versions", 3))}
	raw := map[string]any{"path": "foo", "data": map[string]any{"k": "v"}}
	hasCas := vxBool("cas supplied")
	cas := vxInt("cas")
	if hasCas {
		raw["options"] = map[string]any{"cas": cas}
	}
	before := vxE.committed.clone()
	fail := vxChoose("failing storage call (9 = none)", 10)
	if fail < 9 {
		vxE.failAt = fail
	}
	req := &logical.Request{Storage: store, Path: "data/foo"}
	resp, err := b.pathDataWrite()(context.Background(), req, &framework.FieldData{Raw: raw})
	vxAssert("key lock released on exit", vxHeld(vxE.lock) == 0)
	casRequired := vxCfg.CasRequired || (pre != nil && pre.CasRequired)
	casOK := (hasCas && uint64(cas) == uint64(current)) || (!hasCas && !casRequired)
	ok := err == nil && resp != nil && !resp.IsError()
	if ok {
		vxReach("write: succeeded")
		vxAssert("a write succeeds only when check-and-set is satisfied", casOK)
		vxAssert("successful write reports version current+1", resp.Data["version"] == uint64(current+1))
		m := vxMetaNow()
		vxAssert("metadata advanced by exactly one version", m != nil && m.CurrentVersion == uint64(current+1) && m.Versions[uint64(current+1)] != nil)
		vxAssert("the version record exists", vxE.committed.find("versions/foo/"+strconv.Itoa(current+1)) >= 0)
		if transactional {
			vxAssert("transactional storage: exactly one committed transaction", vxE.commits == 1 && vxE.txOpen == 1)
		}
		return
	}
	vxReach("write: refused or failed")
	if !casOK && (fail == 9 || vxE.calls <= fail) {
		vxReach("write: cas mismatch")
	}
	if casOK && fail == 9 {
		vxAssert("without a storage failure a cas-satisfying write succeeds", false)
	}
	// failed write: observable state unchanged
	m := vxMetaNow()
	if pre == nil {
		vxAssert("failed write leaves no metadata behind", m == nil)
	} else {
		vxAssert("failed write leaves the current version unchanged", m != nil && m.CurrentVersion == pre.CurrentVersion && len(m.Versions) == len(pre.Versions))
	}
	if m != nil {
		// also on plain storage: whatever the (unchanged) metadata lists as a live version must still be readable
		for v := 1; v <= current; v++ {
			if m.Versions[uint64(v)] != nil {
				vxAssert("after a failed write every version the metadata lists still has its data", vxE.committed.find("versions/foo/"+strconv.Itoa(v)) >= 0)
			}
		}
	}
	if transactional {
		vxAssert("transactional storage: a failed write commits nothing", vxE.commits == 0)
		same := len(before.keys) == len(vxE.committed.keys)
		for i := range before.keys {
			same = same && i < len(vxE.committed.keys) && before.keys[i] == vxE.committed.keys[i] && string(before.vals[i]) == string(vxE.committed.vals[i])
		}
		vxAssert("transactional storage: committed state is untouched by a failed write", same)
	}
}

func VxDataDelete() {
	current := 1 + vxChoose("existing versions", 2)
	transactional := vxBool("transactional storage")
	b, store, pre := vxSetup(current, transactional)
	vxCfg = &Configuration{}
	fail := vxChoose("failing storage call (6 = none)", 7)
	if fail < 6 {
		vxE.failAt = fail
	}
	req := &logical.Request{Storage: store, Path: "data/foo"}
	_, err := b.pathDataDelete()(context.Background(), req, &framework.FieldData{Raw: map[string]any{"path": "foo"}})
	vxAssert("key lock released on exit", vxHeld(vxE.lock) == 0)
	m := vxMetaNow()
	vxAssert("metadata still present", m != nil && m.CurrentVersion == pre.CurrentVersion)
	for v := 1; v <= current; v++ {
		vm := m.Versions[uint64(v)]
		vxAssert("every version is still listed", vm != nil)
		if v < current {
			vxAssert("soft delete touches only the latest version", vm.DeletionTime == nil && !vm.Destroyed)
		}
		vxAssert("version records are untouched by a soft delete", vxE.committed.find("versions/foo/"+strconv.Itoa(v)) >= 0)
	}
	if err == nil && fail == 6 {
		vxReach("delete: succeeded")
		vxAssert("latest version is marked deleted", m.Versions[uint64(current)].DeletionTime != nil)
	}
	if err != nil {
		vxReach("delete: failed")
		vxAssert("failed delete leaves the latest version undeleted", m.Versions[uint64(current)].DeletionTime == nil)
	}
}

// ---- delete-versions / undelete / destroy: touch only the versions named; a failure leaves the readable state intact

type vxVerState struct {
	deleted, destroyed, hasData bool
}

func vxVersions(current int) []vxVerState {
	m := vxMetaNow()
	out := make([]vxVerState, current+1)
	for v := 1; v <= current; v++ {
		vm := m.Versions[uint64(v)]
		if vm != nil {
			out[v] = vxVerState{deleted: vm.DeletionTime != nil, destroyed: vm.Destroyed}
		}
		out[v].hasData = vxE.committed.find("versions/foo/"+strconv.Itoa(v)) >= 0
	}
	return out
}

func VxVersionOps() {
	current := 3
	transactional := vxBool("transactional storage")
	b, store, pre := vxSetup(current, transactional)
	vxCfg = &Configuration{}
	// arbitrary prior state of the three versions
	m := vxMetaNow()
	for v := 1; v <= current; v++ {
		switch vxChoose("prior state of a version(live,deleted,destroyed)", 3) {
		case 1:
			m.Versions[uint64(v)].DeletionTime = vxTsNow()
		case 2:
			m.Versions[uint64(v)].Destroyed = true
			i := vxE.committed.find("versions/foo/" + strconv.Itoa(v))
			vxE.committed.keys = append(vxE.committed.keys[:i:i], vxE.committed.keys[i+1:]...)
			vxE.committed.vals = append(vxE.committed.vals[:i:i], vxE.committed.vals[i+1:]...)
		}
	}
	vxE.committed.vals[vxE.committed.find("metadata/foo")] = vxBox(m)
	_ = pre
	before := vxVersions(current)
	// the versions named by the request: any non-empty subset of {1,2,3} (plus a non-existent one)
	var named []int
	isNamed := make([]bool, current+2)
	for v := 1; v <= current+1; v++ {
		if vxBool("request names version") {
			named = append(named, v)
			isNamed[v] = true
		}
	}
	if len(named) == 0 {
		return
	}
	op := vxChoose("operation(delete versions, undelete, destroy)", 3)
	fail := vxChoose("failing storage call (8 = none)", 9)
	if fail < 8 {
		vxE.failAt = fail
	}
	req := &logical.Request{Storage: store, Path: "x/foo"}
	fd := &framework.FieldData{Raw: map[string]any{"path": "foo", "versions": named}}
	var err error
	switch op {
	case 0:
		_, err = b.pathDeleteWrite()(context.Background(), req, fd)
	case 1:
		_, err = b.pathUndeleteWrite()(context.Background(), req, fd)
	default:
		_, err = b.pathDestroyWrite()(context.Background(), req, fd)
	}
	vxAssert("key lock released on exit", vxHeld(vxE.lock) == 0)
	after := vxVersions(current)
	mm := vxMetaNow()
	vxAssert("the current version number is never changed by these operations", mm != nil && mm.CurrentVersion == uint64(current) && len(mm.Versions) == current)
	failed := err != nil
	for v := 1; v <= current; v++ {
		a, bf := after[v], before[v]
		if !isNamed[v] {
			vxAssert("versions not named by the request are untouched", a == bf)
			continue
		}
		vxAssert("a destroyed version is never resurrected", !bf.destroyed || (a.destroyed && !a.hasData))
		vxAssert("a live version that is still listed as live keeps its data", !(!a.destroyed && !a.hasData))
		if failed {
			if transactional {
				vxAssert("transactional storage: a failed operation changes nothing", a == bf)
			}
			continue
		}
		switch op {
		case 0:
			vxReach("versions: deleted")
			vxAssert("delete marks a live version deleted and keeps its data (soft delete)", bf.destroyed || (a.deleted && a.hasData && !a.destroyed))
		case 1:
			vxReach("versions: undeleted")
			vxAssert("undelete clears the deletion mark of a non-destroyed version", bf.destroyed || (!a.deleted && a.hasData))
		default:
			vxReach("versions: destroyed")
			vxAssert("destroy removes the data and marks the version destroyed", a.destroyed && !a.hasData)
		}
	}
}
