package kv

// C14 — the patch handler is a read-modify-write of the CURRENT version under exact check-and-set: the real
// pathDataPatch on the storage model with ONE injected failure at ANY storage call, for 0..2 existing versions whose
// latest is live, soft-deleted or destroyed, with / without cas (ALL cas values), cas_required on mount or key, plain
// and transactional storage: a patch succeeds only when check-and-set is satisfied and the current version is live;
// it then creates exactly version current+1 whose data is the merge of the CURRENT version's data (not an older
// one's) with exactly the supplied patch, inside the key lock and one committed transaction; a missing key, a deleted
// or destroyed current version, a cas mismatch or a storage failure leave the register unchanged.
//
//vx:pkg github.com/openbao/openbao/v2/internal/builtin/logical/kv
//vx:include kv_handlers.go
//vx:assume (this file) the JSON merge itself (framework.HandlePatchOperation) is replaced by a stub that names its inputs - which base document and which patch reach it is what is decided; version records and their JSON payload are boxes; a soft-deleted version's deletion time lies in the past
//vx:redirect google.golang.org/protobuf/proto.Unmarshal vxProtoUnmarshal
//vx:redirect encoding/json.Unmarshal vxJSONUnmarshal
//vx:redirect github.com/openbao/openbao/sdk/v2/framework.HandlePatchOperation vxHandlePatch
//vx:redirect github.com/openbao/openbao/sdk/v2/logical.RespondWithStatusCode vxRespondStatus

import (
	"context"
	"strconv"
	"time"

	"github.com/openbao/openbao/sdk/v2/framework"
	"github.com/openbao/openbao/sdk/v2/logical"
	"google.golang.org/protobuf/proto"
	"google.golang.org/protobuf/types/known/timestamppb"
)

func vxProtoUnmarshal(b []byte, m proto.Message) error {
	if !vxUnbox(b, m) {
		return vxErr("proto: cannot parse invalid wire-format data")
	}
	return nil
}
func vxJSONUnmarshal(data []byte, v any) error {
	if !vxUnbox(data, v) {
		return vxErr("invalid JSON")
	}
	return nil
}

type vxPatchDoc struct {
	Base  map[string]any
	Patch any
}

func vxHandlePatch(input *framework.FieldData, resource map[string]any, pre framework.PatchPreprocessorFunc) ([]byte, error) {
	if resource == nil {
		return nil, vxErr("resource does not exist")
	}
	return vxBox(vxPatchDoc{Base: resource, Patch: input.Raw["data"]}), nil
}

var vxPStatus int

func vxRespondStatus(resp *logical.Response, req *logical.Request, code int) (*logical.Response, error) {
	vxPStatus = code
	if resp == nil {
		resp = &logical.Response{}
	}
	return resp, nil
}

func VxDataPatch() {
	vxPStatus = 0
	vxAssume(vxTimeLT(time.Time{}, time.Now())) // deletion times (model: the zero instant) lie in the past
	current := vxChoose("existing versions", 3)
	transactional := vxBool("transactional storage")
	b, store, pre := vxSetup(current, transactional)
	// real version records: version v holds the document {"doc": v}
	for v := 1; v <= current; v++ {
		i := vxE.committed.find("versions/foo/" + strconv.Itoa(v))
		vxE.committed.vals[i] = vxBox(Version{Data: vxBox(map[string]any{"doc": v})})
	}
	state := 0
	if current > 0 {
		state = vxChoose("latest version is (live, soft-deleted, destroyed)", 3)
		switch state {
		case 1:
			pre.Versions[uint64(current)].DeletionTime = &timestamppb.Timestamp{Seconds: 1}
		case 2:
			pre.Versions[uint64(current)].Destroyed = true
		}
		vxE.committed.vals[vxE.committed.find("metadata/foo")] = vxBox(pre)
	}
	vxCfg = &Configuration{CasRequired: vxBool("mount cas_required"), MaxVersions: uint32(vxChoose("mount max_versions", 3))}
	raw := map[string]any{"path": "foo", "data": map[string]any{"k": "patched"}}
	hasCas := vxBool("cas supplied")
	cas := vxInt("cas")
	if hasCas {
		raw["options"] = map[string]any{"cas": cas}
	}
	before := vxE.committed.clone()
	fail := vxChoose("failing storage call (9 = none)", 10)
	if fail < 9 {
		vxE.failAt = fail
	}
	req := &logical.Request{Storage: store, Path: "data/foo", Operation: logical.PatchOperation}
	resp, err := b.pathDataPatch()(context.Background(), req, &framework.FieldData{Raw: raw})
	vxAssert("key lock released on exit", vxHeld(vxE.lock) == 0)
	casRequired := vxCfg.CasRequired || (pre != nil && pre.CasRequired)
	casOK := (hasCas && uint64(cas) == uint64(current)) || (!hasCas && !casRequired)
	ok := err == nil && resp != nil && !resp.IsError() && vxPStatus == 0
	if ok {
		vxReach("patch: succeeded")
		vxAssert("a patch succeeds only on an existing key whose current version is live", current > 0 && state == 0)
		vxAssert("a patch succeeds only when check-and-set is satisfied", casOK)
		vxAssert("successful patch reports version current+1", resp.Data["version"] == uint64(current+1))
		m := vxMetaNow()
		vxAssert("metadata advanced by exactly one version", m != nil && m.CurrentVersion == uint64(current+1) && m.Versions[uint64(current+1)] != nil)
		i := vxE.committed.find("versions/foo/" + strconv.Itoa(current+1))
		vxAssert("the new version record exists", i >= 0)
		if i >= 0 {
			nv := &Version{}
			vxAssert("the new version record decodes", vxUnbox(vxE.committed.vals[i], nv))
			doc := &vxPatchDoc{}
			vxAssert("its payload is the merge result", vxUnbox(nv.Data, doc))
			vxAssert("the merge was applied to the CURRENT version's document", doc.Base != nil && doc.Base["doc"] == current)
			pm, _ := doc.Patch.(map[string]any)
			vxAssert("with exactly the supplied patch", pm != nil && pm["k"] == "patched" && len(pm) == 1)
		}
		if transactional {
			vxAssert("transactional storage: exactly one committed transaction", vxE.commits == 1 && vxE.txOpen == 1)
		}
		return
	}
	vxReach("patch: refused or failed")
	if current > 0 && state == 0 && casOK && fail == 9 {
		vxAssert("without a storage failure a cas-satisfying patch of a live version succeeds", false)
	}
	if fail == 9 && err == nil {
		if current == 0 || state != 0 {
			vxReach("patch: not found")
			vxAssert("patching a missing key or a deleted / destroyed version answers 404", vxPStatus == 404 || (resp != nil && resp.IsError()))
		}
	}
	m := vxMetaNow()
	if pre == nil {
		vxAssert("failed patch leaves no metadata behind", m == nil)
	} else {
		vxAssert("failed patch leaves the current version unchanged", m != nil && m.CurrentVersion == pre.CurrentVersion && len(m.Versions) == len(pre.Versions))
		for v := 1; v <= current; v++ {
			vxAssert("after a failed patch every earlier version record is still there", vxE.committed.find("versions/foo/"+strconv.Itoa(v)) >= 0)
		}
	}
	if transactional {
		vxAssert("transactional storage: a failed patch commits nothing", vxE.commits == 0)
		same := len(before.keys) == len(vxE.committed.keys)
		for i := range before.keys {
			same = same && i < len(vxE.committed.keys) && before.keys[i] == vxE.committed.keys[i] && string(before.vals[i]) == string(vxE.committed.vals[i])
		}
		vxAssert("transactional storage: committed state is untouched by a failed patch", same)
	}
}

// reads return exactly the requested version of the register: the real pathDataRead for 0..3 existing versions each
// live, soft-deleted or destroyed, ANY requested version number (0 = current), plain and transactional storage:
// the data returned is that of exactly the version asked for (never another version's), deleted / destroyed versions
// and unknown version numbers yield no data, and a read writes nothing.
func VxDataRead() {
	vxPStatus = 0
	vxAssume(vxTimeLT(time.Time{}, time.Now()))
	current := vxChoose("existing versions", 4)
	transactional := vxBool("transactional storage")
	b, store, pre := vxSetup(current, transactional)
	states := make([]int, current+1)
	for v := 1; v <= current; v++ {
		i := vxE.committed.find("versions/foo/" + strconv.Itoa(v))
		vxE.committed.vals[i] = vxBox(Version{Data: vxBox(map[string]any{"doc": v})})
		states[v] = vxChoose("version state (live, soft-deleted, destroyed)", 3)
		switch states[v] {
		case 1:
			pre.Versions[uint64(v)].DeletionTime = &timestamppb.Timestamp{Seconds: 1}
		case 2:
			pre.Versions[uint64(v)].Destroyed = true
		}
	}
	if current > 0 {
		vxE.committed.vals[vxE.committed.find("metadata/foo")] = vxBox(pre)
	}
	before := vxE.committed.clone()
	want := vxInt("requested version")
	vxE.reading = true
	req := &logical.Request{Storage: store, Path: "data/foo", Operation: logical.ReadOperation}
	resp, err := b.pathDataRead()(context.Background(), req, &framework.FieldData{Raw: map[string]any{"path": "foo", "version": want}})
	vxAssert("key lock released on exit", vxHeld(vxE.lock) == 0)
	vxAssert("a read succeeds or answers not-found", err == nil)
	same := len(before.keys) == len(vxE.committed.keys) && vxE.commits == 0
	for i := range before.keys {
		same = same && before.keys[i] == vxE.committed.keys[i] && string(before.vals[i]) == string(vxE.committed.vals[i])
	}
	vxAssert("a read writes nothing", same)
	eff := want
	if want <= 0 {
		eff = current
	}
	var got map[string]any
	if resp != nil && vxPStatus == 0 && resp.Data != nil {
		got, _ = resp.Data["data"].(map[string]any)
	}
	if eff >= 1 && eff <= current && states[vxConc(eff)] == 0 {
		vxReach("read: live version")
		vxAssert("a live version is returned, and it is exactly the version asked for", got != nil && got["doc"] == eff)
		md, _ := resp.Data["metadata"].(map[string]any)
		vxAssert("the metadata names that version", md != nil && md["version"] == uint64(eff))
	} else {
		vxReach("read: nothing to return")
		vxAssert("unknown, soft-deleted and destroyed versions yield no data", got == nil)
	}
}
