package pki

// C15 — name authorisation: validateNames / validateCommonName / validateOtherSANs (real code, real go-glob, real
// strings) against an oracle written on DNS labels, for ALL names over a stated alphabet up to a stated length and
// all role switch combinations of a role with one allowed domain.
//
// Replaced by models (assumptions): regexp (hostnameRegex / leftWildLabelRegex -> a hand-written recogniser of the
// same two regular languages), idna.ToASCII (identity: names are ASCII), identity templating (off).
//
//vx:pkg github.com/openbao/openbao/v2/internal/builtin/logical/pki
//vx:assume regexp is replaced by hand-written recognisers of hostnameRegex and leftWildLabelRegex; idna.ToASCII is the identity on ASCII names and refuses empty labels
//vx:assume names range over ALL strings over the alphabet {a,e,c,E,'.','*','@','-'} up to the length bound; the role has one allowed domain ('e' in quick, 'e.c' in thorough), optionally as the glob '*.<domain>'
//vx:assume callers never pass an empty name (an empty return value means 'accepted')
//vx:bodies github.com/ryanuber/go-glob,unicode,github.com/hashicorp/go-secure-stdlib/strutil
//vx:include lifetime.go
//vx:redirect regexp.MustCompile vxMustCompile
//vx:redirect (*regexp.Regexp).MatchString vxMatchString
//vx:redirect golang.org/x/net/idna.New vxIdnaNew
//vx:redirect (*golang.org/x/net/idna.Profile).ToASCII vxToASCII
//vx:noop golang.org/x/net/idna.StrictDomainName
//vx:noop golang.org/x/net/idna.VerifyDNSLength
//vx:param namelen quick=4 thorough=5
//vx:param cnlen quick=4 thorough=5
//vx:param twolabel quick=0 thorough=1
//vx:unwind 64

import (
	"crypto/x509"
	"regexp"
	"time"

	"github.com/openbao/openbao/sdk/v2/helper/certutil"

	"github.com/openbao/openbao/sdk/v2/framework"
	"github.com/openbao/openbao/sdk/v2/logical"
	"golang.org/x/net/idna"
)

type vxRe struct {
	re  *regexp.Regexp
	pat string
}

var vxRes []vxRe

func vxMustCompile(p string) *regexp.Regexp {
	r := new(regexp.Regexp)
	vxRes = append(vxRes, vxRe{r, p})
	return r
}

func vxMatchString(re *regexp.Regexp, s string) bool {
	switch re {
	case hostnameRegex:
		return vxIsHostname(s)
	case leftWildLabelRegex:
		return vxIsWildLabel(s)
	}
	panic("vx: regexp not modelled")
}

func vxIdnaNew(o ...idna.Option) *idna.Profile { return &idna.Profile{} }

// ASCII names convert to themselves; VerifyDNSLength rejects empty labels (other than a trailing root label) and
// labels longer than 63 bytes (unreachable within the length bound)
func vxToASCII(p *idna.Profile, s string) (string, error) {
	labs := vxLabels(s)
	for i, l := range labs {
		if l == "" && !(i == len(labs)-1 && len(labs) > 1) {
			return s, vxErr("idna: invalid label")
		}
	}
	return s, nil
}

// ---- label-level vocabulary ----

func vxLabels(s string) []string {
	var out []string
	start := 0
	for i := 0; i < len(s); i++ {
		if s[i] == '.' {
			out = append(out, s[start:i])
			start = i + 1
		}
	}
	return append(out, s[start:])
}

func vxAlnum(c byte) bool {
	return (c >= 'a' && c <= 'z') || (c >= 'A' && c <= 'Z') || (c >= '0' && c <= '9')
}

// one DNS label: letters, digits, inner hyphens
func vxIsLabel(l string) bool {
	if len(l) == 0 || !vxAlnum(l[0]) || !vxAlnum(l[len(l)-1]) {
		return false
	}
	for i := 0; i < len(l); i++ {
		if !vxAlnum(l[i]) && l[i] != '-' {
			return false
		}
	}
	return true
}

// ^(\*\.)?(label\.)*label\.?$
func vxIsHostname(s string) bool {
	labs := vxLabels(s)
	if len(labs) > 1 && labs[0] == "*" {
		labs = labs[1:]
	}
	if len(labs) > 1 && labs[len(labs)-1] == "" {
		labs = labs[:len(labs)-1]
	}
	for _, l := range labs {
		if !vxIsLabel(l) {
			return false
		}
	}
	return true
}

// ^(\*|\*label|label\*|label\*label)$
func vxIsWildLabel(l string) bool {
	star := -1
	for i := 0; i < len(l); i++ {
		if l[i] == '*' {
			if star >= 0 {
				return false
			}
			star = i
		}
	}
	if star < 0 {
		return false
	}
	left, right := l[:star], l[star+1:]
	return (left == "" || vxIsLabel(left)) && (right == "" || vxIsLabel(right))
}

func vxLower(c byte) byte {
	if c >= 'A' && c <= 'Z' {
		return c + 32
	}
	return c
}

func vxEqFold(a, b string) bool {
	if len(a) != len(b) {
		return false
	}
	for i := 0; i < len(a); i++ {
		if vxLower(a[i]) != vxLower(b[i]) {
			return false
		}
	}
	return true
}

func vxCount(s string, c byte) int {
	n := 0
	for i := 0; i < len(s); i++ {
		if s[i] == c {
			n++
		}
	}
	return n
}

func vxJoin(labs []string) string {
	s := ""
	for i, l := range labs {
		if i > 0 {
			s += "."
		}
		s += l
	}
	return s
}

// labels of `name` end with the labels of `dom` and there is at least one more label in front (case-sensitive, as
// documented for allow_subdomains)
func vxIsSubdomain(name, dom string) bool {
	n, d := vxLabels(name), vxLabels(dom)
	if len(n) <= len(d) {
		return false
	}
	for i := range d {
		if n[len(n)-len(d)+i] != d[i] {
			return false
		}
	}
	return true
}

// the role's single allowed domain: "e" (quick) or "e.c" (thorough)
var vxDomain = "e"

func vxSetDomain() {
	if vxParam("twolabel") == 1 {
		vxDomain = "e.c"
	}
}

type vxRole struct {
	bare, sub, globs, anyName, localhost, enforce bool
	wildcards                                      int // 0 unset, 1 allowed, 2 forbidden
	globDomain                                     bool
}

// The oracle: is `name` (a DNS name, wildcard name or e-mail address) permitted by a role whose only allowed domain
// is vxDomain (or the glob "*."+domain when globDomain), given the switches? Written from the role documentation
// (allow_bare_domains, allow_subdomains, allow_glob_domains, allow_wildcard_certificates, allow_localhost,
// allow_any_name, enforce_hostnames).
func vxPermitted(r vxRole, name string) bool {
	dom := name
	isEmail := false
	if vxCount(name, '@') > 0 {
		if vxCount(name, '@') != 1 {
			return false
		}
		for i := 0; i < len(name); i++ {
			if name[i] == '@' {
				dom = name[i+1:]
			}
		}
		isEmail = true
	}
	labs := vxLabels(dom)
	reduced := dom
	wild := vxCount(dom, '*') > 0
	wildLabel := ""
	if wild {
		if r.wildcards == 2 {
			return false
		}
		// exactly one '*', in the left-most label
		if vxCount(dom, '*') != 1 || vxCount(labs[0], '*') != 1 {
			return false
		}
		if isEmail {
			return false
		}
		wildLabel = labs[0]
		reduced = vxJoin(labs[1:])
	}
	if r.enforce {
		if reduced != "" {
			if _, err := vxToASCII(nil, reduced); err != nil || !vxIsHostname(reduced) {
				return false
			}
		}
		if wild && !vxIsWildLabel(wildLabel) {
			return false
		}
	}
	if r.anyName {
		return true
	}
	if r.localhost {
		if reduced == "localhost" || reduced == "localdomain" {
			return true
		}
		if r.sub && (vxIsSubdomain(reduced, "localhost") || vxIsSubdomain(reduced, "localdomain")) {
			return true
		}
	}
	allowed := vxDomain
	if r.globDomain {
		allowed = "*." + vxDomain
	}
	if r.bare && (vxEqFold(name, allowed) || (isEmail && vxEqFold(dom, allowed))) {
		return true
	}
	if r.sub && (vxIsSubdomain(reduced, allowed) || (wild && vxEqFold(reduced, allowed))) {
		return true
	}
	if r.globs && r.globDomain {
		// "*.<domain>" as a glob over the whole requested name: any prefix, then ".<domain>"
		suf := "." + vxDomain
		if len(name) >= len(suf) && name[len(name)-len(suf):] == suf {
			return true
		}
	}
	return false
}

func vxRoleEntry(r vxRole) *roleEntry {
	e := &roleEntry{
		AllowBareDomains: r.bare, AllowSubdomains: r.sub, AllowGlobDomains: r.globs, AllowAnyName: r.anyName,
		AllowLocalhost: r.localhost, EnforceHostnames: r.enforce, AllowedDomains: []string{vxDomain},
	}
	if r.globDomain {
		e.AllowedDomains = []string{"*." + vxDomain}
	}
	switch r.wildcards {
	case 1:
		t := true
		e.AllowWildcardCertificates = &t
	case 2:
		f := false
		e.AllowWildcardCertificates = &f
	}
	return e
}

// alphabet: a (foreign label), e / c (the allowed domain's labels), E (case), '.', '*', '@', '-'

// a name over the alphabet, any length up to the bound
func vxName(tag string, max int) string {
	n := 1 + vxChoose(tag+" length", max) // callers never pass empty names (an empty return value means "all fine")
	b := vxBytes(tag, n)
	for i := range b {
		c := b[i]
		vxAssume(c == 'a' || c == 'e' || c == 'c' || c == 'E' || c == '.' || c == '*' || c == '@' || c == '-')
	}
	return string(b)
}

func vxSymRole() vxRole {
	return vxRole{
		bare: vxBool("allow_bare_domains"), sub: vxBool("allow_subdomains"), globs: vxBool("allow_glob_domains"),
		anyName: vxBool("allow_any_name"), localhost: vxBool("allow_localhost"), enforce: vxBool("enforce_hostnames"),
		wildcards: vxChoose("allow_wildcard_certificates(unset,true,false)", 3), globDomain: vxBool("allowed domain is a glob"),
	}
}

// validateNames accepts a name iff the role permits it (label-level oracle), for every name over the alphabet.
func VxValidateNames() {
	vxSetDomain()
	r := vxSymRole()
	name := vxName("name", vxParam("namelen"))
	b := &backend{Backend: &framework.Backend{}}
	data := &inputBundle{role: vxRoleEntry(r), req: &logical.Request{}, apiData: &framework.FieldData{Raw: map[string]any{}}}
	bad := validateNames(b, data, []string{name})
	want := vxPermitted(r, name)
	if bad == "" {
		vxReach("names: accepted")
		vxAssert("an accepted name is one the role permits", want)
	} else {
		vxReach("names: refused")
		vxAssert("a refused name is one the role does not permit", !want)
		vxAssert("the offending name is reported", bad == name)
	}
}

// several names: all are checked, the first offender is reported (no name rides on an earlier accepted one)
func VxValidateNamesList() {
	vxSetDomain()
	r := vxSymRole()
	vxAssume(!r.enforce && !r.localhost && !r.globDomain && r.wildcards == 0)
	firsts := []string{vxDomain, "a." + vxDomain, "a", "*." + vxDomain}
	n1 := firsts[vxChoose("first name", len(firsts))]
	n2 := vxName("second", vxParam("namelen")-1)
	b := &backend{Backend: &framework.Backend{}}
	data := &inputBundle{role: vxRoleEntry(r), req: &logical.Request{}, apiData: &framework.FieldData{Raw: map[string]any{}}}
	bad := validateNames(b, data, []string{n1, n2})
	ok1, ok2 := vxPermitted(r, n1), vxPermitted(r, n2)
	if bad == "" {
		vxReach("names list: accepted")
		vxAssert("a list is accepted only if every name is permitted", ok1 && ok2)
	} else {
		vxReach("names list: refused")
		vxAssert("a list is refused only if some name is not permitted", !ok1 || !ok2)
	}
}

// validateCommonName: cn_validations gate on top of validateNames
func VxValidateCommonName() {
	vxSetDomain()
	r := vxSymRole()
	vxAssume(!r.localhost && !r.globDomain && !r.globs && r.wildcards == 0)
	name := vxName("cn", vxParam("cnlen"))
	mode := vxChoose("cn_validations(default,disabled,email,hostname,none)", 5)
	e := vxRoleEntry(r)
	switch mode {
	case 0:
		e.CNValidations = []string{"email", "hostname"}
	case 1:
		e.CNValidations = []string{"disabled"}
	case 2:
		e.CNValidations = []string{"email"}
	case 3:
		e.CNValidations = []string{"hostname"}
	}
	b := &backend{Backend: &framework.Backend{}}
	data := &inputBundle{role: e, req: &logical.Request{}, apiData: &framework.FieldData{Raw: map[string]any{}}}
	bad := validateCommonName(b, data, name)
	want := vxPermitted(r, name)
	isEmail := vxCount(name, '@') > 0
	switch mode {
	case 1:
		vxAssert("cn_validations=disabled accepts every common name", bad == "")
		return
	case 2:
		want = want && isEmail
	case 3:
		want = want && !isEmail
	}
	if bad == "" {
		vxReach("cn: accepted")
		vxAssert("an accepted common name is permitted by the role and by cn_validations", want)
	} else {
		vxReach("cn: refused")
		vxAssert("a refused common name is not permitted", !want)
	}
}

// other SANs: every requested (oid, value) must match an allowed pattern of that very oid
func VxOtherSANs() {
	pats := []string{"a*", "*b", "ab", "*"}
	p1 := pats[vxChoose("pattern 1 for oid 1", len(pats))]
	p2 := pats[vxChoose("pattern 2 for oid 1", len(pats))]
	p3 := pats[vxChoose("pattern for oid 2", len(pats))]
	role := &roleEntry{AllowedOtherSANs: []string{"1.1;utf8:" + p1, "1.1;UTF-8:" + p2, "1.2;utf8:" + p3}}
	if vxBool("role allows everything") {
		role.AllowedOtherSANs = []string{"*"}
	}
	val := func(tag string) string {
		b := vxBytes(tag, vxChoose(tag+" length", 3))
		for _, c := range b {
			vxAssume(c == 'a' || c == 'b' || c == 'c')
		}
		return string(b)
	}
	v1, v2, v3 := val("value 1"), val("value 2"), val("value 3")
	oids := []string{"1.1", "1.2", "1.3"}
	o3 := oids[vxChoose("oid of value 3", 3)]
	req := map[string][]string{"1.1": {v1, v2}}
	req[o3] = append(req[o3], v3)
	data := &inputBundle{role: role}
	badOID, badName, err := validateOtherSANs(data, req)
	vxAssert("no error for a well-formed role", err == nil)
	m := func(p, v string) bool {
		switch p {
		case "a*":
			return len(v) >= 1 && v[0] == 'a'
		case "*b":
			return len(v) >= 1 && v[len(v)-1] == 'b'
		case "ab":
			return v == "ab"
		}
		return true
	}
	ok := func(oid, v string) bool {
		if len(role.AllowedOtherSANs) == 1 {
			return true
		}
		switch oid {
		case "1.1":
			return m(p1, v) || m(p2, v)
		case "1.2":
			return m(p3, v)
		}
		return false
	}
	all := ok("1.1", v1) && ok("1.1", v2) && ok(o3, v3)
	if badOID == "" && badName == "" {
		vxReach("other sans: accepted")
		vxAssert("other SANs are accepted only if every value matches an allowed pattern of its own OID", all)
	} else {
		vxReach("other sans: refused")
		vxAssert("other SANs are refused only if some value is not allowed", !all)
	}
}

// generateCreationBundle end to end (no CSR): every DNS name and e-mail address that reaches the certificate
// template - from common_name and from alt_names - is one the role permits; the template is a non-CA leaf whose key
// parameters and usages are the role's; its validity respects the issuer.
func VxCreationBundle() {
	vxSetDomain()
	vxTimes, vxTimesBad = map[string]time.Time{}, map[string]bool{}
	vxSys = vxSysView{def: time.Hour, max: 24 * time.Hour}
	r := vxRole{bare: vxBool("allow_bare_domains"), sub: vxBool("allow_subdomains"), anyName: vxBool("allow_any_name"), enforce: vxBool("enforce_hostnames")}
	e := vxRoleEntry(r)
	e.CNValidations = []string{"email", "hostname"}
	e.KeyType, e.KeyBits = "ec", 256
	e.KeyUsage = []string{"DigitalSignature", "KeyAgreement"}
	e.RequireCN = vxBool("require_cn")
	cns := []string{"", vxDomain, "a." + vxDomain, "a@" + vxDomain, "a"}
	cn := cns[vxChoose("common_name", len(cns))]
	raw := map[string]any{"common_name": cn, "exclude_cn_from_sans": vxBool("exclude_cn_from_sans")}
	var alt string
	if vxBool("alt_names supplied") {
		n := 1 + vxChoose("alt_names length", vxParam("namelen"))
		bs := vxBytes("alt_names", n)
		for _, c := range bs {
			vxAssume(c == 'a' || c == 'e' || c == 'c' || c == '.' || c == '*' || c == '@' || c == ',')
		}
		alt = string(bs)
		raw["alt_names"] = alt
	}
	issuerNA := vxInstant("issuer NotAfter")
	ca := &certutil.CAInfoBundle{LeafNotAfterBehavior: certutil.ErrNotAfterBehavior}
	ca.Certificate = &x509.Certificate{NotAfter: issuerNA, MaxPathLen: -1}
	b := &backend{Backend: &framework.Backend{}}
	data := &inputBundle{role: e, req: &logical.Request{}, apiData: &framework.FieldData{Raw: raw}}
	cb, _, err := generateCreationBundle(b, data, ca, nil)
	if err != nil {
		vxReach("bundle: refused")
		return
	}
	vxReach("bundle: accepted")
	p := cb.Params
	if cn != "" {
		vxAssert("the common name in the template is permitted by the role", vxPermitted(r, cn) && p.Subject.CommonName == cn)
	} else {
		vxAssert("a missing common name is accepted only when the role does not require one", !e.RequireCN)
	}
	for _, d := range p.DNSNames {
		vxAssert("every DNS SAN in the template is permitted by the role", vxPermitted(r, d))
	}
	for _, m := range p.EmailAddresses {
		vxAssert("every e-mail SAN in the template is permitted by the role", vxPermitted(r, m))
	}
	vxAssert("issue/sign templates are non-CA leaves", !p.IsCA)
	vxAssert("key type, size and usages come from the role", p.KeyType == "ec" && p.KeyBits == 256 && p.KeyUsage == x509.KeyUsageDigitalSignature|x509.KeyUsageKeyAgreement)
	vxAssert("validity ends no later than the issuer's", !p.NotAfter.After(issuerNA))
	vxAssert("no IP, URI or other SANs appear unrequested", len(p.IPAddresses) == 0 && len(p.URIs) == 0 && len(p.OtherSANs) == 0)
}
