package pki

// C15 — validity computation: getCertificateNotAfter / getCertificateNotBefore for ALL requested TTLs, role TTL /
// max TTL, mount default / max, not_after / not_before values (symbolic instants), every not_after_bound /
// not_before_bound mode and every issuer leaf_not_after_behavior.
//
//vx:pkg github.com/openbao/openbao/v2/internal/builtin/logical/pki
//vx:assume clock model: instants are whole seconds, time.Now is non-decreasing; time.Parse is a table of arbitrary instants; durations are arbitrary nanosecond counts in [0, 2^62)
//vx:assume the requested ttl (which the unit multiplies by time.Second) ranges over the representatives -5s, 1s, 3600s, 2^31 s, or is absent
//vx:assume mount default ttl > 0 and <= mount max ttl
//vx:redirect (*github.com/openbao/openbao/sdk/v2/framework.FieldData).GetOk vxGetOk
//vx:redirect (*github.com/openbao/openbao/sdk/v2/framework.FieldData).Get vxGet
//vx:redirect (*github.com/openbao/openbao/sdk/v2/framework.Backend).System vxSystem
//vx:redirect time.Parse vxTimeParse

import (
	"crypto/x509"
	"time"

	"github.com/openbao/openbao/sdk/v2/framework"
	"github.com/openbao/openbao/sdk/v2/helper/certutil"
	"github.com/openbao/openbao/sdk/v2/logical"
)

func vxGetOk(d *framework.FieldData, k string) (any, bool) { v, ok := d.Raw[k]; return v, ok }
func vxGet(d *framework.FieldData, k string) any {
	if v, ok := d.Raw[k]; ok {
		return v
	}
	switch k { // schema defaults of the fields these units read
	case "ttl":
		return 0
	case "exclude_cn_from_sans":
		return false
	case "other_sans", "ip_sans", "uri_sans", "user_ids":
		return []string(nil)
	}
	return ""
}

type vxSysView struct {
	logical.SystemView
	def, max time.Duration
}

func (v vxSysView) DefaultLeaseTTL() time.Duration { return v.def }
func (v vxSysView) MaxLeaseTTL() time.Duration     { return v.max }

var vxSys vxSysView

func vxSystem(b *framework.Backend) logical.SystemView { return vxSys }

// RFC3339 parsing is replaced by a table: each distinct string used by the harness denotes one arbitrary instant
// (or fails to parse). Assumption: time.Parse is a function of its input.
var (
	vxTimes    map[string]time.Time
	vxTimesBad map[string]bool
)

func vxTimeParse(layout, s string) (time.Time, error) {
	if vxTimesBad[s] {
		return time.Time{}, vxErr("parsing time: bad format")
	}
	t, ok := vxTimes[s]
	if !ok {
		return time.Time{}, vxErr("parsing time: unknown literal in harness")
	}
	return t, nil
}

const vxSec = int64(time.Second)

// durations are arbitrary non-negative nanosecond counts below 2^62 (no multiplication by 10^9 on symbolic values:
// that kernel stalls all three solvers); the requested ttl - which the unit itself multiplies by time.Second - is
// drawn from a set of concrete representatives, its relation to the symbolic maxima stays fully symbolic
func vxSeconds(tag string) time.Duration {
	s := vxInt64(tag)
	vxAssume(s >= 0 && s < 1<<62)
	return time.Duration(s)
}

var vxTTLReps = []int{-5, 1, 3600, 1 << 31}

func VxNotAfter() {
	vxTimes, vxTimesBad = map[string]time.Time{}, map[string]bool{}
	vxSys = vxSysView{def: vxSeconds("mount default ttl"), max: vxSeconds("mount max ttl")}
	vxAssume(vxSys.def > 0 && vxSys.max >= vxSys.def) // mount tuning guarantees default <= max, both positive
	role := &roleEntry{TTL: vxSeconds("role ttl"), MaxTTL: vxSeconds("role max_ttl")}
	raw := map[string]any{}
	ttlReq := 0
	if k := vxChoose("requested ttl (absent or a representative)", len(vxTTLReps)+1); k > 0 {
		ttlReq = vxTTLReps[k-1]
		raw["ttl"] = ttlReq
	}
	reqNA := vxBool("request supplies not_after")
	if reqNA {
		raw["not_after"] = "REQ"
		vxTimes["REQ"] = vxInstant("requested not_after")
		vxTimesBad["REQ"] = vxBool("requested not_after malformed")
	}
	if vxBool("role has not_after") {
		role.NotAfter = "ROLE"
		vxTimes["ROLE"] = vxInstant("role not_after")
	}
	bound := vxChoose("not_after_bound(unset,permit,forbid,ttl-limited,timestamp)", 5)
	switch bound {
	case 1:
		role.NotAfterBound = "permit"
	case 2:
		role.NotAfterBound = "forbid"
	case 3:
		role.NotAfterBound = "ttl-limited"
	case 4:
		role.NotAfterBound = "BOUND"
		vxTimes["BOUND"] = vxInstant("not_after_bound timestamp")
	}
	var ca *certutil.CAInfoBundle
	beh := vxChoose("issuer(none,err,truncate,permit)", 4)
	issuerNA := vxInstant("issuer NotAfter")
	if beh > 0 {
		ca = &certutil.CAInfoBundle{LeafNotAfterBehavior: certutil.NotAfterBehavior(beh - 1)}
		ca.Certificate = &x509.Certificate{NotAfter: issuerNA}
	}
	b := &backend{Backend: &framework.Backend{}}
	data := &inputBundle{role: role, apiData: &framework.FieldData{Raw: raw}}

	start := time.Now()
	na, _, err := getCertificateNotAfter(b, data, ca)
	end := time.Now()
	if err != nil {
		vxReach("notAfter: refused")
		return
	}
	vxReach("notAfter: granted")
	explicit := role.NotAfter != "" || reqNA
	effMax := vxSys.max
	if role.MaxTTL > 0 {
		effMax = role.MaxTTL
	}
	// issuer bound
	if beh == 1 || beh == 2 {
		vxAssert("validity ends no later than the issuer's unless the issuer permits it", !na.After(issuerNA))
	}
	if beh == 2 && vxTimeLT(issuerNA, start) {
		// truncate never yields a certificate from a request that was already expired... (no obligation on the issuer's own expiry)
		vxNoop()
	}
	// role / mount maximum applies whenever the lifetime comes from a TTL
	if !explicit {
		vxReach("notAfter: from ttl")
		vxAssert("ttl-derived validity ends no later than now + role/mount maximum", !na.After(end.Add(effMax)))
		if ttlReq > 0 && time.Duration(int64(ttlReq)*vxSec) <= effMax {
			vxAssert("a requested ttl within the maximum is honoured, not widened", !na.After(end.Add(time.Duration(int64(ttlReq)*vxSec))))
		}
	}
	if ttlReq > 0 {
		vxAssert("ttl together with not_after is refused", !explicit || (bound == 2 && role.NotAfter == ""))
	}
	switch bound {
	case 2:
		if role.NotAfter == "" && reqNA {
			vxAssert("not_after_bound=forbid refuses a supplied not_after", false)
		}
	case 3:
		if role.NotAfter == "" && reqNA {
			vxReach("notAfter: ttl-limited with explicit not_after")
			vxAssert("not_after_bound=ttl-limited: explicit not_after is within now + maximum", !na.After(end.Add(effMax)) || (beh == 2 && !na.After(issuerNA)))
		}
	case 4:
		vxAssert("not_after_bound timestamp is respected", !na.After(vxTimes["BOUND"]))
	}
	if reqNA && role.NotAfter == "" && vxTimesBad["REQ"] {
		vxAssert("a malformed not_after is refused", false)
	}
	if explicit && beh != 2 {
		want := vxTimes["REQ"]
		if role.NotAfter != "" {
			want = vxTimes["ROLE"]
		}
		vxAssert("an accepted explicit not_after is used unchanged", na.Equal(want))
	}
}

func VxNotBefore() {
	vxTimes, vxTimesBad = map[string]time.Time{}, map[string]bool{}
	role := &roleEntry{NotBeforeDuration: vxSeconds("not_before_duration")}
	raw := map[string]any{}
	req := vxBool("request supplies not_before")
	if req {
		raw["not_before"] = "REQ"
		vxTimes["REQ"] = vxInstant("requested not_before")
		vxTimesBad["REQ"] = vxBool("requested not_before malformed")
	}
	if vxBool("role has not_before") {
		role.NotBefore = "ROLE"
		vxTimes["ROLE"] = vxInstant("role not_before")
	}
	mode := vxChoose("not_before_bound(permit,duration,forbid)", 3)
	role.NotBeforeBound = []string{"permit", "duration", "forbid"}[mode]
	data := &inputBundle{role: role, apiData: &framework.FieldData{Raw: raw}}
	start := time.Now()
	nb, err := getCertificateNotBefore(data)
	if err != nil {
		vxReach("notBefore: refused")
		return
	}
	vxReach("notBefore: granted")
	if role.NotBefore != "" {
		vxAssert("a role-level not_before wins", nb.Equal(vxTimes["ROLE"]))
		return
	}
	if !req {
		vxAssert("no not_before: zero value (issuance back-dates by not_before_duration)", nb.IsZero())
		return
	}
	vxAssert("a malformed not_before is refused", !vxTimesBad["REQ"])
	switch mode {
	case 0:
		vxAssert("permit: requested not_before is used", nb.Equal(vxTimes["REQ"]))
	case 1:
		vxReach("notBefore: duration bound")
		vxAssert("duration: not_before is no older than now - not_before_duration", !nb.Before(start.Add(-role.NotBeforeDuration)))
	case 2:
		vxAssert("forbid refuses a supplied not_before", false)
	}
}
