package pki

// C15 — IP and URI subject alternative names: the real generateCreationBundle (no CSR) with the real
// net.IPNet.Contains / net.CIDRMask, slices.ContainsFunc, validateURISAN and go-glob, for up to two requested IP SANs
// whose four octets are ALL symbolic, a role that allows IP SANs or not and bounds them by zero, one or two networks
// (10.0.0.0/p and 192.168.0.0/q, the prefix lengths p, q symbolic choices), and up to two requested URI SANs out of a
// pool against zero, one or two allowed URI patterns (exact and glob): an IP or URI SAN reaches the certificate
// template only if it was requested AND the role permits it (IP SANs allowed at all, and - when networks are
// configured - the address lies in one of them, decided bit-wise; URI matches one of the allowed patterns); one
// forbidden or malformed value refuses the whole request; nothing is widened or invented.
//
//vx:pkg github.com/openbao/openbao/v2/internal/builtin/logical/pki
//vx:assume (this file) net.ParseIP and url.Parse are tables: each literal used by the harness denotes an address with four symbolic octets (or fails to parse) / a URL object carrying the literal; identity templating of URI patterns is off
//vx:bodies github.com/ryanuber/go-glob,unicode,github.com/hashicorp/go-secure-stdlib/strutil,net
//vx:include names.go
//vx:include lifetime.go
//vx:redirect regexp.MustCompile vxMustCompile
//vx:redirect (*regexp.Regexp).MatchString vxMatchString
//vx:redirect golang.org/x/net/idna.New vxIdnaNew
//vx:redirect (*golang.org/x/net/idna.Profile).ToASCII vxToASCII
//vx:redirect net.ParseIP vxParseIP
//vx:redirect net/url.Parse vxURLParse
//vx:redirect (net.IP).String vxIPString
//vx:noop golang.org/x/net/idna.StrictDomainName
//vx:noop golang.org/x/net/idna.VerifyDNSLength
//vx:param namelen quick=4 thorough=5
//vx:param cnlen quick=4 thorough=5
//vx:param twolabel quick=0 thorough=1
//vx:unwind 64

import (
	"crypto/x509"
	"net"
	"net/url"
	"time"

	"github.com/openbao/openbao/sdk/v2/framework"
	"github.com/openbao/openbao/sdk/v2/helper/certutil"
	"github.com/openbao/openbao/sdk/v2/logical"
)

var vxIPs map[string]net.IP // literal -> address (nil = does not parse)

func vxParseIP(s string) net.IP {
	ip, ok := vxIPs[s]
	if !ok {
		panic("vx: IP literal not in the harness table")
	}
	return ip
}

// only used for error messages
func vxIPString(ip net.IP) string { return "<ip>" }

func vxURLParse(s string) (*url.URL, error) {
	if s == "::bad uri" {
		return nil, vxErr("parse: missing protocol scheme")
	}
	return &url.URL{Opaque: s}, nil
}

func vxWord(ip net.IP) uint32 {
	return uint32(ip[0])<<24 | uint32(ip[1])<<16 | uint32(ip[2])<<8 | uint32(ip[3])
}

// shared set-up: a role that permits the bare allowed domain as common name, an issuer that does not bound the leaf
func vxSANRole() *roleEntry {
	vxSetDomain()
	vxTimes, vxTimesBad = map[string]time.Time{}, map[string]bool{}
	vxSys = vxSysView{def: time.Hour, max: 24 * time.Hour}
	e := vxRoleEntry(vxRole{bare: true})
	e.CNValidations = []string{"email", "hostname"}
	e.KeyType, e.KeyBits = "ec", 256
	return e
}

func vxSANBundle(e *roleEntry, raw map[string]any) (*certutil.CreationBundle, error) {
	ca := &certutil.CAInfoBundle{LeafNotAfterBehavior: certutil.PermitNotAfterBehavior}
	ca.Certificate = &x509.Certificate{NotAfter: vxInstant("issuer NotAfter"), MaxPathLen: -1}
	b := &backend{Backend: &framework.Backend{}}
	data := &inputBundle{role: e, req: &logical.Request{}, apiData: &framework.FieldData{Raw: raw}}
	cb, _, err := generateCreationBundle(b, data, ca, nil)
	return cb, err
}

func VxIPSANs() {
	e := vxSANRole()
	e.AllowIPSANs = vxBool("allow_ip_sans")
	var nets []uint32
	var bits []int
	nn := vxChoose("number of allowed networks", 3)
	if nn >= 1 {
		p := []int{8, 12, 15, 16, 17, 24, 32}[vxChoose("prefix length of 10.0.0.0/p", 7)]
		e.AllowedIPSANsCIDR = append(e.AllowedIPSANsCIDR, net.IPNet{IP: net.IP{10, 0, 0, 0}, Mask: net.CIDRMask(p, 32)})
		nets, bits = append(nets, 10<<24), append(bits, p)
	}
	if nn >= 2 {
		q := []int{16, 20, 24}[vxChoose("prefix length of 192.168.0.0/q", 3)]
		e.AllowedIPSANsCIDR = append(e.AllowedIPSANsCIDR, net.IPNet{IP: net.IP{192, 168, 0, 0}, Mask: net.CIDRMask(q, 32)})
		nets, bits = append(nets, 192<<24|168<<16), append(bits, q)
	}
	// requested IP SANs: the first with four symbolic octets, the second out of a table (or malformed)
	vxIPs = map[string]net.IP{"not an ip": nil, "10.0.0.1": {10, 0, 0, 1}, "10.128.0.1": {10, 128, 0, 1}, "192.168.17.1": {192, 168, 17, 1}, "11.0.0.1": {11, 0, 0, 1}}
	var ipReq []string
	nip := vxChoose("number of requested IP SANs", 3)
	if nip >= 1 {
		vxIPs["ip-one"] = net.IP{vxByte("octet 1"), vxByte("octet 2"), vxByte("octet 3"), vxByte("octet 4")}
		ipReq = append(ipReq, "ip-one")
	}
	if nip >= 2 {
		ipReq = append(ipReq, []string{"not an ip", "10.0.0.1", "10.128.0.1", "192.168.17.1", "11.0.0.1"}[vxChoose("second IP SAN", 5)])
	}
	raw := map[string]any{"common_name": vxDomain}
	if nip > 0 {
		raw["ip_sans"] = ipReq
	}
	cb, err := vxSANBundle(e, raw)
	ipOK := func(ip net.IP) bool {
		if !e.AllowIPSANs {
			return false
		}
		if len(nets) == 0 {
			return true
		}
		w := vxWord(ip)
		for i := range nets {
			if bits[i] == 32 {
				if w == nets[i] {
					return true
				}
			} else if (w^nets[i])>>(32-uint(bits[i])) == 0 {
				return true
			}
		}
		return false
	}
	allOK := true
	for _, lit := range ipReq {
		if vxIPs[lit] == nil || !ipOK(vxIPs[lit]) {
			allOK = false
		}
	}
	if err != nil {
		vxReach("ip sans: refused")
		vxAssert("a request whose IP SANs are all permitted is not refused", !allOK)
		return
	}
	vxReach("ip sans: accepted")
	vxAssert("a request with a forbidden, out-of-network or malformed IP SAN is refused, not silently narrowed or widened", allOK)
	p := cb.Params
	vxAssert("exactly the requested IP SANs reach the template", len(p.IPAddresses) == len(ipReq))
	for i, ip := range p.IPAddresses {
		want := vxIPs[ipReq[i]]
		vxAssert("every IP SAN in the template is a requested one the role permits", len(ip) == 4 && vxWord(ip) == vxWord(want) && ipOK(ip))
	}
	vxAssert("no URI SANs appear unrequested", len(p.URIs) == 0)
	vxAssert("issue/sign templates are non-CA leaves", !p.IsCA)
}

func VxURISANs() {
	e := vxSANRole()
	vxIPs = map[string]net.IP{}
	pats := [][]string{nil, {"spiffe://a/b"}, {"spiffe://a/*"}, {"spiffe://a/b", "urn:x:*"}}[vxChoose("allowed_uri_sans(none, exact, glob, exact+glob)", 4)]
	e.AllowedURISANs = pats
	pool := []string{"spiffe://a/b", "spiffe://a/bc", "spiffe://b/b", "urn:x:1", "::bad uri"}
	var uriReq []string
	nuri := vxChoose("number of requested URI SANs", 3)
	for i := 0; i < nuri; i++ {
		uriReq = append(uriReq, pool[vxChoose("requested URI SAN", len(pool))])
	}
	raw := map[string]any{"common_name": vxDomain}
	if nuri > 0 {
		raw["uri_sans"] = uriReq
	}
	cb, err := vxSANBundle(e, raw)
	uriOK := func(u string) bool {
		for _, p := range pats {
			switch p {
			case "spiffe://a/b":
				if u == p {
					return true
				}
			case "spiffe://a/*":
				if len(u) >= 11 && u[:11] == "spiffe://a/" {
					return true
				}
			case "urn:x:*":
				if len(u) >= 6 && u[:6] == "urn:x:" {
					return true
				}
			}
		}
		return false
	}
	allOK := true
	for _, u := range uriReq {
		if !uriOK(u) || u == "::bad uri" {
			allOK = false
		}
	}
	if err != nil {
		vxReach("uri sans: refused")
		vxAssert("a request whose URI SANs are all permitted is not refused", !allOK)
		return
	}
	vxReach("uri sans: accepted")
	vxAssert("a request with a URI SAN no allowed pattern matches (or a malformed one) is refused", allOK)
	p := cb.Params
	vxAssert("exactly the requested URI SANs reach the template", len(p.URIs) == len(uriReq))
	for i, u := range p.URIs {
		vxAssert("every URI SAN in the template is a requested one the role permits", u.Opaque == uriReq[i] && uriOK(uriReq[i]))
	}
	vxAssert("no IP SANs appear unrequested", len(p.IPAddresses) == 0)
}
