package raft

// Shared models for the raft harnesses (C08, C09): bbolt (sorted association lists, cursors, update with rollback),
// ideal verification hash, serialiser boxes, no-op logger/metrics. Every model is an assumption of the claims.
//
//vx:redirect (*go.etcd.io/bbolt.DB).Update vxDBUpdate
//vx:redirect (*go.etcd.io/bbolt.DB).View vxDBUpdate
//vx:redirect (*go.etcd.io/bbolt.Tx).Bucket vxTxBucket
//vx:redirect (*go.etcd.io/bbolt.Bucket).Get vxBucketGet
//vx:redirect (*go.etcd.io/bbolt.Bucket).Put vxBucketPut
//vx:redirect (*go.etcd.io/bbolt.Bucket).Delete vxBucketDelete
//vx:redirect github.com/openbao/openbao/v2/internal/physical/raft.createVerificationEntryOfType vxIdealHash
//vx:redirect encoding/json.Marshal vxJSONMarshal
//vx:redirect encoding/json.Unmarshal vxJSONUnmarshal
//vx:redirect google.golang.org/protobuf/proto.Marshal vxProtoMarshal
//vx:redirect google.golang.org/protobuf/proto.Unmarshal vxProtoUnmarshal
//vx:noop github.com/hashicorp/go-metrics/compat.*
//vx:bodies context,crypto/subtle,github.com/openbao/openbao/sdk/v2/physical

import (
	log "github.com/hashicorp/go-hclog"
	bolt "go.etcd.io/bbolt"
	"google.golang.org/protobuf/proto"
)

type vxLogger struct{ log.Logger }

func (vxLogger) Debug(msg string, args ...interface{}) {}
func (vxLogger) Trace(msg string, args ...interface{}) {}
func (vxLogger) Info(msg string, args ...interface{})  {}
func (vxLogger) Warn(msg string, args ...interface{})  {}
func (vxLogger) Error(msg string, args ...interface{}) {}

type vxBkt struct {
	keys []string // kept in byte order
	vals [][]byte
}

func (b *vxBkt) find(k string) int {
	for i := range b.keys {
		if b.keys[i] == k {
			return i
		}
	}
	return -1
}

func (b *vxBkt) clone() *vxBkt {
	return &vxBkt{keys: append([]string(nil), b.keys...), vals: append([][]byte(nil), b.vals...)}
}

type vxBoltDB struct{ data, cfg *vxBkt }

var (
	vxDBs  = map[*bolt.DB]*vxBoltDB{}
	vxTxs  = map[*bolt.Tx]*vxBoltDB{}
	vxBkts = map[*bolt.Bucket]*vxBkt{}
)

func vxNewDB() *bolt.DB {
	db := &bolt.DB{}
	vxDBs[db] = &vxBoltDB{data: &vxBkt{}, cfg: &vxBkt{}}
	return db
}

// Update / View: run fn on the live buckets; an error rolls every change back (bbolt semantics)
func vxDBUpdate(db *bolt.DB, fn func(*bolt.Tx) error) error {
	m := vxDBs[db]
	sd, sc := m.data.clone(), m.cfg.clone()
	tx := &bolt.Tx{}
	vxTxs[tx] = m
	err := fn(tx)
	if err != nil {
		m.data.keys, m.data.vals = sd.keys, sd.vals
		m.cfg.keys, m.cfg.vals = sc.keys, sc.vals
	}
	return err
}

func vxTxBucket(tx *bolt.Tx, name []byte) *bolt.Bucket {
	m := vxTxs[tx]
	b := &bolt.Bucket{}
	if string(name) == "data" {
		vxBkts[b] = m.data
	} else {
		vxBkts[b] = m.cfg
	}
	return b
}

func vxBucketGet(b *bolt.Bucket, key []byte) []byte {
	m := vxBkts[b]
	if i := m.find(string(key)); i >= 0 {
		return m.vals[i]
	}
	return nil
}

func vxBucketPut(b *bolt.Bucket, key, value []byte) error {
	m := vxBkts[b]
	k := string(key)
	v := append([]byte{}, value...)
	if i := m.find(k); i >= 0 {
		m.vals[i] = v
		return nil
	}
	// sorted insert
	pos := len(m.keys)
	for i := range m.keys {
		if k < m.keys[i] {
			pos = i
			break
		}
	}
	m.keys = append(m.keys, "")
	m.vals = append(m.vals, nil)
	copy(m.keys[pos+1:], m.keys[pos:])
	copy(m.vals[pos+1:], m.vals[pos:])
	m.keys[pos], m.vals[pos] = k, v
	return nil
}

func vxBucketDelete(b *bolt.Bucket, key []byte) error {
	m := vxBkts[b]
	if i := m.find(string(key)); i >= 0 {
		m.keys = append(m.keys[:i:i], m.keys[i+1:]...)
		m.vals = append(m.vals[:i:i], m.vals[i+1:]...)
	}
	return nil
}

// ideal (injective) verification hash: type | len(key) | key | value   (assumption: SHA-384 is collision free)
func vxIdealHash(hashType byte, key string, value []byte) ([]byte, error) {
	if hashType != sha384VerifyHash {
		return nil, vxErr("unknown hash selected for verify op")
	}
	out := []byte{hashType, byte(len(key))}
	out = append(out, key...)
	out = append(out, value...)
	return out, nil
}

func vxJSONMarshal(v any) ([]byte, error) { return vxBox(v), nil }
func vxJSONUnmarshal(data []byte, v any) error {
	if !vxUnbox(data, v) {
		return vxErr("invalid JSON")
	}
	return nil
}
func vxProtoMarshal(m proto.Message) ([]byte, error) { return vxBox(m), nil }
func vxProtoUnmarshal(b []byte, m proto.Message) error {
	if !vxUnbox(b, m) {
		return vxErr("invalid protobuf")
	}
	return nil
}
