package barrier

// Shared models for the barrier harnesses (C01, C10): ideal AEAD, serialiser boxes, physical KV with crash/fault
// injection. Every model is an assumption of the claims that use it.
//
//vx:redirect (*github.com/openbao/openbao/v2/internal/vault/barrier.AESGCMBarrier).aeadFromKey vxAEADFromKey
//vx:assume AES-GCM is ideal (IND$-CPA + INT-CTXT): Seal yields fresh arbitrary bytes distinct from every earlier ciphertext; Open succeeds only on bytes Seal produced under the same key bytes and additional data
//vx:assume json (de)serialisation of keyring / key records is a box; physical storage is an association list with optional crash point (later writes lost) and fault point (one failing call)
//vx:redirect encoding/json.Marshal vxJSONMarshal
//vx:redirect github.com/openbao/openbao/sdk/v2/helper/jsonutil.DecodeJSON vxDecodeJSON
//vx:redirect crypto/rand.Read vxRandRead
//vx:noop github.com/hashicorp/go-metrics/compat.*
//vx:noop github.com/openbao/openbao/v2/internal/vault/barrier.termLabel

import (
	"bytes"
	"context"
	"crypto/cipher"

	"github.com/openbao/openbao/sdk/v2/logical"
	"github.com/openbao/openbao/sdk/v2/physical"
)

// ---- ideal AEAD (IND$-CPA + INT-CTXT idealisation of AES-256-GCM with random nonce) ----
// Seal returns len(pt)+28 fresh arbitrary bytes, distinct from every earlier ciphertext; Open returns the plaintext
// iff exactly these bytes were produced by Seal under the same key bytes and the same additional data.

type vxSealRec struct {
	key, aad, pt, ct []byte
	hasAAD           bool
}

var vxSeals []vxSealRec

type vxAEAD struct{ key []byte }

func vxAEADFromKey(b *AESGCMBarrier, key []byte) (cipher.AEAD, error) {
	if len(key) != 16 && len(key) != 32 {
		return nil, vxErr("failed to create cipher: invalid key size")
	}
	return &vxAEAD{key: append([]byte(nil), key...)}, nil
}

func vxBytesEq(a, b []byte) bool { return bytes.Equal(a, b) } // one boolean term, no per-byte forking

func (a *vxAEAD) NonceSize() int { return 12 }
func (a *vxAEAD) Overhead() int  { return 28 }

func (a *vxAEAD) Seal(dst, nonce, pt, aad []byte) []byte {
	vxAssert("random-nonce AEAD is called without an explicit nonce", len(nonce) == 0)
	ct := vxBytes("ciphertext", len(pt)+28)
	for _, r := range vxSeals {
		if len(r.ct) == len(ct) {
			vxAssume(!vxBytesEq(r.ct, ct))
		}
	}
	vxSeals = append(vxSeals, vxSealRec{key: a.key, aad: append([]byte(nil), aad...), hasAAD: aad != nil, pt: append([]byte(nil), pt...), ct: ct})
	return append(dst, ct...)
}

func (a *vxAEAD) Open(dst, nonce, ct, aad []byte) ([]byte, error) {
	for _, r := range vxSeals {
		if len(r.ct) == len(ct) && vxBytesEq(r.ct, ct) && vxBytesEq(r.key, a.key) && vxBytesEq(r.aad, aad) {
			return append(dst, r.pt...), nil
		}
	}
	return nil, vxErr("cipher: message authentication failed")
}

// ---- serialiser boxes (assumption: json round-trips these structs; formats are out of scope) ----

func vxJSONMarshal(v any) ([]byte, error) { return vxBox(v), nil }

func vxDecodeJSON(data []byte, out interface{}) error {
	if !vxUnbox(data, out) {
		return vxErr("invalid JSON")
	}
	return nil
}

func vxRandRead(b []byte) (int, error) {
	for i := range b {
		b[i] = vxByte("rand")
	}
	return len(b), nil
}

// ---- physical backend model: association list, write log, crash point, fault point ----

type vxPhys struct {
	keys    []string
	vals    [][]byte
	calls   int // every backend call
	writes  int // puts + deletes that took effect
	crashAt int // if >= 0: writes number crashAt and later are lost (still reported successful)
	failAt  int // if >= 0: the call with this index returns an error and has no effect
	log     []string
}

func vxNewPhys() *vxPhys { return &vxPhys{crashAt: -1, failAt: -1} }

func (m *vxPhys) find(k string) int {
	for i := range m.keys {
		if m.keys[i] == k {
			return i
		}
	}
	return -1
}

func (m *vxPhys) step() bool {
	m.calls++
	return m.failAt >= 0 && m.calls-1 == m.failAt
}

// one scheduling point for two-thread harnesses: right before a physical write takes effect
var vxBeforePhysPut func()

func (m *vxPhys) Put(ctx context.Context, e *physical.Entry) error {
	if f := vxBeforePhysPut; f != nil {
		vxBeforePhysPut = nil
		f()
	}
	if m.step() {
		return vxErr("injected storage failure")
	}
	m.log = append(m.log, "put "+e.Key)
	m.writes++
	if m.crashAt >= 0 && m.writes-1 >= m.crashAt {
		return nil
	}
	v := append([]byte(nil), e.Value...)
	if i := m.find(e.Key); i >= 0 {
		m.vals[i] = v
		return nil
	}
	m.keys, m.vals = append(m.keys, e.Key), append(m.vals, v)
	return nil
}

func (m *vxPhys) Get(ctx context.Context, k string) (*physical.Entry, error) {
	if m.step() {
		return nil, vxErr("injected storage failure")
	}
	if i := m.find(k); i >= 0 {
		return &physical.Entry{Key: k, Value: append([]byte(nil), m.vals[i]...)}, nil
	}
	return nil, nil
}

func (m *vxPhys) Delete(ctx context.Context, k string) error {
	if m.step() {
		return vxErr("injected storage failure")
	}
	m.log = append(m.log, "delete "+k)
	m.writes++
	if m.crashAt >= 0 && m.writes-1 >= m.crashAt {
		return nil
	}
	if i := m.find(k); i >= 0 {
		m.keys = append(m.keys[:i:i], m.keys[i+1:]...)
		m.vals = append(m.vals[:i:i], m.vals[i+1:]...)
	}
	return nil
}

func (m *vxPhys) List(ctx context.Context, p string) ([]string, error) {
	if m.step() {
		return nil, vxErr("injected storage failure")
	}
	return nil, nil
}

func (m *vxPhys) ListPage(ctx context.Context, p, a string, l int) ([]string, error) {
	if m.step() {
		return nil, vxErr("injected storage failure")
	}
	return nil, nil
}

// ---- store construction through the real Initialize / Unseal ----

func vxNewBarrier(phys *vxPhys) *AESGCMBarrier {
	switch b := NewAESGCMBarrier(phys, nil).(type) {
	case *AESGCMBarrier:
		return b
	case *TransactionalAESGCMBarrier:
		return b.AESGCMBarrier
	}
	return nil
}

// initialise a store with a symbolic 32-byte root key and one record; returns (phys, rootKey, value)
func vxInitStore(legacy bool) (*vxPhys, []byte, []byte) {
	ctx := context.Background()
	phys := vxNewPhys()
	root := vxBytes("rootKey", 32)
	a := vxNewBarrier(phys)
	if legacy {
		a.currentAESGCMVersionByte = AESGCMVersion1 // store written by a legacy barrier
	}
	vxAssert("initialize ok", a.Initialize(ctx, root, nil) == nil)
	vxAssert("unseal after init ok", a.Unseal(ctx, root) == nil)
	val := vxBytes("value", 2)
	vxAssert("write ok", a.Put(ctx, &logical.StorageEntry{Key: "secret/a", Value: val}) == nil)
	return phys, root, val
}

func vxReadable(b *AESGCMBarrier, val []byte) bool {
	e, err := b.Get(context.Background(), "secret/a")
	return err == nil && e != nil && vxBytesEq(e.Value, val)
}
