package main

import (
	"bufio"
	"fmt"
	"io"
	"math/big"
	"os/exec"
	"strings"
	"time"
)

// solverGlitch: the solver process answered with a cancellation error that belongs to an earlier command; the pipe
// is out of step and the process must be restarted (handled by the worker loop, which re-runs the path).
type solverGlitch string

type Solver struct {
	bin       string
	args      []string
	cmd       *exec.Cmd
	in        *bufio.Writer
	inRaw     io.WriteCloser
	out       *bufio.Reader
	lines     chan string
	isEm      map[int]bool
	emStack   []int
	marks     []int
	Queries   int
	Sat       int
	Unsat     int
	Unknown   int
	Time      time.Duration
	timeout   int // ms
	fastMs    int
	isZ3      bool
	deadline  time.Time
	Fallbacks int
	Stale     []string
	LastErr   string
}

func NewSolver(bin string, timeoutMs int, args ...string) *Solver {
	s := &Solver{bin: bin, args: args, timeout: timeoutMs, fastMs: 150, isZ3: strings.Contains(bin, "z3")}
	s.start()
	return s
}

func (s *Solver) start() {
	cmd := exec.Command(s.bin, s.args...)
	in, _ := cmd.StdinPipe()
	outp, _ := cmd.StdoutPipe()
	cmd.Stderr = cmd.Stdout
	if err := cmd.Start(); err != nil {
		panic(err)
	}
	s.cmd = cmd
	s.inRaw = in
	s.in = bufio.NewWriterSize(in, 1<<16)
	s.out = bufio.NewReader(outp)
	lines := make(chan string, 64)
	s.lines = lines
	go func(r *bufio.Reader) { // reader goroutine: ends when the pipe closes
		defer close(lines)
		for {
			l, err := r.ReadString('\n')
			if err != nil {
				return
			}
			lines <- l
		}
	}(s.out)
	s.isEm = map[int]bool{}
	s.emStack = nil
	s.marks = nil
	fmt.Fprintln(s.in, "(set-option :print-success false)")
}

func (s *Solver) Restart() {
	s.inRaw.Close()
	s.cmd.Process.Kill()
	s.cmd.Wait()
	s.start()
}

func (s *Solver) define(roots ...*Term) {
	var walk func(t *Term)
	walk = func(t *Term) {
		if s.isEm[t.ID] {
			return
		}
		for _, a := range t.Args {
			walk(a)
		}
		s.isEm[t.ID] = true
		s.emStack = append(s.emStack, t.ID)
		if t.Op == "var" {
			fmt.Fprintf(s.in, "(declare-const %s %s)\n", smtName(t), sortOf(t))
			return
		}
		fmt.Fprintf(s.in, "(define-fun %s () %s %s)\n", smtName(t), sortOf(t), body(t))
	}
	for _, r := range roots {
		walk(r)
	}
}

func (s *Solver) Level() int { return len(s.marks) }

func (s *Solver) Push() {
	s.marks = append(s.marks, len(s.emStack))
	fmt.Fprintln(s.in, "(push 1)")
}

func (s *Solver) PopTo(level int) {
	n := s.Level() - level
	if n <= 0 {
		return
	}
	m := s.marks[level]
	for _, id := range s.emStack[m:] {
		delete(s.isEm, id)
	}
	s.emStack = s.emStack[:m]
	s.marks = s.marks[:level]
	fmt.Fprintf(s.in, "(pop %d)\n", n)
}

func (s *Solver) Assert(t *Term) {
	s.define(t)
	fmt.Fprintf(s.in, "(assert %s)\n", smtName(t))
}

// CheckWith: satisfiability of current assertions plus extra (temporary).
func (s *Solver) CheckWith(extra *Term) string {
	s.Push()
	s.Assert(extra)
	r := s.check()
	s.PopTo(s.Level() - 1)
	return r
}

func (s *Solver) check() string {
	t0 := time.Now()
	// first the incremental core with a short budget (fast on small queries), then the bit-blasting tactic
	// (much faster on the wide-arithmetic obligations; probe: 1.7 s vs 46 s on a CalculateTTL obligation)
	var line string
	if s.isZ3 {
		fmt.Fprintf(s.in, "(set-option :timeout %d)\n(check-sat)\n", s.fastMs)
		s.in.Flush()
		line = s.readLine()
		if line != "sat" && line != "unsat" && !strings.HasPrefix(line, "(error") {
			to := s.timeout
			if !s.deadline.IsZero() {
				if rem := int(time.Until(s.deadline).Milliseconds()); rem < to {
					to = max(rem, 1000)
				}
			}
			fmt.Fprintf(s.in, "(set-option :timeout %d)\n(check-sat-using (then simplify solve-eqs bit-blast sat))\n", to)
			s.in.Flush()
			line = s.readLine()
			s.Fallbacks++
		}
	} else {
		fmt.Fprintln(s.in, "(check-sat)")
		s.in.Flush()
		line = s.readLine()
	}
	s.Time += time.Since(t0)
	s.Queries++
	if strings.HasPrefix(line, "(error") && strings.Contains(line, "canceled") {
		panic(solverGlitch(line))
	}
	switch line {
	case "sat":
		s.Sat++
	case "unsat":
		s.Unsat++
	default:
		s.Unknown++
		s.LastErr = line
		if strings.HasPrefix(line, "(error") {
			return "error:" + line
		}
		if line != "unknown" && line != "timeout" {
			return "error:" + line
		}
		return "unknown"
	}
	return line
}

// solverHang: the solver did not answer within its own timeout plus a grace period (z3 4.8.12 does not honour
// :timeout inside some preprocessing steps); the process is killed and the path is given up as inconclusive.
type solverHang string

func (s *Solver) readLine() string {
	// watchdog: the per-query timeout plus a generous grace period
	limit := time.Duration(s.timeout)*time.Millisecond + 90*time.Second
	timer := time.NewTimer(limit)
	defer timer.Stop()
	for {
		select {
		case l, ok := <-s.lines:
			if !ok {
				panic("solver pipe: closed")
			}
			l = strings.TrimSpace(l)
			if l == "" {
				continue
			}
			return l
		case <-timer.C:
			panic(solverHang(fmt.Sprintf("no answer from the solver within %s", limit)))
		}
	}
}

// CheckAndValues: check current assertions + extra; on sat return values of ts (as big ints; bools 0/1).
func (s *Solver) CheckAndValues(extra *Term, ts []*Term) (string, []*big.Int) {
	s.Push()
	defer func() { s.PopTo(s.Level() - 1) }()
	if extra != nil {
		s.Assert(extra)
	}
	s.define(ts...)
	r := s.check()
	if r != "sat" {
		return r, nil
	}
	vals := make([]*big.Int, len(ts))
	for i, t := range ts {
		fmt.Fprintf(s.in, "(get-value (%s))\n", smtName(t))
		s.in.Flush()
		l := s.readLine()
		for !strings.HasPrefix(l, "(("+smtName(t)+" ") && !strings.HasPrefix(l, "(error") {
			// a line that is not the answer to this get-value: record it and resynchronise
			if len(s.Stale) < 20 {
				s.Stale = append(s.Stale, l)
			}
			l = s.readLine()
		}
		if strings.HasPrefix(l, "(error") && strings.Contains(l, "canceled") {
			panic(solverGlitch(l))
		}
		// accumulate until parens balance
		for strings.Count(l, "(") > strings.Count(l, ")") {
			l += " " + s.readLine()
		}
		l = strings.TrimSpace(l)
		l = strings.TrimSuffix(strings.TrimPrefix(l, "(("), "))")
		f := strings.Fields(l)
		v := f[len(f)-1]
		x := new(big.Int)
		switch {
		case strings.HasPrefix(v, "#x"):
			x.SetString(v[2:], 16)
		case strings.HasPrefix(v, "#b"):
			x.SetString(v[2:], 2)
		case v == "true":
			x.SetInt64(1)
		case v == "false":
		default:
			// (_ bvN w) form
			if i := strings.Index(l, "(_ bv"); i >= 0 {
				rest := l[i+5:]
				rest = strings.Fields(rest)[0]
				x.SetString(rest, 10)
			}
		}
		vals[i] = x
	}
	return r, vals
}

func (s *Solver) Close() {
	s.in.Flush()
	s.inRaw.Close()
	s.cmd.Wait()
}

// one-shot run of a standalone script with another solver binary (cross-check)
func runScript(bin string, args []string, script string, timeout time.Duration) string {
	cmd := exec.Command(bin, args...)
	cmd.Stdin = strings.NewReader(script)
	done := make(chan struct{})
	var out []byte
	go func() {
		out, _ = cmd.CombinedOutput()
		close(done)
	}()
	select {
	case <-done:
	case <-time.After(timeout):
		if cmd.Process != nil {
			cmd.Process.Kill()
		}
		<-done
		return "unknown"
	}
	for _, l := range strings.Split(string(out), "\n") {
		l = strings.TrimSpace(l)
		if l == "sat" || l == "unsat" || l == "unknown" {
			return l
		}
		if strings.HasPrefix(l, "(error") {
			return "error:" + l
		}
	}
	return "unknown"
}
