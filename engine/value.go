package main

import (
	"fmt"
	"go/types"

	"golang.org/x/tools/go/ssa"
)

type Value any

type Cell struct{ v Value }

// Agg: struct or array value. Value semantics: copied on load/store/pass.
type Agg struct{ cells []*Cell }

type SliceV struct {
	arr     *Agg
	off, ln int
	cp      int
}

type MapV struct {
	keys []Value
	vals []Value
}

type IfaceV struct {
	typ types.Type // nil for engine-native dynamic types
	v   Value
}

type Closure struct {
	fn   *ssa.Function
	bind []Value
}

type ChanV struct {
	buf    []Value
	cap    int
	closed bool
}

// ElemRef: pointer to an element of an array selected by a symbolic index (only load/store allowed).
type ElemRef struct {
	cells []*Cell
	idx   *Term
}

// NativeErr: engine-native error value (fmt.Errorf, runtime errors).
type NativeErr struct {
	msg     Value // string or *SymStr
	wrapped []*IfaceV
	runtime bool
}

// NativeObj: opaque engine object (e.g. context).
type NativeObj struct {
	kind string
	data map[string]Value
}

// FuncRef to an intrinsic-only function value
type goPanic struct{ v Value }

// SymStr: string of concrete length whose bytes may be symbolic
type SymStr struct{ b []*Term }

type Range struct {
	kind string // "map", "string"
	keys []Value
	vals []Value
	str  *SymStr
	pos  int
}

func (in *Interp) toSym(v Value) *SymStr {
	switch x := v.(type) {
	case *SymStr:
		return x
	case string:
		r := &SymStr{b: make([]*Term, len(x))}
		for i := 0; i < len(x); i++ {
			r.b[i] = in.tb.Const(8, uint64(x[i]))
		}
		return r
	}
	panic(fmt.Sprintf("toSym %T", v))
}

func strLen(v Value) int {
	if s, ok := v.(string); ok {
		return len(s)
	}
	return len(v.(*SymStr).b)
}

func normStr(s *SymStr) Value { // back to a Go string when fully concrete
	bs := make([]byte, len(s.b))
	for i, t := range s.b {
		if !t.IsConst() {
			return s
		}
		bs[i] = byte(t.K)
	}
	return string(bs)
}

func isStr(v Value) bool {
	switch v.(type) {
	case string, *SymStr:
		return true
	}
	return false
}

func (in *Interp) strEq(a, b Value) *Term {
	if sa, ok := a.(string); ok {
		if sb, ok := b.(string); ok {
			return in.tb.BoolC(sa == sb)
		}
	}
	if strLen(a) != strLen(b) {
		return in.tb.BoolC(false)
	}
	x, y := in.toSym(a), in.toSym(b)
	r := in.tb.BoolC(true)
	for i := range x.b {
		r = in.tb.And(r, in.tb.Eq(x.b[i], y.b[i]))
		if r.IsFalse() {
			return r
		}
	}
	return r
}

func (in *Interp) strLess(a, b Value, orEq bool) *Term { // lexicographic a < b (or <=)
	x, y := in.toSym(a), in.toSym(b)
	n := len(x.b)
	if len(y.b) < n {
		n = len(y.b)
	}
	var res *Term
	if orEq {
		res = in.tb.BoolC(len(x.b) <= len(y.b))
	} else {
		res = in.tb.BoolC(len(x.b) < len(y.b))
	}
	for i := n - 1; i >= 0; i-- {
		res = in.tb.Ite(in.tb.Eq(x.b[i], y.b[i]), res, in.tb.Bin("bvult", x.b[i], y.b[i]))
	}
	return res
}

func (in *Interp) strConcat(a, b Value) Value {
	if sa, ok := a.(string); ok {
		if sb, ok := b.(string); ok {
			return sa + sb
		}
	}
	x, y := in.toSym(a), in.toSym(b)
	return normStr(&SymStr{b: append(append(make([]*Term, 0, len(x.b)+len(y.b)), x.b...), y.b...)})
}

// bytesOf: the byte terms of a []byte slice value
func (in *Interp) bytesOf(v Value) []*Term {
	s, _ := v.(*SliceV)
	if s == nil {
		return nil
	}
	r := make([]*Term, s.ln)
	for i := 0; i < s.ln; i++ {
		r[i] = s.arr.cells[s.off+i].v.(*Term)
	}
	return r
}

func (in *Interp) sliceFromTerms(ts []*Term) *SliceV {
	a := &Agg{cells: make([]*Cell, len(ts))}
	for i, t := range ts {
		a.cells[i] = &Cell{t}
	}
	return &SliceV{arr: a, ln: len(ts), cp: len(ts)}
}

func (in *Interp) sliceFromValues(vs []Value) *SliceV {
	a := &Agg{cells: make([]*Cell, len(vs))}
	for i, t := range vs {
		a.cells[i] = &Cell{t}
	}
	return &SliceV{arr: a, ln: len(vs), cp: len(vs)}
}

func (in *Interp) strSlice(vs []Value) *SliceV { return in.sliceFromValues(vs) }

func copyVal(v Value) Value {
	if a, ok := v.(*Agg); ok && a != nil {
		n := &Agg{cells: make([]*Cell, len(a.cells))}
		for i, c := range a.cells {
			n.cells[i] = &Cell{copyVal(c.v)}
		}
		return n
	}
	return v
}

func isBV(t types.Type) (int, bool, bool) { // width (0 = bool), signed, ok
	b, ok := t.Underlying().(*types.Basic)
	if !ok {
		return 0, false, false
	}
	switch b.Kind() {
	case types.Bool, types.UntypedBool:
		return 0, false, true
	case types.Int8:
		return 8, true, true
	case types.Int16:
		return 16, true, true
	case types.Int32, types.UntypedRune:
		return 32, true, true
	case types.Int, types.Int64, types.UntypedInt:
		return 64, true, true
	case types.Uint8:
		return 8, false, true
	case types.Uint16:
		return 16, false, true
	case types.Uint32:
		return 32, false, true
	case types.Uint, types.Uint64, types.Uintptr:
		return 64, false, true
	}
	return 0, false, false
}

func isFloat(t types.Type) bool {
	b, ok := t.Underlying().(*types.Basic)
	return ok && b.Info()&types.IsFloat != 0
}

func isStringT(t types.Type) bool {
	b, ok := t.Underlying().(*types.Basic)
	return ok && b.Info()&types.IsString != 0
}

func (in *Interp) zero(t types.Type) Value {
	if w, _, ok := isBV(t); ok {
		if w == 0 {
			return in.tb.BoolC(false)
		}
		return in.tb.Const(w, 0)
	}
	switch u := t.Underlying().(type) {
	case *types.Basic:
		if u.Info()&types.IsString != 0 {
			return ""
		}
		if u.Info()&types.IsFloat != 0 {
			return float64(0)
		}
		if u.Kind() == types.UnsafePointer {
			return (*Cell)(nil)
		}
		if u.Kind() == types.UntypedNil {
			return nil
		}
		if u.Info()&types.IsComplex != 0 {
			return complex128(0)
		}
	case *types.Struct:
		a := &Agg{cells: make([]*Cell, u.NumFields())}
		for i := 0; i < u.NumFields(); i++ {
			a.cells[i] = &Cell{in.zero(u.Field(i).Type())}
		}
		return a
	case *types.Array:
		n := int(u.Len())
		a := &Agg{cells: make([]*Cell, n)}
		var z Value
		_, isAgg := u.Elem().Underlying().(*types.Struct)
		_, isArr := u.Elem().Underlying().(*types.Array)
		if !isAgg && !isArr && n > 0 {
			z = in.zero(u.Elem())
		}
		for i := 0; i < n; i++ {
			if isAgg || isArr {
				a.cells[i] = &Cell{in.zero(u.Elem())}
			} else {
				a.cells[i] = &Cell{z}
			}
		}
		return a
	case *types.Slice:
		return (*SliceV)(nil)
	case *types.Map:
		return (*MapV)(nil)
	case *types.Pointer:
		return (*Cell)(nil)
	case *types.Interface:
		return (*IfaceV)(nil)
	case *types.Signature:
		return nil
	case *types.Chan:
		return (*ChanV)(nil)
	case *types.Tuple:
		r := make([]Value, u.Len())
		for i := range r {
			r[i] = in.zero(u.At(i).Type())
		}
		return r
	}
	panic(fmt.Sprintf("zero: unhandled type %s", t))
}

func isNilValue(v Value) bool {
	switch x := v.(type) {
	case nil:
		return true
	case *Cell:
		return x == nil
	case *SliceV:
		return x == nil
	case *MapV:
		return x == nil
	case *IfaceV:
		return x == nil
	case *ChanV:
		return x == nil
	case *Closure:
		return x == nil
	case *ssa.Function:
		return x == nil
	}
	return false
}

// eqVal: Go == on two values of the same static type (or interface payloads of the same dynamic type)
func (in *Interp) eqVal(a, b Value) *Term {
	tb := in.tb
	switch x := a.(type) {
	case *Term:
		y, ok := b.(*Term)
		if !ok {
			return tb.BoolC(false)
		}
		if x.W != y.W {
			return tb.BoolC(false)
		}
		return tb.Eq(x, y)
	case string, *SymStr:
		if !isStr(b) {
			return tb.BoolC(false)
		}
		return in.strEq(a, b)
	case float64:
		y, ok := b.(float64)
		return tb.BoolC(ok && x == y)
	case *IfaceV:
		y, _ := b.(*IfaceV)
		if x == nil || y == nil {
			return tb.BoolC(x == nil && y == nil)
		}
		if x == y {
			return tb.BoolC(true)
		}
		if (x.typ == nil) != (y.typ == nil) {
			return tb.BoolC(false)
		}
		if x.typ == nil {
			return tb.BoolC(x.v == y.v)
		}
		if !types.Identical(x.typ, y.typ) {
			return tb.BoolC(false)
		}
		return in.eqVal(x.v, y.v)
	case *Cell:
		y, ok := b.(*Cell)
		return tb.BoolC(ok && x == y)
	case *Agg:
		y, ok := b.(*Agg)
		if !ok || len(x.cells) != len(y.cells) {
			return tb.BoolC(false)
		}
		r := tb.BoolC(true)
		for i := range x.cells {
			r = tb.And(r, in.eqVal(x.cells[i].v, y.cells[i].v))
			if r.IsFalse() {
				break
			}
		}
		return r
	case *SliceV:
		if x == nil {
			return tb.BoolC(isNilValue(b))
		}
		if isNilValue(b) {
			return tb.BoolC(false)
		}
	case *MapV:
		y, _ := b.(*MapV)
		return tb.BoolC(x == y)
	case *ChanV:
		y, _ := b.(*ChanV)
		return tb.BoolC(x == y)
	case *Closure:
		if isNilValue(b) {
			return tb.BoolC(x == nil)
		}
	case *ssa.Function:
		if isNilValue(b) {
			return tb.BoolC(x == nil)
		}
	case nil:
		return tb.BoolC(isNilValue(b))
	case *NativeErr:
		y, _ := b.(*NativeErr)
		return tb.BoolC(x == y)
	case *NativeObj:
		y, _ := b.(*NativeObj)
		return tb.BoolC(x == y)
	}
	panic(pathAbort{kind: "unsupported", reason: fmt.Sprintf("equality on %T / %T", a, b)})
}
