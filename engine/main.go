package main

import (
	"encoding/json"
	"flag"
	"fmt"
	"math/big"
	"os"
	"path/filepath"
	"regexp"
	"runtime"
	"runtime/debug"
	"runtime/pprof"
	"sort"
	"strconv"
	"strings"
	"sync"
	"time"

	"golang.org/x/tools/go/packages"
	"golang.org/x/tools/go/ssa"
	"golang.org/x/tools/go/ssa/ssautil"
)

type Harness struct {
	File      string
	Src       []byte
	Pkg       string
	Bodies    []string
	Redirect  map[string]string
	Noop      []string
	Unwind    int
	MaxInstr  int64
	GoMode    string
	Entries   []entrySpec
	Params    map[string]map[string]int64 // name → tier → value
	ReachOpt  map[string]bool
	ReachLits []string
	MaxPaths  map[string]int
	TimeLimit map[string]int // seconds per entry
	Overlay   map[string]string
	Includes  []string
	Assumes   []string
	Census    []string // scope prefix, allow-list file (relative to the harness), excluded package prefixes...
}

type entrySpec struct {
	Name  string
	Tiers map[string]bool
}

var dirRe = regexp.MustCompile(`(?m)^//vx:(\w[\w-]*)\s*(.*)$`)
var reachRe = regexp.MustCompile(`vxReach\("([^"]+)"\)`)
var entryRe = regexp.MustCompile(`(?m)^func (Vx\w+)\(\)`)

// propID is the property the run is for (-id): a //vx:param line may carry "<ID>.<tier>=<n>" to give a harness file
// that several properties run (include.txt) a different bound under one of them
var propID string

func tierVal(tv map[string]int64, tier string) (int64, bool) {
	if v, ok := tv[propID+"."+tier]; ok {
		return v, true
	}
	v, ok := tv[tier]
	return v, ok
}

func tierKV(s string) map[string]int64 {
	r := map[string]int64{}
	for _, f := range strings.Fields(s) {
		kv := strings.SplitN(f, "=", 2)
		if len(kv) == 2 {
			n, err := strconv.ParseInt(kv[1], 10, 64)
			if err == nil {
				r[kv[0]] = n
			}
		}
	}
	return r
}

func parseHarness(file string) (*Harness, error) {
	src, err := os.ReadFile(file)
	if err != nil {
		return nil, err
	}
	h := &Harness{File: file, Src: src, Redirect: map[string]string{}, Unwind: 300, MaxInstr: 5_000_000, GoMode: "unsupported",
		Params: map[string]map[string]int64{}, ReachOpt: map[string]bool{}, MaxPaths: map[string]int{}, TimeLimit: map[string]int{}, Overlay: map[string]string{}}
	explicit := map[string]map[string]bool{}
	for _, m := range dirRe.FindAllStringSubmatch(string(src), -1) {
		arg := strings.TrimSpace(m[2])
		switch m[1] {
		case "pkg":
			h.Pkg = arg
		case "bodies":
			for _, b := range strings.Split(arg, ",") {
				if b = strings.TrimSpace(b); b != "" {
					h.Bodies = append(h.Bodies, b)
				}
			}
		case "redirect":
			i := strings.LastIndex(arg, " ")
			if i < 0 {
				return nil, fmt.Errorf("bad redirect directive %q", arg)
			}
			h.Redirect[strings.TrimSpace(arg[:i])] = strings.TrimSpace(arg[i+1:])
		case "noop":
			h.Noop = append(h.Noop, arg)
		case "unwind":
			h.Unwind, _ = strconv.Atoi(arg)
		case "maxinstr":
			h.MaxInstr, _ = strconv.ParseInt(arg, 10, 64)
		case "go":
			h.GoMode = arg
		case "entry":
			f := strings.Fields(arg)
			t := map[string]bool{}
			if len(f) > 1 {
				for _, x := range strings.Split(f[1], ",") {
					t[x] = true
				}
			} else {
				t["quick"], t["thorough"] = true, true
			}
			explicit[f[0]] = t
		case "param":
			f := strings.SplitN(arg, " ", 2)
			if len(f) == 2 {
				h.Params[f[0]] = tierKV(f[1])
			}
		case "reach-optional":
			h.ReachOpt[arg] = true
		case "maxpaths":
			for k, v := range tierKV(arg) {
				h.MaxPaths[k] = int(v)
			}
		case "timelimit":
			for k, v := range tierKV(arg) {
				h.TimeLimit[k] = int(v)
			}
		case "census": // //vx:census <package path prefix> <allow-list file> [excluded package prefix ...]
			h.Census = strings.Fields(arg)
		case "assume": // //vx:assume <free text>: an assumption of the harness, copied into the evidence file
			h.Assumes = append(h.Assumes, arg)
		case "include": // //vx:include <file relative to the harness dir>: extra file of the same package (shared models)
			h.Includes = append(h.Includes, arg)
		case "overlay": // //vx:overlay <repo-relative path> <file relative to harness dir>
			f := strings.Fields(arg)
			if len(f) == 2 {
				h.Overlay[f[0]] = f[1]
			}
		}
	}
	if h.Pkg == "" {
		return nil, fmt.Errorf("%s: missing //vx:pkg", file)
	}
	for _, m := range entryRe.FindAllStringSubmatch(string(src), -1) {
		t, ok := explicit[m[1]]
		if !ok {
			t = map[string]bool{"quick": true, "thorough": true}
		}
		h.Entries = append(h.Entries, entrySpec{Name: m[1], Tiers: t})
	}
	seen := map[string]bool{}
	for _, m := range reachRe.FindAllStringSubmatch(string(src), -1) {
		if !seen[m[1]] {
			seen[m[1]] = true
			h.ReachLits = append(h.ReachLits, m[1])
		}
	}
	return h, nil
}

const preludeSrc = `
import "time"

func vxNoop()                                {}
func vxBool(tag string) bool                 { panic("vx") }
func vxByte(tag string) byte                 { panic("vx") }
func vxU16(tag string) uint16                { panic("vx") }
func vxI32(tag string) int32                 { panic("vx") }
func vxU32(tag string) uint32                { panic("vx") }
func vxInt(tag string) int                   { panic("vx") }
func vxInt64(tag string) int64               { panic("vx") }
func vxU64(tag string) uint64                { panic("vx") }
func vxBytes(tag string, n int) []byte       { panic("vx") }
func vxString(tag string, n int) string      { panic("vx") }
func vxConc(x int) int                       { panic("vx") }
func vxConcByte(x byte) byte                 { panic("vx") }
func vxConcStr(s string) string              { panic("vx") }
func vxChoose(tag string, n int) int         { panic("vx") }
func vxAssume(c bool)                        { panic("vx") }
func vxAssert(label string, c bool)          { panic("vx") }
func vxReach(label string)                   { panic("vx") }
func vxTrace(msg string)                     { panic("vx") }
func vxParam(name string) int                { panic("vx") }
func vxHeld(mu any) int                      { panic("vx") }
func vxHeldW(mu any) bool                    { panic("vx") }
func vxInstant(tag string) time.Time         { panic("vx") }
func vxTimeLE(a, b time.Time) bool           { panic("vx") }
func vxTimeLT(a, b time.Time) bool           { panic("vx") }
func vxIsSymbolic() bool                     { panic("vx") }
func vxErr(msg string) error                 { panic("vx") }
func vxCatch(f func()) bool                  { panic("vx") }
func vxSpawn(f func())                       { panic("vx") }
func vxBox(v any) []byte                     { panic("vx") }
func vxUnbox(b []byte, out any) bool         { panic("vx") }
`

type overlayFlag []string

func (o *overlayFlag) String() string     { return strings.Join(*o, ",") }
func (o *overlayFlag) Set(v string) error { *o = append(*o, v); return nil }

var extraOverlay overlayFlag
var progressEvery int

type loaded struct {
	h    *Harness
	cfg  *Config
	load time.Duration
}

var pkgNameRe = regexp.MustCompile(`(?m)^package (\w+)`)

func loadHarness(h *Harness, tier string, repo string) (*loaded, error) {
	t0 := time.Now()
	env := append(os.Environ(), "GOFLAGS=-mod=mod", "GOPROXY=off", "GOSUMDB=off", "GOTOOLCHAIN=local", "PATH=/opt/veriftools/go1.27.0/bin:"+os.Getenv("PATH"))
	probe, err := packages.Load(&packages.Config{Mode: packages.NeedFiles | packages.NeedName, Dir: repo, Env: env}, h.Pkg)
	if err != nil || len(probe) == 0 || len(probe[0].GoFiles) == 0 {
		return nil, fmt.Errorf("cannot locate package %s: %v", h.Pkg, err)
	}
	dir := filepath.Dir(probe[0].GoFiles[0])
	pm := pkgNameRe.FindSubmatch(h.Src)
	if pm == nil {
		return nil, fmt.Errorf("harness has no package clause")
	}
	overlay := map[string][]byte{
		filepath.Join(dir, "zz_verif_harness.go"): h.Src,
		filepath.Join(dir, "zz_verif_prelude.go"): []byte("package " + string(pm[1]) + "\n" + preludeSrc),
	}
	for i, inc := range h.Includes {
		b, err := os.ReadFile(filepath.Join(filepath.Dir(h.File), inc))
		if err != nil {
			return nil, err
		}
		overlay[filepath.Join(dir, fmt.Sprintf("zz_verif_inc%d.go", i))] = b
		// directives of included files (redirects, noops, bodies) apply too
		for _, m := range dirRe.FindAllStringSubmatch(string(b), -1) {
			arg := strings.TrimSpace(m[2])
			switch m[1] {
			case "redirect":
				if j := strings.LastIndex(arg, " "); j > 0 {
					h.Redirect[strings.TrimSpace(arg[:j])] = strings.TrimSpace(arg[j+1:])
				}
			case "noop":
				h.Noop = append(h.Noop, arg)
			case "assume":
				h.Assumes = append(h.Assumes, arg)
			case "bodies":
				for _, bb := range strings.Split(arg, ",") {
					if bb = strings.TrimSpace(bb); bb != "" {
						h.Bodies = append(h.Bodies, bb)
					}
				}
			}
		}
	}
	for rel, f := range h.Overlay {
		b, err := os.ReadFile(filepath.Join(filepath.Dir(h.File), f))
		if err != nil {
			return nil, err
		}
		overlay[filepath.Join(repo, rel)] = b
	}
	for _, kv := range extraOverlay {
		f := strings.SplitN(kv, "=", 2)
		b, err := os.ReadFile(f[1])
		if err != nil {
			return nil, err
		}
		overlay[filepath.Join(repo, f[0])] = b
	}
	mode := packages.NeedName | packages.NeedFiles | packages.NeedCompiledGoFiles | packages.NeedImports | packages.NeedTypes | packages.NeedTypesSizes | packages.NeedSyntax | packages.NeedTypesInfo
	cfg := &packages.Config{Mode: mode, Dir: repo, Env: env, Overlay: overlay}
	pats := append([]string{h.Pkg}, h.Bodies...)
	for _, d := range []string{"strings", "bytes", "internal/stringslite", "sort", "slices", "math/bits", "strconv", "internal/strconv", "unicode/utf8", "path", "cmp", "maps", "container/list"} {
		have := false
		for _, p := range pats {
			if p == d {
				have = true
			}
		}
		if !have {
			pats = append(pats, d)
		}
	}
	pkgs, err := packages.Load(cfg, pats...)
	if err != nil {
		return nil, err
	}
	nerr := 0
	for _, p := range pkgs {
		for _, e := range p.Errors {
			fmt.Fprintln(os.Stderr, "LOAD ERROR", e)
			nerr++
		}
	}
	if nerr > 0 {
		return nil, fmt.Errorf("%d load errors (harness or /repo does not type-check)", nerr)
	}
	prog, spkgs := ssautil.Packages(pkgs, ssa.InstantiateGenerics)
	prog.Build()
	var target *ssa.Package
	for _, sp := range spkgs {
		if sp != nil && sp.Pkg.Path() == h.Pkg {
			target = sp
		}
	}
	if target == nil {
		return nil, fmt.Errorf("target package %s not built", h.Pkg)
	}
	c := &Config{prog: prog, target: target, redirect: map[*ssa.Function]*ssa.Function{}, redirName: h.Redirect, noop: h.Noop,
		unwind: h.Unwind, maxInstr: h.MaxInstr, concLimit: 4096, tier: tier, goMode: h.GoMode, params: map[string]int64{}}
	for name, tv := range h.Params {
		if v, ok := tierVal(tv, tier); ok {
			c.params[name] = v
		}
	}
	// resolve redirects
	byName := map[string]*ssa.Function{}
	for fn := range ssautil.AllFunctions(prog) {
		byName[fn.String()] = fn
	}
	for from, to := range h.Redirect {
		src := byName[from]
		if src == nil {
			return nil, fmt.Errorf("redirect source %q not found in program", from)
		}
		dst := target.Func(to)
		if dst == nil {
			return nil, fmt.Errorf("redirect target %q not found in harness package", to)
		}
		c.redirect[src] = dst
	}
	return &loaded{h: h, cfg: c, load: time.Since(t0)}, nil
}

type EntryResult struct {
	Entry  string
	Sh     *Shared
	Wall   time.Duration
	Engine []string // engine-level errors
}

func runEntry(l *loaded, entry string, workers int, tier string, solverBin string, qTimeoutMs int) *EntryResult {
	fn := l.cfg.target.Func(entry)
	res := &EntryResult{Entry: entry, Sh: NewShared()}
	if fn == nil {
		res.Engine = append(res.Engine, "no such entry "+entry)
		return res
	}
	sh := res.Sh
	sh.maxPaths = l.h.MaxPaths[tier]
	tl := l.h.TimeLimit[tier]
	if tl == 0 { // default per-entry budget: a check must terminate; hitting it is reported as inconclusive
		tl = 900
		if tier == "thorough" {
			tl = 7200
		}
	}
	sh.deadline = time.Now().Add(time.Duration(tl) * time.Second)
	sh.maxScript = 300
	if tier == "thorough" {
		sh.maxScript = 3000
	}
	sh.work = [][]decision{{}}
	t0 := time.Now()
	var wg sync.WaitGroup
	var emu sync.Mutex
	if progressEvery > 0 {
		stopProg := make(chan struct{})
		defer close(stopProg)
		go func() {
			tk := time.NewTicker(time.Duration(progressEvery) * time.Second)
			defer tk.Stop()
			for {
				select {
				case <-stopProg:
					return
				case <-tk.C:
					sh.mu.Lock()
					fmt.Fprintf(os.Stderr, "  .. %s: %.0fs paths=%d queued=%d infeasible=%d obligations=%d cex=%d\n", entry, time.Since(t0).Seconds(), sh.Paths, len(sh.work), sh.Infeas, sh.Asserts, len(sh.Cexs))
					sh.mu.Unlock()
				}
			}
		}()
	}
	for w := 0; w < workers; w++ {
		wg.Add(1)
		go func() {
			defer wg.Done()
			s := NewSolver(solverBin, qTimeoutMs, "-in", "-memory:6000")
			defer s.Close()
			s.deadline = sh.deadline
			ex := &Explorer{sh: sh, s: s, tb: NewTB(), entry: entry}
			in := NewInterp(l.cfg, ex)
			for {
				p, ok := sh.popWork()
				if !ok {
					break
				}
				func() {
					defer sh.donePath()
					defer func() {
						if r := recover(); r != nil {
							// a solver glitch (z3 4.8.12 lets the timer of a finished check-sat cancel the next
							// command: "push canceled") desynchronises the pipe: restart the solver and re-run this
							// path along the decisions already taken (alternatives are queued already)
							if h, isHang := r.(solverHang); isHang {
								sh.mu.Lock()
								sh.Aborted["solver: "+string(h)+" (process killed, path given up)"]++
								sh.mu.Unlock()
								s.Restart()
								return
							}
							for try := 0; try < 3; try++ {
								g, isGlitch := r.(solverGlitch)
								if !isGlitch {
									break
								}
								sh.mu.Lock()
								sh.Notes["solver restarted after: "+string(g)]++
								sh.mu.Unlock()
								s.Restart()
								taken := append([]decision{}, ex.prefix[:min(ex.idx, len(ex.prefix))]...)
								r = func() (rr any) {
									defer func() { rr = recover() }()
									ex.runPath(taken, func() { runEntryOnce(in, fn) })
									return nil
								}()
								if r == nil {
									return
								}
							}
							emu.Lock()
							if len(res.Engine) < 5 {
								res.Engine = append(res.Engine, fmt.Sprintf("engine error on path %s: %v\n%s", decStr(ex.prefix[:min(ex.idx, len(ex.prefix))]), r, trimStack(debug.Stack())))
							}
							emu.Unlock()
							s.Restart()
						}
					}()
					ex.runPath(p, func() { runEntryOnce(in, fn) })
				}()
			}
			sh.mu.Lock()
			sh.Instr += in.Instr
			for k, v := range in.Funcs {
				sh.Funcs[k] += v
			}
			for k, v := range in.intrUsed {
				sh.Intrinsic[k] += v
			}
			for k, v := range in.redirUsed {
				sh.Redirects[k] += v
			}
			for _, st := range s.Stale {
				sh.Notes["solver printed an unexpected line: "+st]++
			}
			sh.SolverQ += s.Queries
			sh.SolverSat += s.Sat
			sh.SolverUns += s.Unsat
			sh.SolverUnk += s.Unknown
			sh.SolverT += s.Time
			sh.mu.Unlock()
		}()
	}
	wg.Wait()
	res.Wall = time.Since(t0)
	return res
}

func trimStack(b []byte) string {
	lines := strings.Split(string(b), "\n")
	var out []string
	for _, l := range lines {
		if strings.Contains(l, "/verif/engine/") {
			out = append(out, strings.TrimSpace(l))
		}
		if len(out) > 14 {
			break
		}
	}
	return strings.Join(out, "\n")
}

func runEntryOnce(in *Interp, fn *ssa.Function) {
	in.killThreads()
	in.resetPath()
	defer in.killThreads()
	defer func() {
		if r := recover(); r != nil {
			if gp, ok := r.(goPanic); ok {
				in.ex.PanicEscaped(in.panicString(gp.v))
				return
			}
			panic(r)
		}
	}()
	in.Call(fn, nil, nil)
	if why := in.unfinishedThreads(); why != "" {
		unsupported("%s", why)
	}
}

func (in *Interp) panicString(v Value) (s string) {
	defer func() {
		if r := recover(); r != nil {
			s = "<panic value>"
		}
	}()
	r := in.fmtValue('v', v)
	if str, ok := r.(string); ok {
		return str
	}
	return "<symbolic panic message>"
}

// concrete replay of a counterexample
func replayCex(l *loaded, cex *Cex, solverBin string) (string, []string) {
	fn := l.cfg.target.Func(cex.Entry)
	if fn == nil {
		return "", []string{"no such entry"}
	}
	sh := NewShared()
	s := NewSolver(solverBin, 10000, "-in")
	defer s.Close()
	ex := &Explorer{sh: sh, s: s, tb: NewTB(), entry: cex.Entry, concrete: true, model: map[string]*big.Int{}}
	for k, v := range cex.Model {
		b, _ := new(big.Int).SetString(v, 10)
		ex.model[k] = b
	}
	in := NewInterp(l.cfg, ex)
	var errs []string
	func() {
		defer func() {
			if r := recover(); r != nil {
				errs = append(errs, fmt.Sprint(r))
			}
		}()
		ex.runPath(nil, func() { runEntryOnce(in, fn) })
	}()
	for k, v := range sh.Aborted {
		errs = append(errs, fmt.Sprintf("%s ×%d", k, v))
	}
	return ex.failed, errs
}

type knownFinding struct {
	Prop, Key, Text string
}

func loadKnown(path string) []knownFinding {
	b, err := os.ReadFile(path)
	if err != nil {
		return nil
	}
	var out []knownFinding
	for _, l := range strings.Split(string(b), "\n") {
		l = strings.TrimSpace(l)
		if !strings.HasPrefix(l, "known:") {
			continue
		}
		f := strings.Fields(l[len("known:"):])
		kf := knownFinding{}
		rest := []string{}
		for _, x := range f {
			switch {
			case strings.HasPrefix(x, "property=") && kf.Prop == "":
				kf.Prop = x[len("property="):]
			case strings.HasPrefix(x, "key=") && kf.Key == "":
				kf.Key = x[len("key="):]
			default:
				rest = append(rest, x)
			}
		}
		kf.Text = strings.Join(rest, " ")
		out = append(out, kf)
	}
	return out
}

func cexKey(c *Cex) string {
	return c.Entry + "/" + strings.ReplaceAll(c.Label, " ", "_")
}

func main() {
	id := flag.String("id", "", "property id")
	tier := flag.String("tier", "quick", "quick|thorough")
	repo := flag.String("repo", "/repo", "repository root")
	out := flag.String("out", "/verif/out", "scratch output dir")
	evid := flag.String("evidence", "", "evidence file to write")
	workers := flag.Int("workers", runtime.NumCPU(), "workers")
	solver := flag.String("solver", "z3", "primary solver binary")
	qto := flag.Int("qtimeout", 0, "per-query timeout ms (0 = tier default)")
	replay := flag.String("replay", "", "replay a counterexample file")
	only := flag.String("entry", "", "run only this entry (debug)")
	known := flag.String("known", "/verif/known-findings.txt", "known findings file")
	cross := flag.Bool("cross", true, "cross-check assertion queries with other solvers in thorough tier")
	verbose := flag.Bool("v", false, "verbose")
	flag.Var(&extraOverlay, "overlay", "repo-relative-path=replacement-file (repeatable; mutation testing)")
	prof := flag.String("cpuprofile", "", "write cpu profile")
	flag.IntVar(&progressEvery, "progress", 0, "print a progress line to stderr every N seconds (debug)")
	flag.Parse()
	propID = *id
	if *prof != "" {
		f, _ := os.Create(*prof)
		pprof.StartCPUProfile(f)
		defer pprof.StopCPUProfile()
	}
	debug.SetGCPercent(800)
	debug.SetMemoryLimit(6 << 30) // soft limit: the collector works harder instead of letting the heap reach 9x the live data
	os.Setenv("PATH", "/opt/veriftools/go1.27.0/bin:"+os.Getenv("PATH"))
	if *qto == 0 {
		*qto = 60000
		if *tier == "thorough" {
			*qto = 300000
		}
	}
	seed := 0
	if s := os.Getenv("VERIF_SEED"); s != "" {
		seed, _ = strconv.Atoi(s)
	}

	if *replay != "" {
		os.Exit(doReplay(*replay, *repo, *solver))
	}

	t0 := time.Now()
	files := flag.Args()
	sort.Strings(files)
	ev := newEvidence(*id, *tier, seed)
	exit := 0
	knownList := loadKnown(*known)
	outDir := filepath.Join(*out, *id)
	os.MkdirAll(outDir, 0o755)
	ncex := 0
	knownPrinted := map[string]bool{}
	for _, f := range files {
		h, err := parseHarness(f)
		if err != nil {
			fmt.Println("HARNESS ERROR", err)
			ev.inconclusive("harness error: " + err.Error())
			exit = max(exit, 2)
			continue
		}
		l, err := loadHarness(h, *tier, *repo)
		if err != nil {
			fmt.Println("LOAD ERROR", f, err)
			ev.inconclusive("load error " + filepath.Base(f) + ": " + err.Error())
			exit = max(exit, 2)
			continue
		}
		ev.LoadS += l.load.Seconds()
		for _, a := range h.Assumes {
			ev.Assumptions = append(ev.Assumptions, filepath.Base(f)+": "+a)
		}
		if ps := h.Params; len(ps) > 0 {
			for name, kv := range ps {
				if v, ok := tierVal(kv, *tier); ok {
					ev.Bounds[filepath.Base(f)+":"+name] = v
				}
			}
		}
		ev.Bounds[filepath.Base(f)+":loop-unwinding-limit"] = h.Unwind
		if len(h.Census) >= 2 {
			allowFile := filepath.Join(filepath.Dir(h.File), h.Census[1])
			allow, aerr := loadAllow(allowFile)
			if aerr != nil {
				fmt.Println("CENSUS ERROR", aerr)
				ev.inconclusive("census: " + aerr.Error())
				exit = max(exit, 2)
			} else {
				t1 := time.Now()
				sites := runCensus(l.cfg.prog, h.Census[0], h.Census[2:])
				bad, fns, stale := censusReport(sites, allow)
				status := "ok"
				for i, b := range bad {
					ncex++
					path := filepath.Join(outDir, fmt.Sprintf("cex-%03d.json", ncex))
					writeJSON(path, map[string]any{"property": *id, "harness": f, "tier": *tier, "census_site": b.String()})
					if i < 5 {
						fmt.Printf("VIOLATION property=%s replay=%s\n  census: %s is not on the allow-list %s\n", *id, path, b.String(), h.Census[1])
					}
					ev.Violations++
					status = "violation"
				}
				for _, st := range stale {
					ev.Notes = append(ev.Notes, "census: allow-listed function no longer writes to a physical backend (stale entry): "+st)
				}
				ev.Entries = append(ev.Entries, map[string]any{"harness": filepath.Base(f), "entry": "census:" + h.Census[0], "status": status,
					"paths": 0, "obligations": len(sites), "discharged": len(sites) - len(bad), "call_sites": len(sites), "functions_with_physical_writes": fns, "wall_s": round3(time.Since(t1).Seconds()),
					"obligation_labels": []string{"every function that writes to a physical.Backend outside the barrier is on the allow-list"}})
				ev.Obligations += len(sites)
				ev.Discharged += len(sites) - len(bad)
				fmt.Printf("== %s/census(%s): %s call-sites=%d functions=%d not-allowed=%d stale=%d\n", filepath.Base(f), h.Census[0], status, len(sites), len(fns), len(bad), len(stale))
			}
		}
		reached := map[string]int{}
		for _, e := range h.Entries {
			if !e.Tiers[*tier] || (*only != "" && e.Name != *only) {
				continue
			}
			r := runEntry(l, e.Name, *workers, *tier, *solver, *qto)
			sh := r.Sh
			status := "ok"
			for _, m := range r.Engine {
				fmt.Println("ENGINE ERROR", e.Name, m)
				ev.inconclusive(e.Name + ": " + m)
				status = "inconclusive"
				exit = max(exit, 2)
			}
			for k, n := range sh.Aborted {
				fmt.Printf("INCONCLUSIVE %s: %s (×%d)\n", e.Name, k, n)
				ev.inconclusive(fmt.Sprintf("%s: %s (×%d)", e.Name, k, n))
				status = "inconclusive"
				exit = max(exit, 2)
			}
			if sh.Unknown > 0 {
				status = "inconclusive"
				exit = max(exit, 2)
			}
			for k, n := range sh.Notes {
				fmt.Printf("NOTE %s: %s (×%d)\n", e.Name, k, n)
				ev.Notes = append(ev.Notes, fmt.Sprintf("%s: %s (×%d)", e.Name, k, n))
				if strings.HasPrefix(k, "assertion query inconclusive") {
					ev.inconclusive(e.Name + ": " + k)
				}
			}
			for k, n := range sh.Reached {
				reached[k] += n
			}
			// counterexamples: confirm by concrete replay, then classify
			for _, c := range sh.Cexs {
				failed, errs := replayCex(l, c, *solver)
				c.Confirmed = failed == c.Label && len(errs) == 0
				if !c.Confirmed {
					c.Note = fmt.Sprintf("concrete replay did not reproduce: failed=%q errs=%v", failed, errs)
					fmt.Printf("INCONCLUSIVE %s: counterexample for %q not reproduced by concrete replay (%s)\n", e.Name, c.Label, c.Note)
					ev.inconclusive(e.Name + ": unreproduced counterexample for " + c.Label)
					exit = max(exit, 2)
					status = "inconclusive"
				}
				ncex++
				path := filepath.Join(outDir, fmt.Sprintf("cex-%03d.json", ncex))
				writeJSON(path, map[string]any{"property": *id, "harness": f, "tier": *tier, "cex": c})
				if !c.Confirmed {
					continue
				}
				key := cexKey(c)
				isKnown := false
				for _, k := range knownList {
					if k.Prop == *id && k.Key == key {
						isKnown = true
						if !knownPrinted[key] { // one line per listed finding, however many counterexamples show it
							knownPrinted[key] = true
							fmt.Printf("KNOWN-FINDING: property=%s %s [%s] replay=%s\n", *id, k.Text, key, path)
							ev.Known = append(ev.Known, key)
						}
					}
				}
				if !isKnown {
					fmt.Printf("VIOLATION property=%s replay=%s\n", *id, path)
					fmt.Printf("  entry=%s obligation=%q key=%s\n  model=%s\n", c.Entry, c.Label, key, shortModel(c.Model))
					for _, tl := range c.Trace {
						fmt.Println("   trace:", tl)
					}
					ev.Violations++
					exit = max(exit, 1)
					if exit == 2 {
						exit = 1
					}
					status = "violation"
				}
			}
			ev.addEntry(filepath.Base(f), r, status)
			if *verbose || true {
				fmt.Printf("== %s/%s: %s paths=%d infeasible=%d obligations=%d discharged=%d (syntactic %d) unknown=%d cex=%d queries=%d solver=%.1fs wall=%.1fs instr=%d\n",
					filepath.Base(f), e.Name, status, sh.Paths, sh.Infeas, sh.Asserts, sh.Discharge, sh.Trivial, sh.Unknown, len(sh.Cexs), sh.SolverQ, sh.SolverT.Seconds(), r.Wall.Seconds(), sh.Instr)
			}
			if os.Getenv("VX_DUMP") != "" {
				os.MkdirAll(filepath.Join(outDir, "q"), 0o755)
				for i, sc := range sh.Scripts {
					os.WriteFile(filepath.Join(outDir, "q", fmt.Sprintf("%s-%04d.smt2", e.Name, i)), []byte(sc), 0o644)
				}
			}
			// cross-solver check
			if *cross && *tier == "thorough" && len(sh.Scripts) > 0 {
				n := len(sh.Scripts)
				if n > 60 {
					n = 60
				}
				agree, dis, unk := crossCheck(sh.Scripts[:n], *tier)
				ev.CrossAgree += agree
				ev.CrossDisagree += dis
				ev.CrossUnknown += unk
				if dis > 0 {
					fmt.Printf("INCONCLUSIVE %s: %d solver disagreements\n", e.Name, dis)
					ev.inconclusive(fmt.Sprintf("%s: %d solver disagreements", e.Name, dis))
					exit = max(exit, 2)
				}
			}
		}
		if *only == "" {
			for _, lit := range h.ReachLits {
				if reached[lit] == 0 && !h.ReachOpt[lit] {
					// only complain when an entry that could reach it ran in this tier
					fmt.Printf("INCONCLUSIVE %s: reach witness %q never reached (vacuity guard)\n", filepath.Base(f), lit)
					ev.inconclusive("reach witness not reached: " + lit)
					exit = max(exit, 2)
				} else if reached[lit] > 0 {
					ev.ReachWitnesses[lit] += reached[lit]
				}
			}
		}
	}
	ev.finish(time.Since(t0))
	if ev.Violations > 0 {
		exit = 1 // a confirmed violation dominates inconclusive parts of the run
	}
	if *evid != "" {
		ev.write(*evid, exit)
	}
	fmt.Printf("RESULT property=%s tier=%s exit=%d wall=%.1fs obligations=%d discharged=%d paths=%d violations=%d inconclusive=%d\n", *id, *tier, exit, time.Since(t0).Seconds(), ev.Obligations, ev.Discharged, ev.Paths, ev.Violations, len(ev.Inconclusive))
	pprof.StopCPUProfile()
	os.Exit(exit)
}

func shortModel(m map[string]string) string {
	keys := make([]string, 0, len(m))
	for k := range m {
		keys = append(keys, k)
	}
	sort.Slice(keys, func(i, j int) bool {
		ni, _ := strconv.Atoi(keys[i][strings.LastIndex(keys[i], "#")+1:])
		nj, _ := strconv.Atoi(keys[j][strings.LastIndex(keys[j], "#")+1:])
		return ni < nj
	})
	var sb strings.Builder
	for i, k := range keys {
		if i >= 24 {
			fmt.Fprintf(&sb, " ... (%d more in the replay file)", len(keys)-i)
			break
		}
		fmt.Fprintf(&sb, " %s=%s", k, m[k])
	}
	return sb.String()
}

func writeJSON(path string, v any) {
	b, _ := json.MarshalIndent(v, "", " ")
	os.WriteFile(path, b, 0o644)
}

func doReplay(path, repo, solver string) int {
	b, err := os.ReadFile(path)
	if err != nil {
		fmt.Println("cannot read", path, err)
		return 2
	}
	var rec struct {
		Property string `json:"property"`
		Harness  string `json:"harness"`
		Tier     string `json:"tier"`
		Cex      *Cex   `json:"cex"`
		Census   string `json:"census_site"`
	}
	if err := json.Unmarshal(b, &rec); err != nil {
		fmt.Println("bad replay file", err)
		return 2
	}
	propID = rec.Property
	h, err := parseHarness(rec.Harness)
	if err != nil {
		fmt.Println(err)
		return 2
	}
	l, err := loadHarness(h, rec.Tier, repo)
	if err != nil {
		fmt.Println(err)
		return 2
	}
	if rec.Census != "" { // a census finding: does the current tree still contain that unlisted call site?
		if len(h.Census) < 2 {
			fmt.Println("harness has no census directive")
			return 2
		}
		allow, aerr := loadAllow(filepath.Join(filepath.Dir(h.File), h.Census[1]))
		if aerr != nil {
			fmt.Println(aerr)
			return 2
		}
		bad, _, _ := censusReport(runCensus(l.cfg.prog, h.Census[0], h.Census[2:]), allow)
		want := rec.Census[:strings.Index(rec.Census+" calls ", " calls ")]
		for _, s := range bad {
			if s.Fn == want {
				fmt.Printf("VIOLATION property=%s replay=%s\n  census: %s\n", rec.Property, path, s.String())
				return 1
			}
		}
		fmt.Println("replay: the unlisted physical write is not present on the current tree")
		return 0
	}
	failed, errs := replayCex(l, rec.Cex, solver)
	fmt.Printf("replay of %s entry=%s inputs=%s\n", rec.Property, rec.Cex.Entry, shortModel(rec.Cex.Model))
	if len(errs) > 0 {
		fmt.Println("replay errors:", errs)
		return 2
	}
	if failed != "" {
		fmt.Printf("VIOLATION property=%s replay=%s\n  failed obligation: %s\n", rec.Property, path, failed)
		return 1
	}
	fmt.Println("replay: no obligation failed on the current tree")
	return 0
}

func crossCheck(scripts []string, tier string) (agree, disagree, unknown int) {
	type alt struct {
		bin  string
		args []string
	}
	alts := []alt{{"cvc5", []string{"--incremental", "--lang=smt2", "--tlimit-per=20000"}}}
	if tier == "thorough" {
		alts = append(alts, alt{"z3-new", []string{"-in", "-t:20000"}})
	}
	// primary verdicts are recomputed here one-shot with z3 for an apples-to-apples comparison
	var sb strings.Builder
	for _, s := range scripts {
		sb.WriteString("(push 1)\n")
		sb.WriteString(s)
		sb.WriteString("(pop 1)\n")
	}
	batch := sb.String()
	verdicts := func(bin string, args []string) []string {
		outc := make(chan []string, 1)
		go func() {
			var res []string
			cmdOut := runBatch(bin, args, batch)
			for _, l := range strings.Split(cmdOut, "\n") {
				l = strings.TrimSpace(l)
				if l == "sat" || l == "unsat" || l == "unknown" || strings.HasPrefix(l, "(error") {
					res = append(res, l)
				}
			}
			outc <- res
		}()
		select {
		case r := <-outc:
			return r
		case <-time.After(10 * time.Minute):
			return nil
		}
	}
	base := verdicts("z3", []string{"-in", "-t:20000"})
	for _, a := range alts {
		other := verdicts(a.bin, a.args)
		if len(other) != len(base) {
			unknown += len(scripts)
			continue
		}
		for i := range base {
			switch {
			case base[i] == other[i] && (base[i] == "sat" || base[i] == "unsat"):
				agree++
			case (base[i] == "sat" && other[i] == "unsat") || (base[i] == "unsat" && other[i] == "sat"):
				disagree++
			default:
				unknown++
			}
		}
	}
	return
}
