package main

import (
	"context"
	"fmt"
	"os/exec"
	"sort"
	"strings"
	"time"
)

type Evidence struct {
	ID             string
	Tier           string
	Seed           int
	Entries        []map[string]any
	Obligations    int
	Discharged     int
	Syntactic      int
	Paths          int
	Nontrivial     int
	Queries        map[string]int
	SolverS        float64
	LoadS          float64
	Funcs          map[string]int64
	Intrinsics     map[string]int
	Redirects      map[string]int
	Samples        []any
	Inconclusive   []string
	Notes          []string
	Known          []string
	Violations     int
	CrossAgree     int
	CrossDisagree  int
	CrossUnknown   int
	ReachWitnesses map[string]int
	Bounds         map[string]any
	Assumptions    []string
	Wall           float64
	Instr          int64
}

func newEvidence(id, tier string, seed int) *Evidence {
	return &Evidence{ID: id, Tier: tier, Seed: seed, Queries: map[string]int{}, Funcs: map[string]int64{}, Intrinsics: map[string]int{}, Redirects: map[string]int{}, ReachWitnesses: map[string]int{}, Bounds: map[string]any{}}
}

func (e *Evidence) inconclusive(s string) {
	if len(e.Inconclusive) < 50 {
		e.Inconclusive = append(e.Inconclusive, s)
	}
}

func (e *Evidence) addEntry(file string, r *EntryResult, status string) {
	sh := r.Sh
	labels := []string{}
	for l := range sh.Labels {
		labels = append(labels, l)
	}
	sort.Strings(labels)
	e.Entries = append(e.Entries, map[string]any{
		"harness": file, "entry": r.Entry, "status": status, "paths": sh.Paths, "infeasible_prefixes": sh.Infeas,
		"obligations": sh.Asserts, "discharged": sh.Discharge, "closed_syntactically": sh.Trivial,
		"solver_queries": sh.SolverQ, "solver_s": round3(sh.SolverT.Seconds()), "wall_s": round3(r.Wall.Seconds()),
		"ssa_instructions_executed": sh.Instr, "obligation_labels": labels, "max_path_condition_conjuncts": sh.MaxPC,
	})
	e.Obligations += sh.Asserts
	e.Discharged += sh.Discharge
	e.Syntactic += sh.Trivial
	e.Paths += sh.Paths
	e.Nontrivial += len(sh.Nontriv)
	e.Queries["sat"] += sh.SolverSat
	e.Queries["unsat"] += sh.SolverUns
	e.Queries["unknown"] += sh.SolverUnk
	e.SolverS += sh.SolverT.Seconds()
	e.Instr += sh.Instr
	for k, v := range sh.Funcs {
		e.Funcs[k] += v
	}
	for k, v := range sh.Intrinsic {
		e.Intrinsics[k] += v
	}
	for k, v := range sh.Redirects {
		e.Redirects[k] += v
	}
	for _, s := range sh.Samples {
		if len(e.Samples) < 6 {
			e.Samples = append(e.Samples, s)
		}
	}
	for _, c := range sh.Cexs {
		if len(e.Samples) < 10 {
			e.Samples = append(e.Samples, map[string]any{"entry": c.Entry, "obligation": c.Label, "verdict": "sat (counterexample)", "model": c.Model, "confirmed_by_concrete_replay": c.Confirmed})
		}
	}
}

func round3(f float64) float64 { return float64(int64(f*1000)) / 1000 }

func (e *Evidence) finish(d time.Duration) { e.Wall = d.Seconds() }

func (e *Evidence) write(path string, exit int) {
	// functions encoded: those that are not harness code (harness functions start with vx/Vx)
	fns := map[string]int64{}
	for k, v := range e.Funcs {
		fns[k] = v
	}
	verdict := "all obligations discharged within the stated bounds"
	switch exit {
	case 1:
		verdict = "violation found (see VIOLATION line and replay file)"
	case 2:
		verdict = "inconclusive: a bound was hit, a construct is unsupported, or a solver query did not finish; NOT a pass"
	}
	if len(e.Samples) == 0 {
		e.Samples = append(e.Samples, map[string]any{"note": "no solver-level obligation was generated on this run"})
	}
	cov := map[string]any{
		"explanation":                "bounded symbolic execution of the real Go code (go/ssa built from /repo's working tree on this run) with SMT (z3 bit-vectors): every path through the listed functions within the bounds is explored, each assertion on each path is a query path-condition AND NOT(assertion); unsat = holds for every value of the symbolic inputs on that path",
		"verdict":                    verdict,
		"functions_encoded":          fns,
		"obligations":                e.Obligations,
		"discharged":                 e.Discharged,
		"closed_syntactically":       e.Syntactic,
		"evaluations":                e.Paths,
		"distinct_nontrivial":        e.Nontrivial,
		"rule":                       "one evaluation = one explored execution path (a distinct sequence of branch/concretisation decisions); non-trivial = the path made at least one decision or solver-checked obligation that depended on a symbolic input; distinct = distinct decision sequence",
		"samples":                    e.Samples,
		"queries":                    e.Queries,
		"solver_time_s":              round3(e.SolverS),
		"package_load_s":             round3(e.LoadS),
		"ssa_instructions_executed":  e.Instr,
		"entries":                    e.Entries,
		"reach_witnesses":            e.ReachWitnesses,
		"intrinsics_used":            e.Intrinsics,
		"redirects_used":             e.Redirects,
		"cross_solver":               map[string]int{"agree": e.CrossAgree, "disagree": e.CrossDisagree, "not_compared": e.CrossUnknown},
		"inconclusive":               e.Inconclusive,
		"notes":                      e.Notes,
		"known_findings_encountered": e.Known,
		"exhaustive":                 false,
		"bounds":                     e.Bounds,
	}
	// assumptions: everything the verdict rests on besides the code under test
	as := []string{"trusted: the gosx SSA interpreter, term simplifier and SMT encoding (validated by mutants and concrete replay), z3 4.8.12"}
	as = append(as, e.Assumptions...)
	var rk []string
	for k := range e.Redirects {
		rk = append(rk, k)
	}
	sort.Strings(rk)
	for _, k := range rk {
		as = append(as, "replaced by a harness model or stub (its real body is not part of the claim): "+k)
	}
	var ik []string
	for k := range e.Intrinsics {
		if strings.HasPrefix(k, "noop:") {
			ik = append(ik, k)
		}
	}
	sort.Strings(ik)
	for _, k := range ik {
		as = append(as, "dropped (returns zero values): "+strings.TrimPrefix(k, "noop:"))
	}
	e.Assumptions = as
	doc := map[string]any{
		"property_id": e.ID, "tier": e.Tier, "seed": e.Seed, "level": "other",
		"coverage": cov, "assumptions": e.Assumptions, "wall_s": round3(e.Wall), "violations": e.Violations,
	}
	if e.Assumptions == nil {
		doc["assumptions"] = []string{}
	}
	writeJSON(path, doc)
}

func runBatch(bin string, args []string, script string) string {
	cmd := exec.Command(bin, args...)
	cmd.Stdin = strings.NewReader(script)
	out, err := cmd.CombinedOutput()
	if err != nil && len(out) == 0 {
		return fmt.Sprintf("(error \"%v\")", err)
	}
	return string(out)
}

// secondOpinion runs a stand-alone obligation script through fresh solver processes (z3 with the bit-blasting tactic,
// z3 5.x, cvc5) with six times the per-query budget, in parallel; returns the name of the first that answers unsat.
func secondOpinion(script string, timeoutMs int) string {
	budget := 6 * timeoutMs
	if budget < 60000 {
		budget = 60000
	}
	type cand struct {
		name string
		bin  string
		args []string
		text string
	}
	tactic := strings.Replace(script, "(check-sat)\n", "(check-sat-using (then simplify solve-eqs bit-blast sat))\n", 1)
	cands := []cand{
		{"z3 bit-blast", "z3", []string{"-in", fmt.Sprintf("-t:%d", budget)}, tactic},
		{"z3-new", "z3-new", []string{"-in", fmt.Sprintf("-t:%d", budget)}, script},
		{"cvc5", "cvc5", []string{"--lang=smt2", fmt.Sprintf("--tlimit=%d", budget)}, "(set-logic ALL)\n" + script},
	}
	res := make(chan string, len(cands))
	for _, c := range cands {
		go func(c cand) {
			ctx, cancel := context.WithTimeout(context.Background(), time.Duration(budget+30000)*time.Millisecond)
			defer cancel()
			cmd := exec.CommandContext(ctx, c.bin, c.args...)
			cmd.Stdin = strings.NewReader(c.text)
			out, _ := cmd.CombinedOutput()
			verdict := ""
			for _, l := range strings.Split(string(out), "\n") {
				l = strings.TrimSpace(l)
				if strings.HasPrefix(l, "(error") {
					verdict = "error"
					break
				}
				if l == "unsat" || l == "sat" || l == "unknown" || l == "timeout" {
					verdict = l
				}
			}
			if verdict == "unsat" {
				res <- c.name
			} else {
				res <- ""
			}
		}(c)
	}
	for range cands {
		if who := <-res; who != "" {
			return who
		}
	}
	return ""
}
