package main

import (
	"fmt"
	"go/constant"
	"go/token"
	"go/types"
	"strings"
	"sync"
	"unsafe"

	"golang.org/x/tools/go/ssa"
)

// Program-wide configuration shared by all workers (read-only after load).
type Config struct {
	prog      *ssa.Program
	target    *ssa.Package
	redirect  map[*ssa.Function]*ssa.Function
	redirName map[string]string // ssa name → harness function name
	noop      []string          // exact names or prefixes ending in *
	unwind    int
	maxInstr  int64
	concLimit int
	fnInfo    sync.Map // *ssa.Function → *fnInfo
	tier      string
	goMode    string // "unsupported" | "ignore" | "inline"
	params    map[string]int64
}

type fnInfo struct {
	slots     map[uintptr]int32 // ssa.Value (params, value-instructions) → register slot
	nslots    int
	name      string
	redirect  *ssa.Function
	noop      bool
	intrinsic intrinsicFn
}

type intrinsicFn func(in *Interp, fn *ssa.Function, args []Value) Value

type frame struct {
	fn        *ssa.Function
	fi        *fnInfo
	locals    []Value
	bind      []Value
	defers    []func()
	caller    *frame
	panicking *goPanic
	recovered bool
	result    Value
	visits    []int32
}

func valKey(v ssa.Value) uintptr { return (*[2]uintptr)(unsafe.Pointer(&v))[1] }

func (fi *fnInfo) ensureSlots(fn *ssa.Function) {
	if fi.slots != nil {
		return
	}
	m := map[uintptr]int32{}
	n := int32(0)
	for _, p := range fn.Params {
		m[valKey(p)] = n
		n++
	}
	for _, b := range fn.Blocks {
		for _, ins := range b.Instrs {
			if v, ok := ins.(ssa.Value); ok {
				m[valKey(v)] = n
				n++
			}
		}
	}
	fi.nslots = int(n)
	fi.slots = m
}

func (fr *frame) set(v ssa.Value, val Value) { fr.locals[fr.fi.slots[valKey(v)]] = val }

type lockState struct {
	writer  bool
	readers int
	ownerW  *thread         // logical thread holding the write lock (nil = the only thread)
	ownerR  map[*thread]int // read holds per logical thread
}

type Interp struct {
	cfg        *Config
	prog       *ssa.Program
	ex         *Explorer
	tb         *TB
	Instr      int64
	Funcs      map[string]int64
	globals    map[*ssa.Global]*Cell
	stored     map[*ssa.Global]bool
	poisoned   map[*ssa.Global]string
	pkgInit    map[*ssa.Package]string // "" = running/ok, else reason of incomplete init
	locks      map[*Cell]*lockState
	onces      map[*Cell]bool
	syncMaps   map[*Cell]*MapV
	atomics    map[*Cell]Value
	depth      int
	initMode   int
	cur        *frame
	intrUsed   map[string]int
	redirUsed  map[string]int
	nowCount   int
	lastNow    *Term
	unixMemo   map[int]*Term // id of the seconds variable handed out by (Time).Unix → the instant it came from
	constCache map[*ssa.Const]Value
	boxes      []Value
	threads    []*thread
	thr        *thread
	mainThr    *thread
}

func NewInterp(cfg *Config, ex *Explorer) *Interp {
	in := &Interp{cfg: cfg, prog: cfg.prog, ex: ex, tb: ex.tb, Funcs: map[string]int64{}, intrUsed: map[string]int{}, redirUsed: map[string]int{}, constCache: map[*ssa.Const]Value{}}
	in.resetPath()
	return in
}

func (in *Interp) resetPath() {
	in.globals = map[*ssa.Global]*Cell{}
	in.stored = map[*ssa.Global]bool{}
	in.poisoned = map[*ssa.Global]string{}
	in.pkgInit = map[*ssa.Package]string{}
	in.locks = map[*Cell]*lockState{}
	in.onces = map[*Cell]bool{}
	in.syncMaps = map[*Cell]*MapV{}
	in.atomics = map[*Cell]Value{}
	in.depth = 0
	in.cur = nil
	in.nowCount = 0
	in.lastNow = nil
	in.unixMemo = map[int]*Term{}
	in.boxes = nil
	in.initThreads()
}

func unsupported(format string, a ...any) {
	panic(pathAbort{kind: "unsupported", reason: fmt.Sprintf(format, a...)})
}

func (in *Interp) goPanicStr(msg string) {
	panic(goPanic{&IfaceV{typ: nil, v: &NativeErr{msg: msg, runtime: true}}})
}

func (in *Interp) info(fn *ssa.Function) *fnInfo {
	if v, ok := in.cfg.fnInfo.Load(fn); ok {
		return v.(*fnInfo)
	}
	fi := &fnInfo{name: fn.String()}
	if r, ok := in.cfg.redirect[fn]; ok {
		fi.redirect = r
	} else if o := fn.Origin(); o != nil {
		if r, ok := in.cfg.redirect[o]; ok {
			fi.redirect = r
		}
	}
	for _, n := range in.cfg.noop {
		if n == fi.name || (strings.HasSuffix(n, "*") && strings.HasPrefix(fi.name, n[:len(n)-1])) {
			fi.noop = true
		}
	}
	if f, ok := intrinsics[fi.name]; ok {
		fi.intrinsic = f
	} else if o := fn.Origin(); o != nil {
		if f, ok := intrinsics[o.String()]; ok {
			fi.intrinsic = f
		}
	}
	if fi.intrinsic == nil && strings.HasPrefix(fn.Name(), "vx") {
		if f, ok := vxIntrinsics[fn.Name()]; ok {
			fi.intrinsic = f
		}
	}
	in.cfg.fnInfo.Store(fn, fi)
	return fi
}

func (in *Interp) constVal(c *ssa.Const) Value {
	if v, ok := in.constCache[c]; ok {
		return v
	}
	v := in.constVal1(c)
	switch v.(type) {
	case *Term, string, float64:
		in.constCache[c] = v // immutable scalar: cacheable across paths (constant terms are persistent)
	}
	return v
}

func (in *Interp) constVal1(c *ssa.Const) Value {
	if c.Value == nil {
		return in.zero(c.Type())
	}
	t := c.Type()
	if w, _, ok := isBV(t); ok {
		if w == 0 {
			return in.tb.BoolC(constant.BoolVal(c.Value))
		}
		iv := constant.ToInt(c.Value)
		if i, exact := constant.Int64Val(iv); exact {
			return in.tb.Const(w, uint64(i))
		}
		u, _ := constant.Uint64Val(iv)
		return in.tb.Const(w, u)
	}
	if isFloat(t) {
		f, _ := constant.Float64Val(c.Value)
		return f
	}
	if c.Value.Kind() == constant.String {
		return constant.StringVal(c.Value)
	}
	if tp, ok := t.(*types.TypeParam); ok {
		_ = tp
	}
	unsupported("constant %s", c.String())
	return nil
}

func (in *Interp) get(fr *frame, v ssa.Value) Value {
	switch x := v.(type) {
	case *ssa.Const:
		return in.constVal(x)
	case *ssa.Function:
		return x
	case *ssa.Builtin:
		return x
	case *ssa.FreeVar:
		for i, fv := range fr.fn.FreeVars {
			if fv == x {
				return fr.bind[i]
			}
		}
	case *ssa.Global:
		return in.global(x)
	}
	slot, ok := fr.fi.slots[valKey(v)]
	if !ok {
		panic("no slot for " + v.Name() + " in " + fr.fn.String())
	}
	return fr.locals[slot]
}

// ---------- globals and package init ----------

func (in *Interp) global(g *ssa.Global) *Cell {
	if g.Pkg != nil {
		in.ensureInit(g.Pkg)
		// A package-level variable may only be read when its initialiser was really executed: packages loaded
		// from export data have no init body, and an init that could not be run to completion leaves variables
		// in an unknown state. Silently reading a zero value there would be unsound.
		if in.initMode == 0 && !in.stored[g] {
			if why, bad := in.pkgInit[g.Pkg]; bad && why != "" {
				unsupported("package-level variable %s read, but the initialiser of package %s was not executed (%s); add the package to //vx:bodies", g.Name(), g.Pkg.Pkg.Path(), why)
			}
		}
		if why, bad := in.poisoned[g]; bad && in.initMode == 0 {
			unsupported("package-level variable %s has an initialiser the engine cannot evaluate (%s)", g.Name(), why)
		}
	}
	if c, ok := in.globals[g]; ok {
		return c
	}
	c := &Cell{in.zero(g.Type().Underlying().(*types.Pointer).Elem())}
	in.globals[g] = c
	return c
}

type poison struct{ why string }

func (in *Interp) ensureInit(pkg *ssa.Package) {
	if _, ok := in.pkgInit[pkg]; ok {
		return
	}
	in.pkgInit[pkg] = ""
	// allocate all globals first
	for _, m := range pkg.Members {
		if g, ok := m.(*ssa.Global); ok {
			if _, ok := in.globals[g]; !ok {
				in.globals[g] = &Cell{in.zero(g.Type().Underlying().(*types.Pointer).Elem())}
			}
		}
	}
	initFn := pkg.Func("init")
	if initFn == nil || initFn.Blocks == nil {
		in.pkgInit[pkg] = "no source loaded"
		return
	}
	in.initMode++
	saved := in.cur
	defer func() {
		in.initMode--
		in.cur = saved
		if r := recover(); r != nil {
			if pa, ok := r.(pathAbort); ok && pa.kind != "unsupported" && pa.kind != "bound" {
				panic(r)
			}
			in.pkgInit[pkg] = fmt.Sprint(r)
		}
	}()
	ifi := in.info(initFn)
	ifi.ensureSlotsLocked(initFn)
	fr := &frame{fn: initFn, fi: ifi, locals: make([]Value, ifi.nslots), visits: make([]int32, len(initFn.Blocks))}
	in.run(fr, initFn.Blocks[0], nil)
}

// ---------- calls ----------

func (in *Interp) Call(fn *ssa.Function, args []Value, bind []Value) (ret Value) {
	fi := in.info(fn)
	if fi.redirect != nil {
		in.redirUsed[fi.name]++
		fn = fi.redirect
		fi = in.info(fn)
	}
	if fi.intrinsic != nil {
		in.intrUsed[fi.name]++
		return fi.intrinsic(in, fn, args)
	}
	if fi.noop {
		in.intrUsed["noop:"+fi.name]++
		return in.zeroResults(fn.Signature)
	}
	if in.initMode > 0 && fn.Name() == "init" && fn.Signature.Recv() == nil && fn.Signature.Params().Len() == 0 && fn.Synthetic != "" {
		return nil // other packages' init: run lazily when their globals are touched
	}
	if fn.Blocks == nil {
		unsupported("no body for %s", fi.name)
	}
	in.depth++
	if in.depth > 400 {
		in.depth--
		panic(pathAbort{kind: "bound", reason: "call depth exceeded in " + fi.name})
	}
	in.Funcs[fi.name]++
	fi.ensureSlotsLocked(fn)
	fr := &frame{fn: fn, fi: fi, locals: make([]Value, fi.nslots), bind: bind, caller: in.cur, visits: make([]int32, len(fn.Blocks))}
	copy(fr.locals, args[:len(fn.Params)])
	saved := in.cur
	in.cur = fr
	defer func() {
		in.cur = saved
		in.depth--
		r := recover()
		if r == nil && len(fr.defers) == 0 {
			return
		}
		if r != nil {
			gp, ok := r.(goPanic)
			if !ok {
				panic(r) // engine-level abort: do not run Go defers
			}
			fr.panicking = &gp
		}
		in.cur = fr
		in.runDefers(fr)
		in.cur = saved
		if fr.panicking != nil {
			panic(*fr.panicking)
		}
		if fr.recovered {
			// resume at the Recover block, which returns the named results
			if fn.Recover != nil {
				in.depth++
				in.cur = fr
				ret = in.run(fr, fn.Recover, nil)
				in.cur = saved
				in.depth--
			} else {
				ret = in.zeroResults(fn.Signature)
			}
		}
	}()
	ret = in.run(fr, fn.Blocks[0], nil)
	return ret
}

func (in *Interp) zeroResults(sig *types.Signature) Value {
	switch sig.Results().Len() {
	case 0:
		return nil
	case 1:
		return in.zero(sig.Results().At(0).Type())
	}
	return in.zero(sig.Results())
}

func (in *Interp) runDefers(fr *frame) {
	for len(fr.defers) > 0 {
		d := fr.defers[len(fr.defers)-1]
		fr.defers = fr.defers[:len(fr.defers)-1]
		func() {
			defer func() {
				if r := recover(); r != nil {
					gp, ok := r.(goPanic)
					if !ok {
						panic(r)
					}
					fr.panicking = &gp // a new panic replaces the current one
					fr.recovered = false
				}
			}()
			d()
		}()
	}
}

func (in *Interp) prepCall(fr *frame, c *ssa.CallCommon) ([]Value, Value) {
	args := make([]Value, 0, len(c.Args)+1)
	if c.IsInvoke() {
		recv, _ := in.get(fr, c.Value).(*IfaceV)
		if recv == nil {
			in.goPanicStr("invalid memory address or nil pointer dereference (nil interface method call " + c.Method.Name() + ")")
		}
		if recv.typ == nil {
			args = append(args, recv.v)
			for _, a := range c.Args {
				args = append(args, in.get(fr, a))
			}
			return args, &nativeMethod{name: c.Method.Name()}
		}
		m := in.lookupMethod(recv.typ, c.Method.Pkg(), c.Method.Name())
		if m == nil {
			unsupported("method %s not found on %s", c.Method.Name(), recv.typ)
		}
		args = append(args, recv.v)
		for _, a := range c.Args {
			args = append(args, in.get(fr, a))
		}
		return args, m
	}
	for _, a := range c.Args {
		args = append(args, in.get(fr, a))
	}
	return args, in.get(fr, c.Value)
}

type nativeMethod struct{ name string }

func (in *Interp) doCall(callee Value, args []Value) Value {
	switch f := callee.(type) {
	case *ssa.Function:
		if f == nil {
			in.goPanicStr("call of nil function")
		}
		return in.Call(f, args, nil)
	case *Closure:
		if f == nil {
			in.goPanicStr("call of nil function")
		}
		return in.Call(f.fn, args, f.bind)
	case *ssa.Builtin:
		return in.builtin(f, args)
	case *nativeMethod:
		return in.nativeInvoke(f.name, args)
	case nil:
		in.goPanicStr("call of nil function")
	}
	panic(fmt.Sprintf("callee %T", callee))
}

func (in *Interp) nativeInvoke(name string, args []Value) Value {
	switch o := args[0].(type) {
	case *NativeErr:
		switch name {
		case "Error":
			return o.msg
		case "Unwrap":
			if len(o.wrapped) == 0 {
				return (*IfaceV)(nil)
			}
			return o.wrapped[0]
		case "Is":
			return in.tb.BoolC(false)
		}
	case *NativeObj:
		if f, ok := nativeObjMethods[o.kind+"."+name]; ok {
			return f(in, o, args[1:])
		}
	}
	unsupported("native method %s on %T", name, args[0])
	return nil
}

// ---------- main loop ----------

func (in *Interp) run(fr *frame, b *ssa.BasicBlock, prev *ssa.BasicBlock) Value {
	for {
		fr.visits[b.Index]++
		if int(fr.visits[b.Index]) > in.cfg.unwind {
			panic(pathAbort{kind: "bound", reason: fmt.Sprintf("unwinding bound %d exceeded in %s", in.cfg.unwind, fr.fn.String())})
		}
		var next *ssa.BasicBlock
		nphi := 0
		if prev != nil {
			var phiVals []Value
			for _, ins := range b.Instrs {
				phi, ok := ins.(*ssa.Phi)
				if !ok {
					break
				}
				for i, p := range b.Preds {
					if p == prev {
						phiVals = append(phiVals, in.get(fr, phi.Edges[i]))
						break
					}
				}
				nphi++
			}
			for i := 0; i < nphi; i++ {
				fr.set(b.Instrs[i].(*ssa.Phi), phiVals[i])
			}
		}
		for _, ins := range b.Instrs[nphi:] {
			in.Instr++
			in.ex.steps++
			if in.ex.steps > in.cfg.maxInstr {
				panic(pathAbort{kind: "bound", reason: "per-path instruction limit exceeded"})
			}
			switch x := ins.(type) {
			case *ssa.If:
				c, ok := in.get(fr, x.Cond).(*Term)
				if !ok {
					panic("if on non-term (poison)")
				}
				if in.ex.Branch(c) {
					next = b.Succs[0]
				} else {
					next = b.Succs[1]
				}
			case *ssa.Jump:
				next = b.Succs[0]
			case *ssa.Return:
				switch len(x.Results) {
				case 0:
					return nil
				case 1:
					return in.get(fr, x.Results[0])
				}
				tup := make([]Value, len(x.Results))
				for i, r := range x.Results {
					tup[i] = in.get(fr, r)
				}
				return tup
			case *ssa.Panic:
				panic(goPanic{in.get(fr, x.X)})
			case *ssa.Store:
				val := in.get(fr, x.Val)
				if pz, isPoison := val.(poison); isPoison {
					if g, ok := x.Addr.(*ssa.Global); ok {
						in.poisoned[g] = pz.why
					}
					break
				}
				if _, isPoison := in.get(fr, x.Addr).(poison); isPoison {
					break
				}
				in.store(in.get(fr, x.Addr), val)
				if g, ok := x.Addr.(*ssa.Global); ok {
					in.stored[g] = true
				}
			case *ssa.MapUpdate:
				m, _ := in.get(fr, x.Map).(*MapV)
				if m == nil {
					in.goPanicStr("assignment to entry in nil map")
				}
				in.mapUpdate(m, in.get(fr, x.Key), in.get(fr, x.Value))
			case *ssa.RunDefers:
				in.runDefers(fr)
				if fr.panicking != nil {
					p := *fr.panicking
					fr.panicking = nil
					panic(p)
				}
			case *ssa.Defer:
				args, callee := in.prepCall(fr, &x.Call)
				fr.defers = append(fr.defers, func() { in.doCall(callee, args) })
			case *ssa.Go:
				switch in.cfg.goMode {
				case "ignore":
				case "inline":
					args, callee := in.prepCall(fr, &x.Call)
					in.doCall(callee, args)
				default:
					unsupported("go statement in %s", fr.fn.String())
				}
			case *ssa.Send:
				ch, _ := in.get(fr, x.Chan).(*ChanV)
				if ch == nil {
					unsupported("send on nil channel (blocks forever)")
				}
				if ch.closed {
					in.goPanicStr("send on closed channel")
				}
				if len(ch.buf) >= ch.cap {
					unsupported("blocking channel send")
				}
				ch.buf = append(ch.buf, in.get(fr, x.X))
			case *ssa.DebugRef:
			case ssa.Value:
				if in.initMode > 0 {
					fr.set(x, in.evalPoison(fr, x))
				} else {
					fr.set(x, in.eval(fr, x))
				}
			default:
				panic(fmt.Sprintf("instr %T", ins))
			}
		}
		prev, b = b, next
	}
}

// in package-init mode an instruction that cannot be evaluated yields poison instead of aborting
func (in *Interp) evalPoison(fr *frame, x ssa.Value) (v Value) {
	defer func() {
		if r := recover(); r != nil {
			if pa, ok := r.(pathAbort); ok && (pa.kind == "infeasible" || pa.kind == "stop" || pa.kind == "killed") {
				panic(r)
			}
			v = poison{fmt.Sprint(r)}
		}
	}()
	return in.eval(fr, x)
}

func (in *Interp) store(addr Value, val Value) {
	switch a := addr.(type) {
	case *Cell:
		if a == nil {
			in.goPanicStr("invalid memory address or nil pointer dereference (store)")
		}
		a.v = copyVal(val)
	case *ElemRef:
		vt, ok := val.(*Term)
		if !ok {
			unsupported("store of %T through symbolic index", val)
		}
		for k, c := range a.cells {
			c.v = in.tb.Ite(in.tb.Eq(a.idx, in.tb.Const(a.idx.W, uint64(k))), vt, c.v.(*Term))
		}
	default:
		panic(fmt.Sprintf("store to %T", addr))
	}
}

func (in *Interp) load(addr Value) Value {
	switch a := addr.(type) {
	case *Cell:
		if a == nil {
			in.goPanicStr("invalid memory address or nil pointer dereference")
		}
		return copyVal(a.v)
	case *ElemRef:
		var res *Term
		for k := len(a.cells) - 1; k >= 0; k-- {
			t, ok := a.cells[k].v.(*Term)
			if !ok {
				unsupported("load of %T through symbolic index", a.cells[k].v)
			}
			if res == nil {
				res = t
			} else {
				res = in.tb.Ite(in.tb.Eq(a.idx, in.tb.Const(a.idx.W, uint64(k))), t, res)
			}
		}
		return res
	}
	panic(fmt.Sprintf("load from %T", addr))
}

func (in *Interp) concreteInt(v Value, limit int) int {
	t, ok := v.(*Term)
	if !ok {
		panic(fmt.Sprintf("concreteInt on %T", v))
	}
	if !t.IsConst() {
		t = in.ex.Concretize(t, limit)
	}
	return int(sext(t.K, t.W))
}

// index in [0,n): returns concrete index, or -1 and a symbolic in-range term
func (in *Interp) checkIndex(idx Value, n int, what string) (int, *Term) {
	t := idx.(*Term)
	if t.W < 64 {
		t = in.tb.Ext("zext", t, 64) // conservatively: callers convert; small unsigned index types
	}
	if t.IsConst() {
		i := int(int64(t.K))
		if i < 0 || i >= n {
			in.goPanicStr(fmt.Sprintf("runtime error: index out of range [%d] with length %d", i, n))
		}
		return i, nil
	}
	inRange := in.tb.Bin("bvult", t, in.tb.Const(64, uint64(n)))
	if !in.ex.Branch(inRange) {
		in.goPanicStr("runtime error: index out of range (symbolic) " + what)
	}
	return -1, t
}

func (in *Interp) eval(fr *frame, v ssa.Value) Value {
	tb := in.tb
	switch x := v.(type) {
	case *ssa.Alloc:
		return &Cell{in.zero(x.Type().Underlying().(*types.Pointer).Elem())}
	case *ssa.BinOp:
		return in.binop(x.Op, in.get(fr, x.X), in.get(fr, x.Y), x.X.Type(), x.Y.Type())
	case *ssa.UnOp:
		a := in.get(fr, x.X)
		switch x.Op {
		case token.MUL:
			return in.load(a)
		case token.SUB:
			if f, ok := a.(float64); ok {
				return -f
			}
			return tb.Un("bvneg", a.(*Term))
		case token.XOR:
			return tb.Un("bvnot", a.(*Term))
		case token.NOT:
			return tb.Un("not", a.(*Term))
		case token.ARROW:
			ch, _ := a.(*ChanV)
			if ch == nil {
				unsupported("receive on nil channel (blocks forever)")
			}
			var val Value
			ok := true
			if len(ch.buf) > 0 {
				val = ch.buf[0]
				ch.buf = ch.buf[1:]
			} else if ch.closed {
				val = in.zero(x.X.Type().Underlying().(*types.Chan).Elem())
				ok = false
			} else {
				unsupported("blocking channel receive")
			}
			if x.CommaOk {
				return []Value{val, tb.BoolC(ok)}
			}
			return val
		}
	case *ssa.Call:
		args, callee := in.prepCall(fr, &x.Call)
		return in.doCall(callee, args)
	case *ssa.ChangeType:
		return in.get(fr, x.X)
	case *ssa.Convert:
		return in.convert(in.get(fr, x.X), x.X.Type(), x.Type())
	case *ssa.MultiConvert:
		return in.convert(in.get(fr, x.X), x.X.Type(), x.Type())
	case *ssa.FieldAddr:
		c, _ := in.get(fr, x.X).(*Cell)
		if c == nil {
			in.goPanicStr("invalid memory address or nil pointer dereference (field " + fieldName(x) + ")")
		}
		return c.v.(*Agg).cells[x.Field]
	case *ssa.Field:
		return copyVal(in.get(fr, x.X).(*Agg).cells[x.Field].v)
	case *ssa.IndexAddr:
		base := in.get(fr, x.X)
		var cells []*Cell
		switch s := base.(type) {
		case *SliceV:
			if s != nil {
				cells = s.arr.cells[s.off : s.off+s.ln]
			}
		case *Cell:
			if s == nil {
				in.goPanicStr("nil pointer dereference (array index)")
			}
			cells = s.v.(*Agg).cells
		default:
			panic(fmt.Sprintf("IndexAddr on %T", base))
		}
		i, sym := in.checkIndex(in.toInt64(in.get(fr, x.Index), x.Index.Type()), len(cells), "")
		if sym == nil {
			return cells[i]
		}
		// symbolic index: element reference when only loaded/stored, else concretise
		onlyLS := true
		for _, r := range *x.Referrers() {
			switch u := r.(type) {
			case *ssa.UnOp:
				if u.Op != token.MUL {
					onlyLS = false
				}
			case *ssa.Store:
				if u.Addr != x {
					onlyLS = false
				}
			case *ssa.DebugRef:
			default:
				onlyLS = false
			}
		}
		scalar := len(cells) > 0
		for _, c := range cells {
			if _, ok := c.v.(*Term); !ok {
				scalar = false
				break
			}
		}
		if onlyLS && scalar {
			return &ElemRef{cells: cells, idx: sym}
		}
		k := in.ex.Concretize(sym, in.cfg.concLimit)
		return cells[int(k.K)]
	case *ssa.Index:
		base := in.get(fr, x.X)
		if isStr(base) {
			ss := in.toSym(base)
			i, sym := in.checkIndex(in.toInt64(in.get(fr, x.Index), x.Index.Type()), len(ss.b), "string")
			if sym == nil {
				return ss.b[i]
			}
			var res *Term
			for k := len(ss.b) - 1; k >= 0; k-- {
				if res == nil {
					res = ss.b[k]
				} else {
					res = tb.Ite(tb.Eq(sym, tb.Const(64, uint64(k))), ss.b[k], res)
				}
			}
			return res
		}
		a := base.(*Agg)
		i, sym := in.checkIndex(in.toInt64(in.get(fr, x.Index), x.Index.Type()), len(a.cells), "array")
		if sym != nil {
			return in.load(&ElemRef{cells: a.cells, idx: sym})
		}
		return copyVal(a.cells[i].v)
	case *ssa.Slice:
		return in.sliceOp(fr, x)
	case *ssa.MakeSlice:
		n := in.concreteInt(in.get(fr, x.Len), in.cfg.concLimit)
		cp := in.concreteInt(in.get(fr, x.Cap), in.cfg.concLimit)
		if n < 0 || cp < n {
			in.goPanicStr("makeslice: len out of range")
		}
		if cp > 1<<20 {
			unsupported("makeslice of %d elements", cp)
		}
		et := x.Type().Underlying().(*types.Slice).Elem()
		a := in.zero(types.NewArray(et, int64(cp))).(*Agg)
		return &SliceV{arr: a, ln: n, cp: cp}
	case *ssa.MakeMap:
		return &MapV{}
	case *ssa.MakeChan:
		n := in.concreteInt(in.get(fr, x.Size), 16)
		return &ChanV{cap: n}
	case *ssa.Lookup:
		base := in.get(fr, x.X)
		if isStr(base) {
			ss := in.toSym(base)
			i, sym := in.checkIndex(in.toInt64(in.get(fr, x.Index), x.Index.Type()), len(ss.b), "string")
			if sym != nil {
				k := in.ex.Concretize(sym, in.cfg.concLimit)
				i = int(k.K)
			}
			return ss.b[i]
		}
		m, _ := base.(*MapV)
		zero := in.zero(x.X.Type().Underlying().(*types.Map).Elem())
		r, f := in.mapLookup(m, in.get(fr, x.Index), zero)
		if x.CommaOk {
			return []Value{r, f}
		}
		return r
	case *ssa.Extract:
		return in.get(fr, x.Tuple).([]Value)[x.Index]
	case *ssa.MakeInterface:
		return &IfaceV{typ: x.X.Type(), v: in.get(fr, x.X)}
	case *ssa.ChangeInterface:
		return in.get(fr, x.X)
	case *ssa.MakeClosure:
		b := make([]Value, len(x.Bindings))
		for i, bv := range x.Bindings {
			b[i] = in.get(fr, bv)
		}
		return &Closure{fn: x.Fn.(*ssa.Function), bind: b}
	case *ssa.TypeAssert:
		return in.typeAssert(fr, x)
	case *ssa.Range:
		return in.rangeInit(in.get(fr, x.X))
	case *ssa.Next:
		return in.rangeNext(in.get(fr, x.Iter).(*Range), x)
	case *ssa.Select:
		return in.selectOp(fr, x)
	case *ssa.SliceToArrayPointer:
		s, _ := in.get(fr, x.X).(*SliceV)
		n := int(x.Type().Underlying().(*types.Pointer).Elem().Underlying().(*types.Array).Len())
		if s == nil {
			if n == 0 {
				return (*Cell)(nil)
			}
			in.goPanicStr("cannot convert nil slice to array pointer")
		}
		if s.ln < n {
			in.goPanicStr("cannot convert slice to array pointer: length too short")
		}
		return &Cell{&Agg{cells: s.arr.cells[s.off : s.off+n]}}
	case *ssa.Phi:
		panic("phi outside block head")
	}
	panic(fmt.Sprintf("eval %T %s", v, v))
}

func fieldName(x *ssa.FieldAddr) string {
	st := x.X.Type().Underlying().(*types.Pointer).Elem().Underlying().(*types.Struct)
	return st.Field(x.Field).Name()
}

func (in *Interp) toInt64(v Value, t types.Type) *Term {
	x := v.(*Term)
	if x.W == 64 {
		return x
	}
	_, signed, _ := isBV(t)
	if signed {
		return in.tb.Ext("sext", x, 64)
	}
	return in.tb.Ext("zext", x, 64)
}

func (in *Interp) sliceOp(fr *frame, x *ssa.Slice) Value {
	base := in.get(fr, x.X)
	bound := func(v ssa.Value, def int) int {
		if v == nil {
			return def
		}
		return in.concreteInt(in.toInt64(in.get(fr, v), v.Type()), in.cfg.concLimit)
	}
	if isStr(base) {
		ss := in.toSym(base)
		lo, hi := bound(x.Low, 0), bound(x.High, len(ss.b))
		if lo < 0 || hi < lo || hi > len(ss.b) {
			in.goPanicStr(fmt.Sprintf("runtime error: slice bounds out of range [%d:%d] with length %d", lo, hi, len(ss.b)))
		}
		if s, ok := base.(string); ok {
			return s[lo:hi]
		}
		return normStr(&SymStr{b: ss.b[lo:hi]})
	}
	s, _ := base.(*SliceV)
	if c, ok := base.(*Cell); ok { // slicing a pointer to an array
		if c == nil {
			in.goPanicStr("nil pointer dereference (slice of nil array pointer)")
		}
		a := c.v.(*Agg)
		s = &SliceV{arr: a, ln: len(a.cells), cp: len(a.cells)}
	}
	if s == nil {
		lo, hi := bound(x.Low, 0), bound(x.High, 0)
		if lo != 0 || hi != 0 {
			in.goPanicStr("runtime error: slice bounds out of range (nil slice)")
		}
		return (*SliceV)(nil)
	}
	lo, hi := bound(x.Low, 0), bound(x.High, s.ln)
	mx := bound(x.Max, s.cp)
	if lo < 0 || hi < lo || hi > mx || mx > s.cp {
		in.goPanicStr(fmt.Sprintf("runtime error: slice bounds out of range [%d:%d:%d] with capacity %d", lo, hi, mx, s.cp))
	}
	return &SliceV{arr: s.arr, off: s.off + lo, ln: hi - lo, cp: mx - lo}
}

func (in *Interp) typeAssert(fr *frame, x *ssa.TypeAssert) Value {
	iv, _ := in.get(fr, x.X).(*IfaceV)
	ok := false
	var res Value
	if iv != nil {
		if _, isIface := x.AssertedType.Underlying().(*types.Interface); isIface {
			ok = in.implements(iv, x.AssertedType.Underlying().(*types.Interface))
			if ok {
				res = iv
			}
		} else if iv.typ != nil && types.Identical(iv.typ, x.AssertedType) {
			ok = true
			res = iv.v
		}
	}
	if x.CommaOk {
		if !ok {
			res = in.zero(x.AssertedType)
		}
		return []Value{res, in.tb.BoolC(ok)}
	}
	if !ok {
		dyn := "nil"
		if iv != nil && iv.typ != nil {
			dyn = iv.typ.String()
		} else if iv != nil {
			dyn = "engine-native"
		}
		in.goPanicStr(fmt.Sprintf("interface conversion: interface is %s, not %s", dyn, x.AssertedType))
	}
	return res
}

func (in *Interp) implements(iv *IfaceV, it *types.Interface) bool {
	if iv.typ != nil {
		return types.Implements(iv.typ, it)
	}
	// engine-native: by method names
	have := map[string]bool{}
	switch o := iv.v.(type) {
	case *NativeErr:
		have["Error"] = true
		if len(o.wrapped) > 0 {
			have["Unwrap"] = true
		}
	case *NativeObj:
		for k := range nativeObjMethods {
			if strings.HasPrefix(k, o.kind+".") {
				have[k[len(o.kind)+1:]] = true
			}
		}
	}
	for i := 0; i < it.NumMethods(); i++ {
		if !have[it.Method(i).Name()] {
			return false
		}
	}
	return true
}

// ---------- maps ----------

func (in *Interp) mapFind(m *MapV, k Value) int {
	for i := range m.keys {
		c := in.eqVal(m.keys[i], k)
		if c.IsConst() {
			if c.BoolVal() {
				return i
			}
			continue
		}
		if in.ex.Branch(c) {
			return i
		}
	}
	return -1
}

func (in *Interp) mapUpdate(m *MapV, k, v Value) {
	if i := in.mapFind(m, k); i >= 0 {
		m.vals[i] = copyVal(v)
		return
	}
	m.keys = append(m.keys, copyVal(k))
	m.vals = append(m.vals, copyVal(v))
}

func (in *Interp) mapLookup(m *MapV, k Value, zero Value) (Value, *Term) {
	if m == nil {
		return zero, in.tb.BoolC(false)
	}
	if i := in.mapFind(m, k); i >= 0 {
		return copyVal(m.vals[i]), in.tb.BoolC(true)
	}
	return zero, in.tb.BoolC(false)
}

func (in *Interp) mapDelete(m *MapV, k Value) {
	if m == nil {
		return
	}
	if i := in.mapFind(m, k); i >= 0 {
		m.keys = append(m.keys[:i:i], m.keys[i+1:]...)
		m.vals = append(m.vals[:i:i], m.vals[i+1:]...)
	}
}

// ---------- range ----------

func (in *Interp) rangeInit(v Value) Value {
	switch x := v.(type) {
	case *MapV:
		r := &Range{kind: "map"}
		if x != nil {
			r.keys = append([]Value{}, x.keys...)
			r.vals = append([]Value{}, x.vals...)
		}
		return r
	case string, *SymStr:
		return &Range{kind: "string", str: in.toSym(v)}
	}
	panic(fmt.Sprintf("range over %T", v))
}

func (in *Interp) rangeNext(r *Range, x *ssa.Next) Value {
	tb := in.tb
	if r.kind == "map" {
		if r.pos >= len(r.keys) {
			return []Value{tb.BoolC(false), nil, nil}
		}
		k, v := r.keys[r.pos], r.vals[r.pos]
		r.pos++
		return []Value{tb.BoolC(true), copyVal(k), copyVal(v)}
	}
	if r.pos >= len(r.str.b) {
		return []Value{tb.BoolC(false), tb.Const(64, 0), tb.Const(32, 0)}
	}
	b := r.str.b[r.pos]
	if !in.ex.Branch(tb.Bin("bvult", b, tb.Const(8, 0x80))) {
		// non-ASCII: decode concretely if the whole sequence is concrete
		if b.IsConst() {
			bs := []byte{}
			for i := r.pos; i < len(r.str.b) && i < r.pos+4 && r.str.b[i].IsConst(); i++ {
				bs = append(bs, byte(r.str.b[i].K))
			}
			ru, size := decodeRune(bs)
			pos := r.pos
			r.pos += size
			return []Value{tb.BoolC(true), tb.Const(64, uint64(pos)), tb.Const(32, uint64(ru))}
		}
		unsupported("range over string with symbolic non-ASCII byte")
	}
	pos := r.pos
	r.pos++
	return []Value{tb.BoolC(true), tb.Const(64, uint64(pos)), tb.Ext("zext", b, 32)}
}

func (in *Interp) selectOp(fr *frame, x *ssa.Select) Value {
	// result tuple: (index int, recvOk bool, r0, r1 ...) one r per receive state
	tb := in.tb
	nrecv := 0
	for _, st := range x.States {
		if st.Dir == types.RecvOnly {
			nrecv++
		}
	}
	res := make([]Value, 2+nrecv)
	ri := 0
	recvIdx := make([]int, len(x.States))
	for i, st := range x.States {
		if st.Dir == types.RecvOnly {
			recvIdx[i] = ri
			res[2+ri] = in.zero(st.Chan.Type().Underlying().(*types.Chan).Elem())
			ri++
		}
	}
	for i, st := range x.States {
		ch, _ := in.get(fr, st.Chan).(*ChanV)
		if ch == nil {
			continue
		}
		if st.Dir == types.RecvOnly {
			if len(ch.buf) > 0 {
				res[0], res[1] = tb.Const(64, uint64(i)), tb.BoolC(true)
				res[2+recvIdx[i]] = ch.buf[0]
				ch.buf = ch.buf[1:]
				return res
			}
			if ch.closed {
				res[0], res[1] = tb.Const(64, uint64(i)), tb.BoolC(false)
				return res
			}
		} else if !ch.closed && len(ch.buf) < ch.cap {
			ch.buf = append(ch.buf, in.get(fr, st.Send))
			res[0], res[1] = tb.Const(64, uint64(i)), tb.BoolC(false)
			return res
		}
	}
	if !x.Blocking {
		res[0], res[1] = tb.SConst(64, -1), tb.BoolC(false)
		return res
	}
	unsupported("blocking select with no ready case in %s", fr.fn.String())
	return nil
}

// ---------- conversions ----------

func (in *Interp) convert(a Value, from, to types.Type) Value {
	tb := in.tb
	if tp, ok := to.(*types.TypeParam); ok {
		_ = tp
		unsupported("conversion to type parameter")
	}
	wd, _, okd := isBV(to)
	ws, ssigned, oks := isBV(from)
	if okd && oks && wd > 0 && ws > 0 {
		t := a.(*Term)
		switch {
		case wd == ws:
			return t
		case wd < ws:
			return tb.Extract(t, wd-1, 0)
		case ssigned:
			return tb.Ext("sext", t, wd)
		default:
			return tb.Ext("zext", t, wd)
		}
	}
	if okd && wd > 0 && isFloat(from) {
		return tb.Const(wd, uint64(int64(a.(float64))))
	}
	if isFloat(to) {
		if f, ok := a.(float64); ok {
			if b := to.Underlying().(*types.Basic); b.Kind() == types.Float32 {
				return float64(float32(f))
			}
			return f
		}
		t := a.(*Term)
		if !t.IsConst() {
			unsupported("symbolic integer to float conversion")
		}
		if ssigned {
			return float64(sext(t.K, t.W))
		}
		return float64(t.K)
	}
	if isStringT(to) {
		if isStringT(from) {
			return a
		}
		if oks && ws > 0 { // integer → string (rune)
			t := a.(*Term)
			if !t.IsConst() {
				unsupported("symbolic rune to string")
			}
			return string(rune(sext(t.K, t.W)))
		}
		if sl, ok := from.Underlying().(*types.Slice); ok {
			if w, _, _ := isBV(sl.Elem()); w == 8 {
				return normStr(&SymStr{b: in.bytesOf(a)})
			}
			// []rune → string
			s, _ := a.(*SliceV)
			var rs []rune
			if s != nil {
				for i := 0; i < s.ln; i++ {
					t := s.arr.cells[s.off+i].v.(*Term)
					if !t.IsConst() {
						unsupported("symbolic []rune to string")
					}
					rs = append(rs, rune(sext(t.K, 32)))
				}
			}
			return string(rs)
		}
	}
	if sl, ok := to.Underlying().(*types.Slice); ok && isStringT(from) {
		if w, _, _ := isBV(sl.Elem()); w == 8 {
			return in.sliceFromTerms(append([]*Term{}, in.toSym(a).b...))
		}
		s, ok := a.(string)
		if !ok {
			unsupported("symbolic string to []rune")
		}
		var ts []*Term
		for _, r := range s {
			ts = append(ts, tb.Const(32, uint64(r)))
		}
		return in.sliceFromTerms(ts)
	}
	if _, ok := to.Underlying().(*types.Pointer); ok {
		return a // unsafe.Pointer → *T
	}
	if b, ok := to.Underlying().(*types.Basic); ok && b.Kind() == types.UnsafePointer {
		if _, isPtr := from.Underlying().(*types.Pointer); isPtr {
			return a
		}
		if fb, ok := from.Underlying().(*types.Basic); ok && fb.Kind() == types.UnsafePointer {
			return a
		}
		unsupported("conversion %s → unsafe.Pointer", from)
	}
	// identical underlying types (named ↔ unnamed)
	if types.Identical(from.Underlying(), to.Underlying()) {
		return a
	}
	unsupported("conversion %s → %s", from, to)
	return nil
}

// ---------- binary operators ----------

func (in *Interp) binop(op token.Token, a, b Value, ta, tbT types.Type) Value {
	tb := in.tb
	if isStr(a) && isStr(b) {
		switch op {
		case token.ADD:
			return in.strConcat(a, b)
		case token.EQL:
			return in.strEq(a, b)
		case token.NEQ:
			return tb.Not(in.strEq(a, b))
		case token.LSS:
			return in.strLess(a, b, false)
		case token.LEQ:
			return in.strLess(a, b, true)
		case token.GTR:
			return in.strLess(b, a, false)
		case token.GEQ:
			return in.strLess(b, a, true)
		}
	}
	if fa, ok := a.(float64); ok {
		fb := b.(float64)
		switch op {
		case token.ADD:
			return fa + fb
		case token.SUB:
			return fa - fb
		case token.MUL:
			return fa * fb
		case token.QUO:
			return fa / fb
		case token.EQL:
			return tb.BoolC(fa == fb)
		case token.NEQ:
			return tb.BoolC(fa != fb)
		case token.LSS:
			return tb.BoolC(fa < fb)
		case token.LEQ:
			return tb.BoolC(fa <= fb)
		case token.GTR:
			return tb.BoolC(fa > fb)
		case token.GEQ:
			return tb.BoolC(fa >= fb)
		}
	}
	switch op {
	case token.EQL:
		return in.eqVal(a, b)
	case token.NEQ:
		return tb.Not(in.eqVal(a, b))
	}
	x, ok1 := a.(*Term)
	y, ok2 := b.(*Term)
	if !ok1 || !ok2 {
		panic(fmt.Sprintf("binop %s on %T, %T", op, a, b))
	}
	w, signed, _ := isBV(ta)
	switch op {
	case token.ADD:
		return tb.Bin("bvadd", x, y)
	case token.SUB:
		return tb.Bin("bvsub", x, y)
	case token.MUL:
		return tb.Bin("bvmul", x, y)
	case token.QUO, token.REM:
		if y.IsConst() {
			if y.K == 0 {
				in.goPanicStr("runtime error: integer divide by zero")
			}
		} else if in.ex.Branch(tb.Eq(y, tb.Const(y.W, 0))) {
			in.goPanicStr("runtime error: integer divide by zero")
		}
		name := "bvudiv"
		switch {
		case op == token.QUO && signed:
			name = "bvsdiv"
		case op == token.REM && signed:
			name = "bvsrem"
		case op == token.REM:
			name = "bvurem"
		}
		if !signed && y.IsConst() && y.K&(y.K-1) == 0 { // power of two
			k := 0
			for (y.K>>uint(k))&1 == 0 {
				k++
			}
			if op == token.QUO {
				return tb.LshrC(x, k)
			}
			return tb.Bin("bvand", x, tb.Const(x.W, y.K-1))
		}
		return tb.Bin(name, x, y)
	case token.AND:
		if w == 0 {
			return tb.And(x, y)
		}
		return tb.Bin("bvand", x, y)
	case token.OR:
		if w == 0 {
			return tb.Or(x, y)
		}
		return tb.Bin("bvor", x, y)
	case token.XOR:
		if w == 0 {
			return tb.Not(tb.Eq(x, y))
		}
		return tb.Bin("bvxor", x, y)
	case token.AND_NOT:
		return tb.Bin("bvand", x, tb.Un("bvnot", y))
	case token.SHL, token.SHR:
		_, ysigned, _ := isBV(tbT)
		if ysigned {
			neg := tb.Bin("bvslt", y, tb.Const(y.W, 0))
			if in.ex.Branch(neg) {
				in.goPanicStr("runtime error: negative shift amount")
			}
		}
		if y.IsConst() {
			k := y.K
			if k > uint64(x.W) {
				k = uint64(x.W)
			}
			if op == token.SHL {
				return tb.ShlC(x, int(k))
			}
			if signed {
				return tb.AshrC(x, int(k))
			}
			return tb.LshrC(x, int(k))
		}
		// symbolic amount: bring to x's width, saturating
		var amt *Term
		if y.W > x.W {
			big := tb.Bin("bvule", tb.Const(y.W, uint64(x.W)), y)
			amt = tb.Ite(big, tb.Const(x.W, uint64(x.W)), tb.Extract(y, x.W-1, 0))
		} else {
			amt = tb.Ext("zext", y, x.W)
		}
		if op == token.SHL {
			return tb.Bin("bvshl", x, amt)
		}
		if signed {
			return tb.Bin("bvashr", x, amt)
		}
		return tb.Bin("bvlshr", x, amt)
	case token.LSS, token.LEQ, token.GTR, token.GEQ:
		if op == token.GTR || op == token.GEQ {
			x, y = y, x
		}
		strict := op == token.LSS || op == token.GTR
		name := "bvule"
		switch {
		case signed && strict:
			name = "bvslt"
		case signed:
			name = "bvsle"
		case strict:
			name = "bvult"
		}
		return tb.Bin(name, x, y)
	}
	panic("binop " + op.String())
}

// ---------- builtins ----------

func (in *Interp) builtin(b *ssa.Builtin, args []Value) Value {
	tb := in.tb
	switch b.Name() {
	case "len":
		switch v := args[0].(type) {
		case *SliceV:
			if v == nil {
				return tb.Const(64, 0)
			}
			return tb.Const(64, uint64(v.ln))
		case string:
			return tb.Const(64, uint64(len(v)))
		case *SymStr:
			return tb.Const(64, uint64(len(v.b)))
		case *MapV:
			if v == nil {
				return tb.Const(64, 0)
			}
			return tb.Const(64, uint64(len(v.keys)))
		case *Agg:
			return tb.Const(64, uint64(len(v.cells)))
		case *Cell: // pointer to array
			return tb.Const(64, uint64(len(v.v.(*Agg).cells)))
		case *ChanV:
			if v == nil {
				return tb.Const(64, 0)
			}
			return tb.Const(64, uint64(len(v.buf)))
		}
	case "cap":
		switch v := args[0].(type) {
		case *SliceV:
			if v == nil {
				return tb.Const(64, 0)
			}
			return tb.Const(64, uint64(v.cp))
		case *Agg:
			return tb.Const(64, uint64(len(v.cells)))
		case *ChanV:
			if v == nil {
				return tb.Const(64, 0)
			}
			return tb.Const(64, uint64(v.cap))
		}
	case "append":
		s, _ := args[0].(*SliceV)
		var add []Value
		if isStr(args[1]) {
			for _, t := range in.toSym(args[1]).b {
				add = append(add, t)
			}
		} else if t, _ := args[1].(*SliceV); t != nil {
			for i := 0; i < t.ln; i++ {
				add = append(add, copyVal(t.arr.cells[t.off+i].v))
			}
		}
		if s == nil && len(add) == 0 {
			return args[0]
		}
		if len(add) == 0 {
			return s
		}
		if s != nil && s.ln+len(add) <= s.cp {
			// in place, as Go does
			for i, v := range add {
				s.arr.cells[s.off+s.ln+i].v = v
			}
			return &SliceV{arr: s.arr, off: s.off, ln: s.ln + len(add), cp: s.cp}
		}
		oldLen := 0
		if s != nil {
			oldLen = s.ln
		}
		newCap := oldLen + len(add)
		if oldLen*2 > newCap {
			newCap = oldLen * 2
		}
		n := &Agg{cells: make([]*Cell, 0, newCap)}
		for i := 0; i < oldLen; i++ {
			n.cells = append(n.cells, &Cell{copyVal(s.arr.cells[s.off+i].v)})
		}
		for _, v := range add {
			n.cells = append(n.cells, &Cell{v})
		}
		// spare capacity cells get the zero value of the element lazily (copy of first element's zero)
		var z Value
		if len(n.cells) > 0 {
			z = zeroLike(in, n.cells[0].v)
		}
		for len(n.cells) < newCap {
			n.cells = append(n.cells, &Cell{copyVal(z)})
		}
		return &SliceV{arr: n, ln: oldLen + len(add), cp: newCap}
	case "copy":
		d, _ := args[0].(*SliceV)
		var src []Value
		if isStr(args[1]) {
			for _, t := range in.toSym(args[1]).b {
				src = append(src, t)
			}
		} else if t, _ := args[1].(*SliceV); t != nil {
			for i := 0; i < t.ln; i++ {
				src = append(src, copyVal(t.arr.cells[t.off+i].v))
			}
		}
		n := 0
		if d != nil {
			n = min(d.ln, len(src))
			for i := 0; i < n; i++ {
				d.arr.cells[d.off+i].v = src[i]
			}
		}
		return tb.Const(64, uint64(n))
	case "delete":
		m, _ := args[0].(*MapV)
		in.mapDelete(m, args[1])
		return nil
	case "clear":
		switch v := args[0].(type) {
		case *MapV:
			if v != nil {
				v.keys, v.vals = nil, nil
			}
		case *SliceV:
			if v != nil {
				for i := 0; i < v.ln; i++ {
					v.arr.cells[v.off+i].v = zeroLike(in, v.arr.cells[v.off+i].v)
				}
			}
		}
		return nil
	case "min", "max":
		res := args[0]
		for _, a := range args[1:] {
			if isStr(res) {
				c := in.strLess(a, res, false)
				if b.Name() == "max" {
					c = in.strLess(res, a, false)
				}
				if in.ex.Branch(c) {
					res = a
				}
				continue
			}
			x, y := res.(*Term), a.(*Term)
			_, signed, _ := isBV(b.Type().(*types.Signature).Params().At(0).Type())
			name := "bvult"
			if signed {
				name = "bvslt"
			}
			var c *Term
			if b.Name() == "min" {
				c = tb.Bin(name, y, x)
			} else {
				c = tb.Bin(name, x, y)
			}
			res = tb.Ite(c, y, x)
		}
		return res
	case "panic":
		panic(goPanic{args[0]})
	case "recover":
		// called from a deferred function: the frame running defers is the caller of the current frame
		fr := in.cur
		if fr != nil && fr.caller != nil && fr.caller.panicking != nil {
			p := fr.caller.panicking
			fr.caller.panicking = nil
			fr.caller.recovered = true
			if iv, ok := p.v.(*IfaceV); ok {
				return iv
			}
			return &IfaceV{typ: nil, v: &NativeErr{msg: fmt.Sprint(p.v), runtime: true}}
		}
		return (*IfaceV)(nil)
	case "print", "println":
		return nil
	case "close":
		ch, _ := args[0].(*ChanV)
		if ch == nil {
			in.goPanicStr("close of nil channel")
		}
		if ch.closed {
			in.goPanicStr("close of closed channel")
		}
		ch.closed = true
		return nil
	case "ssa:wrapnilchk":
		if c, ok := args[0].(*Cell); ok && c == nil {
			in.goPanicStr("value method called using nil pointer")
		}
		return args[0]
	}
	unsupported("builtin %s on %T", b.Name(), args[0])
	return nil
}

func zeroLike(in *Interp, v Value) Value {
	switch x := v.(type) {
	case *Term:
		if x.W == 0 {
			return in.tb.BoolC(false)
		}
		return in.tb.Const(x.W, 0)
	case string, *SymStr:
		return ""
	case float64:
		return float64(0)
	case *Agg:
		n := &Agg{cells: make([]*Cell, len(x.cells))}
		for i, c := range x.cells {
			n.cells[i] = &Cell{zeroLike(in, c.v)}
		}
		return n
	case *Cell:
		return (*Cell)(nil)
	case *SliceV:
		return (*SliceV)(nil)
	case *MapV:
		return (*MapV)(nil)
	case *IfaceV:
		return (*IfaceV)(nil)
	case *ChanV:
		return (*ChanV)(nil)
	}
	return nil
}

func decodeRune(bs []byte) (rune, int) {
	if len(bs) == 0 {
		return 0xFFFD, 1
	}
	r, size := rune(0xFFFD), 1
	s := string(bs)
	for _, rr := range s {
		r = rr
		break
	}
	if r != 0xFFFD {
		size = len(string(r))
	}
	return r, size
}

// lookupMethod returns the method of dynamic type typ, or nil when it has none of that name.
func (in *Interp) lookupMethod(typ types.Type, pkg *types.Package, name string) *ssa.Function {
	sel := in.prog.MethodSets.MethodSet(typ).Lookup(pkg, name)
	if sel == nil {
		return nil
	}
	return in.prog.MethodValue(sel)
}

var slotMu sync.Mutex

// ensureSlotsLocked: fnInfo is shared by all workers; build the slot table once
func (fi *fnInfo) ensureSlotsLocked(fn *ssa.Function) {
	if fi.slots != nil {
		return
	}
	slotMu.Lock()
	fi.ensureSlots(fn)
	slotMu.Unlock()
}
