package main

// A small model of reflect.Value, enough to interpret github.com/mitchellh/reflectwalk and walkers written against it
// (internal/audit hashWalker) FROM SOURCE over JSON-shaped data (maps, slices, strings, numbers, bools, interfaces):
// a reflect.Value is an engine object holding the static type, the engine value and - for slice elements - the cell,
// so Set / SetMapIndex write through to the interpreted heap. Pointers, structs, arrays, channels, funcs and
// unexported-field rules are not modelled (unsupported => inconclusive). Map keys are visited in insertion order.

import (
	"go/types"

	"golang.org/x/tools/go/ssa"
)

func newRV(t types.Type, v Value, cell *Cell) *NativeObj {
	return &NativeObj{kind: "rvalue", data: map[string]Value{"t": t, "v": v, "cell": cell}}
}

func rvOf(v Value) *NativeObj {
	o, ok := v.(*NativeObj)
	if !ok || o == nil || o.kind != "rvalue" {
		unsupported("reflect.Value that was not produced by the engine's reflect model (zero Value?)")
	}
	return o
}

func rvType(o *NativeObj) types.Type {
	t, _ := o.data["t"].(types.Type)
	return t
}

func rvKind(o *NativeObj) uint64 {
	t := rvType(o)
	if t == nil {
		return 0
	}
	switch u := t.Underlying().(type) {
	case *types.Map:
		return 21
	case *types.Slice:
		return 23
	case *types.Interface:
		return 20
	case *types.Pointer:
		return 22
	case *types.Struct:
		return 25
	case *types.Array:
		return 17
	case *types.Signature:
		return 19
	case *types.Chan:
		return 18
	case *types.Basic:
		switch u.Kind() {
		case types.Bool, types.UntypedBool:
			return 1
		case types.Int, types.UntypedInt:
			return 2
		case types.Int8:
			return 3
		case types.Int16:
			return 4
		case types.Int32, types.UntypedRune:
			return 5
		case types.Int64:
			return 6
		case types.Uint:
			return 7
		case types.Uint8:
			return 8
		case types.Uint16:
			return 9
		case types.Uint32:
			return 10
		case types.Uint64:
			return 11
		case types.Uintptr:
			return 12
		case types.Float32:
			return 13
		case types.Float64, types.UntypedFloat:
			return 14
		case types.String, types.UntypedString:
			return 24
		}
	}
	unsupported("reflect: kind of %s", t.String())
	return 0
}

// the value as stored into a location of static type dst
func rvStore(dst types.Type, val *NativeObj) Value {
	if _, isIface := dst.Underlying().(*types.Interface); isIface {
		if rvKind(val) == 20 { // already an interface value
			return val.data["v"]
		}
		if rvType(val) == nil {
			return (*IfaceV)(nil)
		}
		return &IfaceV{typ: rvType(val), v: copyVal(val.data["v"])}
	}
	return copyVal(val.data["v"])
}

func init() {
	I := intrinsics
	I["reflect.ValueOf"] = func(in *Interp, fn *ssa.Function, a []Value) Value {
		iv, _ := a[0].(*IfaceV)
		if iv == nil {
			return newRV(nil, nil, nil)
		}
		if iv.typ == nil {
			unsupported("reflect.ValueOf on an engine-native value")
		}
		return newRV(iv.typ, iv.v, nil)
	}
	I["(reflect.Value).Kind"] = func(in *Interp, fn *ssa.Function, a []Value) Value {
		return in.tb.Const(64, rvKind(rvOf(a[0])))
	}
	I["(reflect.Value).IsValid"] = func(in *Interp, fn *ssa.Function, a []Value) Value {
		return in.tb.BoolC(rvType(rvOf(a[0])) != nil)
	}
	I["(reflect.Value).Type"] = func(in *Interp, fn *ssa.Function, a []Value) Value {
		o := rvOf(a[0])
		t := rvType(o)
		if t == nil {
			in.goPanicStr("reflect: call of reflect.Value.Type on zero Value")
		}
		name := types.TypeString(t, func(p *types.Package) string { return p.Name() })
		return &IfaceV{typ: nil, v: &NativeObj{kind: "rtype", data: map[string]Value{"name": name, "kind": in.tb.Const(64, rvKind(o))}}}
	}
	nativeObjMethods["rtype.Kind"] = func(in *Interp, o *NativeObj, a []Value) Value {
		k, ok := o.data["kind"]
		if !ok {
			unsupported("reflect.Type.Kind on a type obtained from reflect.TypeOf")
		}
		return k
	}
	I["(reflect.Value).Elem"] = func(in *Interp, fn *ssa.Function, a []Value) Value {
		o := rvOf(a[0])
		switch rvKind(o) {
		case 20:
			inner, _ := o.data["v"].(*IfaceV)
			if inner == nil {
				return newRV(nil, nil, nil)
			}
			if inner.typ == nil {
				unsupported("reflect: interface holding an engine-native value")
			}
			return newRV(inner.typ, inner.v, nil)
		}
		unsupported("reflect.Value.Elem on kind %d", rvKind(o))
		return nil
	}
	I["reflect.Indirect"] = func(in *Interp, fn *ssa.Function, a []Value) Value {
		o := rvOf(a[0])
		if rvKind(o) == 22 {
			unsupported("reflect.Indirect of a pointer")
		}
		return o
	}
	I["(reflect.Value).String"] = func(in *Interp, fn *ssa.Function, a []Value) Value {
		o := rvOf(a[0])
		if rvKind(o) != 24 {
			unsupported("reflect.Value.String on a non-string")
		}
		return o.data["v"]
	}
	I["(reflect.Value).Int"] = func(in *Interp, fn *ssa.Function, a []Value) Value {
		o := rvOf(a[0])
		k := rvKind(o)
		if k < 2 || k > 6 {
			in.goPanicStr("reflect: call of reflect.Value.Int on non-int Value")
		}
		t := o.data["v"].(*Term)
		if t.W < 64 {
			t = in.tb.Ext("sext", t, 64)
		}
		return t
	}
	I["(reflect.Value).Len"] = func(in *Interp, fn *ssa.Function, a []Value) Value {
		o := rvOf(a[0])
		switch rvKind(o) {
		case 23:
			sv, _ := o.data["v"].(*SliceV)
			if sv == nil {
				return in.tb.Const(64, 0)
			}
			return in.tb.Const(64, uint64(sv.ln))
		case 21:
			m, _ := o.data["v"].(*MapV)
			if m == nil {
				return in.tb.Const(64, 0)
			}
			return in.tb.Const(64, uint64(len(m.keys)))
		case 24:
			return in.tb.Const(64, uint64(strLen(o.data["v"])))
		}
		unsupported("reflect.Value.Len on kind %d", rvKind(o))
		return nil
	}
	I["(reflect.Value).IsNil"] = func(in *Interp, fn *ssa.Function, a []Value) Value {
		o := rvOf(a[0])
		switch rvKind(o) {
		case 23:
			sv, _ := o.data["v"].(*SliceV)
			return in.tb.BoolC(sv == nil)
		case 21:
			m, _ := o.data["v"].(*MapV)
			return in.tb.BoolC(m == nil)
		case 20:
			iv, _ := o.data["v"].(*IfaceV)
			return in.tb.BoolC(iv == nil)
		}
		unsupported("reflect.Value.IsNil on kind %d", rvKind(o))
		return nil
	}
	I["(reflect.Value).Index"] = func(in *Interp, fn *ssa.Function, a []Value) Value {
		o := rvOf(a[0])
		if rvKind(o) != 23 {
			unsupported("reflect.Value.Index on kind %d", rvKind(o))
		}
		sv, _ := o.data["v"].(*SliceV)
		n := 0
		if sv != nil {
			n = sv.ln
		}
		i, sym := in.checkIndex(a[1], n, "reflect.Value.Index")
		if sym != nil {
			unsupported("reflect.Value.Index with a symbolic index")
		}
		c := sv.arr.cells[sv.off+i]
		return newRV(rvType(o).Underlying().(*types.Slice).Elem(), c.v, c)
	}
	I["(reflect.Value).MapKeys"] = func(in *Interp, fn *ssa.Function, a []Value) Value {
		o := rvOf(a[0])
		if rvKind(o) != 21 {
			unsupported("reflect.Value.MapKeys on kind %d", rvKind(o))
		}
		m, _ := o.data["v"].(*MapV)
		kt := rvType(o).Underlying().(*types.Map).Key()
		arr := &Agg{}
		if m != nil {
			for _, k := range m.keys {
				arr.cells = append(arr.cells, &Cell{newRV(kt, k, nil)})
			}
		}
		return &SliceV{arr: arr, off: 0, ln: len(arr.cells), cp: len(arr.cells)}
	}
	I["(reflect.Value).MapIndex"] = func(in *Interp, fn *ssa.Function, a []Value) Value {
		o, k := rvOf(a[0]), rvOf(a[1])
		if rvKind(o) != 21 {
			unsupported("reflect.Value.MapIndex on kind %d", rvKind(o))
		}
		m, _ := o.data["v"].(*MapV)
		if m == nil {
			return newRV(nil, nil, nil)
		}
		if i := in.mapFind(m, k.data["v"]); i >= 0 {
			return newRV(rvType(o).Underlying().(*types.Map).Elem(), copyVal(m.vals[i]), nil)
		}
		return newRV(nil, nil, nil)
	}
	I["(reflect.Value).SetMapIndex"] = func(in *Interp, fn *ssa.Function, a []Value) Value {
		o, k, v := rvOf(a[0]), rvOf(a[1]), rvOf(a[2])
		if rvKind(o) != 21 {
			unsupported("reflect.Value.SetMapIndex on kind %d", rvKind(o))
		}
		m, _ := o.data["v"].(*MapV)
		if m == nil {
			in.goPanicStr("assignment to entry in nil map")
		}
		if rvType(v) == nil {
			in.mapDelete(m, k.data["v"])
			return nil
		}
		in.mapUpdate(m, k.data["v"], rvStore(rvType(o).Underlying().(*types.Map).Elem(), v))
		return nil
	}
	I["(reflect.Value).Set"] = func(in *Interp, fn *ssa.Function, a []Value) Value {
		o, v := rvOf(a[0]), rvOf(a[1])
		c, _ := o.data["cell"].(*Cell)
		if c == nil {
			in.goPanicStr("reflect: reflect.Value.Set using unaddressable value")
		}
		c.v = rvStore(rvType(o), v)
		o.data["v"] = c.v
		return nil
	}
	I["(reflect.Value).CanSet"] = func(in *Interp, fn *ssa.Function, a []Value) Value {
		c, _ := rvOf(a[0]).data["cell"].(*Cell)
		return in.tb.BoolC(c != nil)
	}
	I["(reflect.Value).Interface"] = func(in *Interp, fn *ssa.Function, a []Value) Value {
		o := rvOf(a[0])
		if rvType(o) == nil {
			in.goPanicStr("reflect: call of reflect.Value.Interface on zero Value")
		}
		if rvKind(o) == 20 {
			return o.data["v"]
		}
		return &IfaceV{typ: rvType(o), v: o.data["v"]}
	}
}
