package main

import (
	"fmt"
	"go/types"
	"strconv"
	"strings"

	"golang.org/x/tools/go/ssa"
)

var intrinsics map[string]intrinsicFn
var vxIntrinsics map[string]intrinsicFn
var nativeObjMethods map[string]func(in *Interp, o *NativeObj, args []Value) Value

func cstr(v Value) string {
	s, ok := v.(string)
	if !ok {
		unsupported("symbolic string where a concrete one is required")
	}
	return s
}

func (in *Interp) cint(v Value) int {
	return in.concreteInt(v, in.cfg.concLimit)
}

func (in *Interp) mkErr(msg Value, wrapped ...*IfaceV) *IfaceV {
	return &IfaceV{typ: nil, v: &NativeErr{msg: msg, wrapped: wrapped}}
}

func (in *Interp) boolInt(c *Term, w int) *Term {
	return in.tb.Ite(c, in.tb.Const(w, 1), in.tb.Const(w, 0))
}

// first index of sub in s as an ite chain (no forking); -1 if absent
func (in *Interp) indexTerm(s, sub []*Term, last bool) *Term {
	tb := in.tb
	res := tb.SConst(64, -1)
	n := len(sub)
	if n > len(s) {
		return res
	}
	match := func(i int) *Term {
		m := tb.BoolC(true)
		for j := 0; j < n; j++ {
			m = tb.And(m, tb.Eq(s[i+j], sub[j]))
			if m.IsFalse() {
				break
			}
		}
		return m
	}
	if last {
		for i := 0; i+n <= len(s); i++ {
			res = tb.Ite(match(i), tb.Const(64, uint64(i)), res)
		}
		return res
	}
	for i := len(s) - n; i >= 0; i-- {
		res = tb.Ite(match(i), tb.Const(64, uint64(i)), res)
	}
	return res
}

func (in *Interp) termsOf(v Value) []*Term {
	if isStr(v) {
		return in.toSym(v).b
	}
	return in.bytesOf(v)
}

// ---------- formatting ----------

func (in *Interp) fmtValue(verb byte, v Value) Value {
	switch x := v.(type) {
	case nil:
		return "<nil>"
	case *IfaceV:
		if x == nil {
			return "<nil>"
		}
		if x.typ == nil {
			if ne, ok := x.v.(*NativeErr); ok {
				return ne.msg
			}
			return "<native>"
		}
		// error / Stringer (fmt prints <nil> for a nil receiver and recovers from panics in these methods)
		if c, isPtr := x.v.(*Cell); isPtr && c == nil {
			return "<nil>"
		}
		if m := in.lookupMethod(x.typ, nil, "Error"); m != nil && verb != 'T' {
			return in.callFmtMethod(m, x.v)
		}
		if m := in.lookupMethod(x.typ, nil, "String"); m != nil && verb != 'T' && verb != 'd' {
			if m.Signature.Params().Len() == 0 && m.Signature.Results().Len() == 1 && isStringT(m.Signature.Results().At(0).Type()) {
				return in.callFmtMethod(m, x.v)
			}
		}
		if verb == 'T' {
			return x.typ.String()
		}
		return in.fmtValue(verb, x.v)
	case string:
		if verb == 'q' {
			return strconv.Quote(x)
		}
		return x
	case *SymStr:
		if verb == 'q' {
			return in.strConcat(in.strConcat("\"", x), "\"")
		}
		return x
	case *Term:
		if x.IsConst() {
			if x.W == 0 {
				return fmt.Sprint(x.BoolVal())
			}
			if verb == 'x' {
				return fmt.Sprintf("%x", x.K)
			}
			return fmt.Sprint(sext(x.K, x.W)) // signedness unknown here; callers with uint64 > MaxInt64 are rare
		}
		return "<sym>"
	case float64:
		return fmt.Sprint(x)
	case *SliceV:
		if x == nil {
			return "[]"
		}
		var out Value = "["
		for i := 0; i < x.ln; i++ {
			if i > 0 {
				out = in.strConcat(out, " ")
			}
			out = in.strConcat(out, in.fmtValue(verb, x.arr.cells[x.off+i].v))
		}
		return in.strConcat(out, "]")
	case *Cell:
		if x == nil {
			return "<nil>"
		}
		return "&{...}"
	}
	return fmt.Sprintf("<%T>", v)
}

func hasSym(v Value) bool {
	_, ok := v.(*SymStr)
	return ok
}

func (in *Interp) sprintf(format string, args []Value) Value {
	var out Value = ""
	ai := 0
	for i := 0; i < len(format); i++ {
		c := format[i]
		if c != '%' {
			j := i
			for j < len(format) && format[j] != '%' {
				j++
			}
			out = in.strConcat(out, format[i:j])
			i = j - 1
			continue
		}
		i++
		if i >= len(format) {
			break
		}
		// flags / width
		for i < len(format) && strings.IndexByte("+-# 0123456789.", format[i]) >= 0 {
			i++
		}
		if i >= len(format) {
			break
		}
		verb := format[i]
		if verb == '%' {
			out = in.strConcat(out, "%")
			continue
		}
		if ai >= len(args) {
			out = in.strConcat(out, "%!"+string(verb)+"(MISSING)")
			continue
		}
		fv := in.fmtValue(verb, args[ai])
		switch fv.(type) {
		case string, *SymStr:
		default: // a String()/Error() method that did not yield a string value the engine can splice: opaque
			fv = "<value>"
		}
		out = in.strConcat(out, fv)
		ai++
	}
	return out
}

func (in *Interp) variadic(v Value) []Value {
	s, _ := v.(*SliceV)
	if s == nil {
		return nil
	}
	r := make([]Value, s.ln)
	for i := range r {
		r[i] = s.arr.cells[s.off+i].v
	}
	return r
}

// ---------- errors ----------

func (in *Interp) errUnwrapAll(e *IfaceV) []*IfaceV {
	if e == nil {
		return nil
	}
	if e.typ == nil {
		if ne, ok := e.v.(*NativeErr); ok {
			return ne.wrapped
		}
		return nil
	}
	if m := in.lookupMethod(e.typ, nil, "Unwrap"); m != nil {
		r := in.Call(m, []Value{e.v}, nil)
		switch x := r.(type) {
		case *IfaceV:
			if x != nil {
				return []*IfaceV{x}
			}
		case *SliceV:
			var out []*IfaceV
			for _, v := range in.variadic(x) {
				if iv, _ := v.(*IfaceV); iv != nil {
					out = append(out, iv)
				}
			}
			return out
		}
	}
	return nil
}

func (in *Interp) errorsIs(err, target *IfaceV) bool {
	if err == nil || target == nil {
		return err == target
	}
	c := in.eqValSafe(err, target)
	if c != nil && in.ex.Branch(c) {
		return true
	}
	if err.typ != nil {
		if m := in.lookupMethod(err.typ, nil, "Is"); m != nil && m.Signature.Params().Len() == 1 {
			r := in.Call(m, []Value{err.v, target}, nil)
			if t, ok := r.(*Term); ok && in.ex.Branch(t) {
				return true
			}
		}
	}
	for _, w := range in.errUnwrapAll(err) {
		if in.errorsIs(w, target) {
			return true
		}
	}
	return false
}

func (in *Interp) eqValSafe(a, b *IfaceV) (t *Term) {
	defer func() {
		if r := recover(); r != nil {
			if pa, ok := r.(pathAbort); ok && pa.kind == "unsupported" {
				t = in.tb.BoolC(false) // uncomparable dynamic types
				return
			}
			panic(r)
		}
	}()
	return in.eqVal(a, b)
}

// ---------- time model: 128-bit signed nanosecond count in (wall=low64, ext=high64) ----------

// TW: width of the nanosecond count. Instants enter as sign-extended 64-bit values and durations are 64-bit, so
// TW-64 spare bits allow 2^(TW-64) chained additions before the model could wrap (stated bound of the clock model).
const TW = 72

func (in *Interp) timeVal(t *Term) Value {
	tb := in.tb
	return &Agg{cells: []*Cell{{tb.Extract(t, 63, 0)}, {tb.Ext("sext", tb.Extract(t, TW-1, 64), 64)}, {(*Cell)(nil)}}}
}

func (in *Interp) timeOf(v Value) *Term {
	a := v.(*Agg)
	return in.tb.Concat(in.tb.Extract(a.cells[1].v.(*Term), TW-65, 0), a.cells[0].v.(*Term))
}

func (in *Interp) durOf(v Value) *Term { return in.tb.Ext("sext", v.(*Term), TW) }

func (in *Interp) timeSub(a, b *Term) *Term {
	tb := in.tb
	d := tb.Bin("bvsub", a, b)
	max := tb.SConst(TW, 0x7fffffffffffffff)
	min := tb.SConst(TW, -0x8000000000000000)
	return tb.Ite(tb.Bin("bvslt", max, d), tb.Const(64, 0x7fffffffffffffff), tb.Ite(tb.Bin("bvslt", d, min), tb.Const(64, 0x8000000000000000), tb.Extract(d, 63, 0)))
}

func (in *Interp) now() Value {
	tb := in.tb
	in.nowCount++
	// non-decreasing sequence of instants; each is a non-negative 64-bit count (≈ 292 years of ns is enough headroom
	// for a *current* time; stored/derived instants use the full 128-bit range)
	v := in.ex.NewVar("now", 64)
	in.ex.Assume(tb.Bin("bvsle", tb.Const(64, 0), v))
	if in.lastNow != nil {
		in.ex.Assume(tb.Bin("bvsle", in.lastNow, v))
	}
	in.lastNow = v
	return in.timeVal(tb.Ext("sext", v, TW))
}

func init() {
	intrinsics = map[string]intrinsicFn{}
	vxIntrinsics = map[string]intrinsicFn{}
	nativeObjMethods = map[string]func(in *Interp, o *NativeObj, args []Value) Value{}
	I := intrinsics
	V := vxIntrinsics

	// ----- harness intrinsics -----
	nd := func(w int) intrinsicFn {
		return func(in *Interp, fn *ssa.Function, a []Value) Value { return in.ex.NewVar(cstr(a[0]), w) }
	}
	V["vxBool"] = nd(0)
	V["vxByte"] = nd(8)
	V["vxU16"] = nd(16)
	V["vxI32"] = nd(32)
	V["vxU32"] = nd(32)
	V["vxInt"] = nd(64)
	V["vxInt64"] = nd(64)
	V["vxU64"] = nd(64)
	V["vxBytes"] = func(in *Interp, fn *ssa.Function, a []Value) Value {
		n := in.cint(a[1])
		ts := make([]*Term, n)
		for i := range ts {
			ts[i] = in.ex.NewVar(fmt.Sprintf("%s[%d]", cstr(a[0]), i), 8)
		}
		return in.sliceFromTerms(ts)
	}
	V["vxString"] = func(in *Interp, fn *ssa.Function, a []Value) Value {
		n := in.cint(a[1])
		r := &SymStr{b: make([]*Term, n)}
		for i := range r.b {
			r.b[i] = in.ex.NewVar(fmt.Sprintf("%s[%d]", cstr(a[0]), i), 8)
		}
		if n == 0 {
			return ""
		}
		return r
	}
	conc := func(in *Interp, fn *ssa.Function, a []Value) Value {
		return in.ex.Concretize(a[0].(*Term), 70000)
	}
	V["vxConc"] = conc
	V["vxConcByte"] = conc
	V["vxConcStr"] = func(in *Interp, fn *ssa.Function, a []Value) Value {
		if s, ok := a[0].(*SymStr); ok {
			bs := make([]byte, len(s.b))
			for i, t := range s.b {
				bs[i] = byte(in.ex.Concretize(t, 256).K)
			}
			return string(bs)
		}
		return a[0]
	}
	// vxChoose(tag, n): nondeterministic choice in [0,n), forked into n paths
	V["vxChoose"] = func(in *Interp, fn *ssa.Function, a []Value) Value {
		n := in.cint(a[1])
		if n <= 0 {
			in.ex.abort("infeasible", "choose from empty range")
		}
		if n == 1 {
			return in.tb.Const(64, 0)
		}
		return in.ex.Choose(cstr(a[0]), n)
	}
	V["vxAssume"] = func(in *Interp, fn *ssa.Function, a []Value) Value {
		in.ex.Assume(a[0].(*Term))
		return nil
	}
	V["vxAssert"] = func(in *Interp, fn *ssa.Function, a []Value) Value {
		in.ex.Assert(cstr(a[0]), a[1].(*Term))
		return nil
	}
	V["vxReach"] = func(in *Interp, fn *ssa.Function, a []Value) Value {
		in.ex.Reach(cstr(a[0]))
		return nil
	}
	V["vxTrace"] = func(in *Interp, fn *ssa.Function, a []Value) Value {
		s := a[0]
		if ss, ok := s.(*SymStr); ok {
			_ = ss
			s = "<symbolic string>"
		}
		in.ex.Trace(s.(string))
		return nil
	}
	V["vxParam"] = func(in *Interp, fn *ssa.Function, a []Value) Value {
		v, ok := in.cfg.params[cstr(a[0])]
		if !ok {
			unsupported("harness parameter %q not set for tier %s", cstr(a[0]), in.cfg.tier)
		}
		return in.tb.SConst(64, v)
	}
	V["vxHeld"] = func(in *Interp, fn *ssa.Function, a []Value) Value {
		c := lockCell(a[0])
		ls := in.locks[c]
		n := 0
		if ls != nil {
			if ls.writer {
				n = 1
			} else {
				n = ls.readers
			}
		}
		return in.tb.Const(64, uint64(n))
	}
	// vxSpawn(f): start a second logical thread here; it runs until it finishes or blocks on a mutex held by another
	// logical thread, then the caller continues (see threads.go)
	V["vxSpawn"] = func(in *Interp, fn *ssa.Function, a []Value) Value {
		in.spawn(a[0])
		return nil
	}
	V["vxHeldW"] = func(in *Interp, fn *ssa.Function, a []Value) Value {
		c := lockCell(a[0])
		ls := in.locks[c]
		return in.tb.BoolC(ls != nil && ls.writer)
	}
	V["vxInstant"] = func(in *Interp, fn *ssa.Function, a []Value) Value {
		v := in.ex.NewVar(cstr(a[0]), 64)
		return in.timeVal(in.tb.Ext("sext", v, TW))
	}
	V["vxTimeLE"] = func(in *Interp, fn *ssa.Function, a []Value) Value {
		return in.tb.Bin("bvsle", in.timeOf(a[0]), in.timeOf(a[1]))
	}
	V["vxTimeLT"] = func(in *Interp, fn *ssa.Function, a []Value) Value {
		return in.tb.Bin("bvslt", in.timeOf(a[0]), in.timeOf(a[1]))
	}
	V["vxIsSymbolic"] = func(in *Interp, fn *ssa.Function, a []Value) Value {
		return in.tb.BoolC(!in.ex.concrete)
	}
	V["vxErr"] = func(in *Interp, fn *ssa.Function, a []Value) Value { return in.mkErr(a[0]) }
	// vxCatch(f) runs f and reports whether a Go panic escaped it
	V["vxCatch"] = func(in *Interp, fn *ssa.Function, a []Value) (ret Value) {
		defer func() {
			if r := recover(); r != nil {
				if _, ok := r.(goPanic); ok {
					ret = in.tb.BoolC(true)
					return
				}
				panic(r)
			}
		}()
		saved := in.cur
		in.doCall(a[0], nil)
		in.cur = saved
		return in.tb.BoolC(false)
	}

	// vxBox / vxUnbox: stand-in for a serialiser pair (json.Marshal/Unmarshal, proto...): the value graph is deep-copied
	// into a per-path table and an opaque concrete handle is returned; unboxing an unknown handle fails.
	V["vxBox"] = func(in *Interp, fn *ssa.Function, a []Value) Value {
		iv, _ := a[0].(*IfaceV)
		var payload Value
		if iv != nil {
			payload = iv.v
			if c, ok := payload.(*Cell); ok && c != nil {
				payload = c.v // box the pointee
			}
		}
		in.boxes = append(in.boxes, in.deepCopy(payload, map[*Cell]*Cell{}))
		idx := len(in.boxes) - 1
		h := []*Term{}
		for _, b := range []byte{0xB0, 0x0B, byte(idx >> 8), byte(idx), 0xB0, 0x0B, 0x00, 0x01} {
			h = append(h, in.tb.Const(8, uint64(b)))
		}
		return in.sliceFromTerms(h)
	}
	V["vxUnbox"] = func(in *Interp, fn *ssa.Function, a []Value) Value {
		bs := in.bytesOf(a[0])
		if len(bs) != 8 {
			return in.tb.BoolC(false)
		}
		for idx := range in.boxes {
			want := []byte{0xB0, 0x0B, byte(idx >> 8), byte(idx), 0xB0, 0x0B, 0x00, 0x01}
			m := in.tb.BoolC(true)
			for i, b := range want {
				m = in.tb.And(m, in.tb.Eq(bs[i], in.tb.Const(8, uint64(b))))
			}
			if in.ex.Branch(m) {
				out, _ := a[1].(*IfaceV)
				if out == nil {
					in.goPanicStr("vxUnbox: nil target")
				}
				tgt, ok := out.v.(*Cell)
				if !ok || tgt == nil {
					in.goPanicStr("vxUnbox: target is not a pointer")
				}
				tgt.v = in.deepCopy(in.boxes[idx], map[*Cell]*Cell{})
				return in.tb.BoolC(true)
			}
		}
		return in.tb.BoolC(false)
	}

	// ----- errors / fmt -----
	I["errors.New"] = func(in *Interp, fn *ssa.Function, a []Value) Value { return in.mkErr(a[0]) }
	I["fmt.Errorf"] = func(in *Interp, fn *ssa.Function, a []Value) Value {
		args := in.variadic(a[1])
		f := cstr(a[0])
		var wrapped []*IfaceV
		// %w operands
		ai := 0
		for i := 0; i+1 < len(f); i++ {
			if f[i] != '%' {
				continue
			}
			j := i + 1
			for j < len(f) && strings.IndexByte("+-# 0123456789.", f[j]) >= 0 {
				j++
			}
			if j < len(f) && f[j] != '%' {
				if f[j] == 'w' && ai < len(args) {
					if iv, _ := args[ai].(*IfaceV); iv != nil {
						wrapped = append(wrapped, iv)
					}
				}
				ai++
			}
			i = j
		}
		return in.mkErr(in.sprintf(f, args), wrapped...)
	}
	I["fmt.Sprintf"] = func(in *Interp, fn *ssa.Function, a []Value) Value {
		return in.sprintf(cstr(a[0]), in.variadic(a[1]))
	}
	I["fmt.Sprint"] = func(in *Interp, fn *ssa.Function, a []Value) Value {
		var out Value = ""
		for _, v := range in.variadic(a[0]) {
			out = in.strConcat(out, in.fmtValue('v', v))
		}
		return out
	}
	I["fmt.Println"] = func(in *Interp, fn *ssa.Function, a []Value) Value {
		return []Value{in.tb.Const(64, 0), (*IfaceV)(nil)}
	}
	I["fmt.Printf"] = I["fmt.Println"]
	I["errors.Is"] = func(in *Interp, fn *ssa.Function, a []Value) Value {
		e, _ := a[0].(*IfaceV)
		t, _ := a[1].(*IfaceV)
		return in.tb.BoolC(in.errorsIs(e, t))
	}
	I["errors.Unwrap"] = func(in *Interp, fn *ssa.Function, a []Value) Value {
		e, _ := a[0].(*IfaceV)
		ws := in.errUnwrapAll(e)
		if len(ws) == 1 {
			return ws[0]
		}
		return (*IfaceV)(nil)
	}
	I["errors.As"] = func(in *Interp, fn *ssa.Function, a []Value) Value {
		e, _ := a[0].(*IfaceV)
		tgt, _ := a[1].(*IfaceV)
		if tgt == nil || tgt.typ == nil {
			in.goPanicStr("errors: target must be a non-nil pointer")
		}
		elem := tgt.typ.Underlying().(*types.Pointer).Elem()
		var walk func(e *IfaceV) bool
		walk = func(e *IfaceV) bool {
			if e == nil {
				return false
			}
			if it, ok := elem.Underlying().(*types.Interface); ok {
				if in.implements(e, it) {
					in.store(tgt.v, e)
					return true
				}
			} else if e.typ != nil && types.Identical(e.typ, elem) {
				in.store(tgt.v, e.v)
				return true
			}
			for _, w := range in.errUnwrapAll(e) {
				if walk(w) {
					return true
				}
			}
			return false
		}
		return in.tb.BoolC(walk(e))
	}
	I["errors.Join"] = func(in *Interp, fn *ssa.Function, a []Value) Value {
		var ws []*IfaceV
		var msg Value = ""
		for _, v := range in.variadic(a[0]) {
			if iv, _ := v.(*IfaceV); iv != nil {
				if len(ws) > 0 {
					msg = in.strConcat(msg, "\n")
				}
				msg = in.strConcat(msg, in.fmtValue('v', iv))
				ws = append(ws, iv)
			}
		}
		if len(ws) == 0 {
			return (*IfaceV)(nil)
		}
		return in.mkErr(msg, ws...)
	}

	// ----- bytealg / strings / bytes helpers (no forking) -----
	idxByte := func(in *Interp, fn *ssa.Function, a []Value) Value {
		return in.indexTerm(in.termsOf(a[0]), []*Term{a[1].(*Term)}, false)
	}
	I["internal/bytealg.IndexByteString"] = idxByte
	I["internal/bytealg.IndexByte"] = idxByte
	I["strings.IndexByte"] = idxByte
	I["bytes.IndexByte"] = idxByte
	I["internal/stringslite.IndexByte"] = idxByte
	lastIdxByte := func(in *Interp, fn *ssa.Function, a []Value) Value {
		return in.indexTerm(in.termsOf(a[0]), []*Term{a[1].(*Term)}, true)
	}
	I["strings.LastIndexByte"] = lastIdxByte
	I["bytes.LastIndexByte"] = lastIdxByte
	I["internal/bytealg.LastIndexByteString"] = lastIdxByte
	I["internal/bytealg.LastIndexByte"] = lastIdxByte
	idx := func(in *Interp, fn *ssa.Function, a []Value) Value {
		return in.indexTerm(in.termsOf(a[0]), in.termsOf(a[1]), false)
	}
	I["strings.Index"] = idx
	I["bytes.Index"] = idx
	I["internal/stringslite.Index"] = idx
	I["internal/bytealg.IndexString"] = idx
	I["internal/bytealg.Index"] = idx
	lidx := func(in *Interp, fn *ssa.Function, a []Value) Value {
		return in.indexTerm(in.termsOf(a[0]), in.termsOf(a[1]), true)
	}
	I["strings.LastIndex"] = lidx
	I["bytes.LastIndex"] = lidx
	contains := func(in *Interp, fn *ssa.Function, a []Value) Value {
		i := in.indexTerm(in.termsOf(a[0]), in.termsOf(a[1]), false)
		return in.tb.Not(in.tb.Eq(i, in.tb.SConst(64, -1)))
	}
	I["strings.Contains"] = contains
	I["bytes.Contains"] = contains
	count := func(in *Interp, fn *ssa.Function, a []Value) Value {
		// forks per byte (the callers - Split, Fields, Count - branch on the same comparisons anyway); the result is concrete
		tb := in.tb
		n := 0
		for _, b := range in.termsOf(a[0]) {
			if in.ex.Branch(tb.Eq(b, a[1].(*Term))) {
				n++
			}
		}
		return tb.Const(64, uint64(n))
	}
	I["internal/bytealg.CountString"] = count
	I["internal/bytealg.Count"] = count
	eq := func(in *Interp, fn *ssa.Function, a []Value) Value {
		x, y := in.termsOf(a[0]), in.termsOf(a[1])
		if len(x) != len(y) {
			return in.tb.BoolC(false)
		}
		r := in.tb.BoolC(true)
		for i := range x {
			r = in.tb.And(r, in.tb.Eq(x[i], y[i]))
		}
		return r
	}
	I["bytes.Equal"] = eq
	I["internal/bytealg.Equal"] = eq
	cmpF := func(in *Interp, fn *ssa.Function, a []Value) Value {
		tb := in.tb
		x, y := &SymStr{b: in.termsOf(a[0])}, &SymStr{b: in.termsOf(a[1])}
		lt := in.strLess(x, y, false)
		gt := in.strLess(y, x, false)
		return tb.Ite(lt, tb.SConst(64, -1), tb.Ite(gt, tb.Const(64, 1), tb.Const(64, 0)))
	}
	I["bytes.Compare"] = cmpF
	I["internal/bytealg.Compare"] = cmpF
	I["internal/bytealg.CompareString"] = cmpF
	I["strings.Compare"] = cmpF
	I["strings.Clone"] = func(in *Interp, fn *ssa.Function, a []Value) Value { return a[0] }
	I["internal/stringslite.Clone"] = I["strings.Clone"] // strings are immutable values here; the real body needs unsafe.String
	I["internal/bytealg.MakeNoZero"] = func(in *Interp, fn *ssa.Function, a []Value) Value {
		n := in.cint(a[0])
		ts := make([]*Term, n)
		for i := range ts {
			ts[i] = in.tb.Const(8, 0)
		}
		return in.sliceFromTerms(ts)
	}
	// strings.Builder: keep its content in the addr-independent buf field via source; needs unsafe → intrinsics
	I["(*strings.Builder).String"] = func(in *Interp, fn *ssa.Function, a []Value) Value {
		c := a[0].(*Cell)
		buf := c.v.(*Agg).cells[1].v
		return normStr(&SymStr{b: in.bytesOf(buf)})
	}
	I["(*strings.Builder).copyCheck"] = func(in *Interp, fn *ssa.Function, a []Value) Value { return nil }
	I["(*strings.Builder).grow"] = func(in *Interp, fn *ssa.Function, a []Value) Value { return nil }
	I["(*strings.Builder).Grow"] = func(in *Interp, fn *ssa.Function, a []Value) Value { return nil }
	I["unsafe.String"] = func(in *Interp, fn *ssa.Function, a []Value) Value {
		unsupported("unsafe.String")
		return nil
	}
	I["strings.ToLower"] = func(in *Interp, fn *ssa.Function, a []Value) Value {
		return in.mapASCII(a[0], func(b *Term) *Term {
			tb := in.tb
			up := tb.And(tb.Bin("bvule", tb.Const(8, 'A'), b), tb.Bin("bvule", b, tb.Const(8, 'Z')))
			return tb.Ite(up, tb.Bin("bvadd", b, tb.Const(8, 32)), b)
		})
	}
	I["strings.ToUpper"] = func(in *Interp, fn *ssa.Function, a []Value) Value {
		return in.mapASCII(a[0], func(b *Term) *Term {
			tb := in.tb
			lo := tb.And(tb.Bin("bvule", tb.Const(8, 'a'), b), tb.Bin("bvule", b, tb.Const(8, 'z')))
			return tb.Ite(lo, tb.Bin("bvsub", b, tb.Const(8, 32)), b)
		})
	}

	// ----- crypto/subtle & constanttime -----
	I["crypto/internal/constanttime.ByteEq"] = func(in *Interp, fn *ssa.Function, a []Value) Value {
		return in.boolInt(in.tb.Eq(a[0].(*Term), a[1].(*Term)), 64)
	}
	I["crypto/internal/constanttime.Eq"] = func(in *Interp, fn *ssa.Function, a []Value) Value {
		return in.boolInt(in.tb.Eq(a[0].(*Term), a[1].(*Term)), 64)
	}
	I["crypto/internal/constanttime.Select"] = func(in *Interp, fn *ssa.Function, a []Value) Value {
		return in.tb.Ite(in.tb.Eq(a[0].(*Term), in.tb.Const(64, 1)), a[1].(*Term), a[2].(*Term))
	}
	I["crypto/internal/constanttime.LessOrEq"] = func(in *Interp, fn *ssa.Function, a []Value) Value {
		return in.boolInt(in.tb.Bin("bvsle", a[0].(*Term), a[1].(*Term)), 64)
	}
	I["crypto/subtle.ConstantTimeCompare"] = func(in *Interp, fn *ssa.Function, a []Value) Value {
		return in.boolInt(eq(in, fn, a).(*Term), 64)
	}

	// ----- sync -----
	lock := func(write bool) intrinsicFn {
		return func(in *Interp, fn *ssa.Function, a []Value) Value {
			if ptrOf(a[0]) == nil {
				in.goPanicStr("nil pointer dereference (lock on nil mutex)")
			}
			c := lockCell(a[0])
			ls := in.locks[c]
			if ls == nil {
				ls = &lockState{}
				in.locks[c] = ls
			}
			me := in.thr // nil while only one logical thread exists
			for {
				mine := ls.ownerR[me]
				if write {
					if !ls.writer && ls.readers == 0 {
						break
					}
					if (ls.writer && ls.ownerW == me) || (ls.readers > 0 && mine == ls.readers) {
						unsupported("self-deadlock: Lock on a mutex already held on this path (%s)", in.cur.fn.String())
					}
				} else {
					if !ls.writer {
						break
					}
					if ls.ownerW == me {
						unsupported("self-deadlock: RLock on a mutex write-held on this path")
					}
				}
				in.blockOn(c, write)
			}
			if write {
				ls.writer, ls.ownerW = true, me
			} else {
				ls.readers++
				if ls.ownerR == nil {
					ls.ownerR = map[*thread]int{}
				}
				ls.ownerR[me]++
			}
			return nil
		}
	}
	unlock := func(write bool) intrinsicFn {
		return func(in *Interp, fn *ssa.Function, a []Value) Value {
			c := lockCell(a[0])
			ls := in.locks[c]
			if write {
				if ls == nil || !ls.writer {
					in.goPanicStr("fatal error: sync: unlock of unlocked mutex")
				}
				ls.writer, ls.ownerW = false, nil
			} else {
				if ls == nil || ls.readers == 0 {
					in.goPanicStr("fatal error: sync: RUnlock of unlocked RWMutex")
				}
				ls.readers--
				if ls.ownerR[in.thr] > 0 {
					ls.ownerR[in.thr]--
				}
			}
			in.wakeWaiters(c)
			return nil
		}
	}
	I["(*sync.Mutex).Lock"] = lock(true)
	I["(*sync.Mutex).Unlock"] = unlock(true)
	I["(*sync.Mutex).TryLock"] = func(in *Interp, fn *ssa.Function, a []Value) Value {
		c := lockCell(a[0])
		ls := in.locks[c]
		if ls != nil && (ls.writer || ls.readers > 0) {
			return in.tb.BoolC(false)
		}
		lock(true)(in, fn, a)
		return in.tb.BoolC(true)
	}
	I["(*sync.RWMutex).Lock"] = lock(true)
	I["(*sync.RWMutex).Unlock"] = unlock(true)
	I["(*sync.RWMutex).RLock"] = lock(false)
	I["(*sync.RWMutex).RUnlock"] = unlock(false)
	// github.com/sasha-s/go-deadlock wraps sync's mutexes (lock-order diagnostics only): same semantics
	for _, pfx := range []string{"github.com/sasha-s/go-deadlock"} {
		I["(*"+pfx+".Mutex).Lock"] = lock(true)
		I["(*"+pfx+".Mutex).Unlock"] = unlock(true)
		I["(*"+pfx+".RWMutex).Lock"] = lock(true)
		I["(*"+pfx+".RWMutex).Unlock"] = unlock(true)
		I["(*"+pfx+".RWMutex).RLock"] = lock(false)
		I["(*"+pfx+".RWMutex).RUnlock"] = unlock(false)
	}
	I["(*sync.RWMutex).RLocker"] = func(in *Interp, fn *ssa.Function, a []Value) Value {
		unsupported("RWMutex.RLocker")
		return nil
	}
	I["(*sync.Once).Do"] = func(in *Interp, fn *ssa.Function, a []Value) Value {
		c := ptrOf(a[0])
		if !in.onces[c] {
			in.onces[c] = true
			in.doCall(a[1], nil)
		}
		return nil
	}
	I["(*sync.WaitGroup).Add"] = func(in *Interp, fn *ssa.Function, a []Value) Value { return nil }
	I["(*sync.WaitGroup).Done"] = func(in *Interp, fn *ssa.Function, a []Value) Value { return nil }
	I["(*sync.WaitGroup).Wait"] = func(in *Interp, fn *ssa.Function, a []Value) Value { return nil }
	smap := func(in *Interp, c *Cell) *MapV {
		m := in.syncMaps[c]
		if m == nil {
			m = &MapV{}
			in.syncMaps[c] = m
		}
		return m
	}
	I["(*sync.Map).Load"] = func(in *Interp, fn *ssa.Function, a []Value) Value {
		v, ok := in.mapLookup(smap(in, ptrOf(a[0])), a[1], (*IfaceV)(nil))
		return []Value{v, ok}
	}
	I["(*sync.Map).Store"] = func(in *Interp, fn *ssa.Function, a []Value) Value {
		in.mapUpdate(smap(in, ptrOf(a[0])), a[1], a[2])
		return nil
	}
	I["(*sync.Map).Delete"] = func(in *Interp, fn *ssa.Function, a []Value) Value {
		in.mapDelete(smap(in, ptrOf(a[0])), a[1])
		return nil
	}
	I["(*sync.Map).LoadOrStore"] = func(in *Interp, fn *ssa.Function, a []Value) Value {
		m := smap(in, ptrOf(a[0]))
		v, ok := in.mapLookup(m, a[1], (*IfaceV)(nil))
		if ok.IsTrue() {
			return []Value{v, ok}
		}
		in.mapUpdate(m, a[1], a[2])
		return []Value{a[2], in.tb.BoolC(false)}
	}
	I["(*sync.Map).LoadAndDelete"] = func(in *Interp, fn *ssa.Function, a []Value) Value {
		m := smap(in, ptrOf(a[0]))
		v, ok := in.mapLookup(m, a[1], (*IfaceV)(nil))
		if ok.IsTrue() {
			in.mapDelete(m, a[1])
		}
		return []Value{v, ok}
	}
	I["(*sync.Map).Range"] = func(in *Interp, fn *ssa.Function, a []Value) Value {
		m := smap(in, ptrOf(a[0]))
		keys := append([]Value{}, m.keys...)
		vals := append([]Value{}, m.vals...)
		for i := range keys {
			r := in.doCall(a[1], []Value{keys[i], vals[i]})
			if !in.ex.Branch(r.(*Term)) {
				break
			}
		}
		return nil
	}

	// ----- sync/atomic -----
	atomField := func(in *Interp, recv Value) *Cell {
		c := ptrOf(recv)
		if c == nil {
			in.goPanicStr("nil pointer dereference (atomic)")
		}
		a := c.v.(*Agg)
		return a.cells[len(a.cells)-1] // the value field is last in all sync/atomic types
	}
	for _, ty := range []string{"Int32", "Int64", "Uint32", "Uint64", "Uintptr"} {
		p := "(*sync/atomic." + ty + ")."
		I[p+"Load"] = func(in *Interp, fn *ssa.Function, a []Value) Value { return atomField(in, a[0]).v }
		I[p+"Store"] = func(in *Interp, fn *ssa.Function, a []Value) Value { atomField(in, a[0]).v = a[1]; return nil }
		I[p+"Add"] = func(in *Interp, fn *ssa.Function, a []Value) Value {
			f := atomField(in, a[0])
			f.v = in.tb.Bin("bvadd", f.v.(*Term), a[1].(*Term))
			return f.v
		}
		I[p+"Swap"] = func(in *Interp, fn *ssa.Function, a []Value) Value {
			f := atomField(in, a[0])
			old := f.v
			f.v = a[1]
			return old
		}
		I[p+"CompareAndSwap"] = func(in *Interp, fn *ssa.Function, a []Value) Value {
			f := atomField(in, a[0])
			if in.ex.Branch(in.tb.Eq(f.v.(*Term), a[1].(*Term))) {
				f.v = a[2]
				return in.tb.BoolC(true)
			}
			return in.tb.BoolC(false)
		}
	}
	I["(*sync/atomic.Bool).Load"] = func(in *Interp, fn *ssa.Function, a []Value) Value {
		v := atomField(in, a[0]).v.(*Term)
		return in.tb.Not(in.tb.Eq(v, in.tb.Const(32, 0)))
	}
	I["(*sync/atomic.Bool).Store"] = func(in *Interp, fn *ssa.Function, a []Value) Value {
		atomField(in, a[0]).v = in.boolInt(a[1].(*Term), 32)
		return nil
	}
	I["(*sync/atomic.Bool).Swap"] = func(in *Interp, fn *ssa.Function, a []Value) Value {
		f := atomField(in, a[0])
		old := in.tb.Not(in.tb.Eq(f.v.(*Term), in.tb.Const(32, 0)))
		f.v = in.boolInt(a[1].(*Term), 32)
		return old
	}
	I["(*sync/atomic.Bool).CompareAndSwap"] = func(in *Interp, fn *ssa.Function, a []Value) Value {
		f := atomField(in, a[0])
		cur := in.tb.Not(in.tb.Eq(f.v.(*Term), in.tb.Const(32, 0)))
		if in.ex.Branch(in.tb.Eq(cur, a[1].(*Term))) {
			f.v = in.boolInt(a[2].(*Term), 32)
			return in.tb.BoolC(true)
		}
		return in.tb.BoolC(false)
	}
	I["(*sync/atomic.Pointer[T]).Load"] = func(in *Interp, fn *ssa.Function, a []Value) Value { return atomField(in, a[0]).v }
	I["(*sync/atomic.Pointer[T]).Store"] = func(in *Interp, fn *ssa.Function, a []Value) Value {
		atomField(in, a[0]).v = a[1]
		return nil
	}
	I["(*sync/atomic.Pointer[T]).Swap"] = func(in *Interp, fn *ssa.Function, a []Value) Value {
		f := atomField(in, a[0])
		old := f.v
		f.v = a[1]
		return old
	}
	I["(*sync/atomic.Pointer[T]).CompareAndSwap"] = func(in *Interp, fn *ssa.Function, a []Value) Value {
		f := atomField(in, a[0])
		if f.v.(*Cell) == a[1].(*Cell) {
			f.v = a[2]
			return in.tb.BoolC(true)
		}
		return in.tb.BoolC(false)
	}
	I["(*sync/atomic.Value).Load"] = func(in *Interp, fn *ssa.Function, a []Value) Value {
		c := ptrOf(a[0])
		if v, ok := in.atomics[c]; ok {
			return v
		}
		return (*IfaceV)(nil)
	}
	I["(*sync/atomic.Value).Store"] = func(in *Interp, fn *ssa.Function, a []Value) Value {
		in.atomics[ptrOf(a[0])] = a[1]
		return nil
	}
	for _, ty := range []string{"Int32", "Int64", "Uint32", "Uint64"} {
		ty := ty
		I["sync/atomic.Load"+ty] = func(in *Interp, fn *ssa.Function, a []Value) Value { return in.load(a[0]) }
		I["sync/atomic.Store"+ty] = func(in *Interp, fn *ssa.Function, a []Value) Value { in.store(a[0], a[1]); return nil }
		I["sync/atomic.Add"+ty] = func(in *Interp, fn *ssa.Function, a []Value) Value {
			v := in.tb.Bin("bvadd", in.load(a[0]).(*Term), a[1].(*Term))
			in.store(a[0], v)
			return v
		}
		I["sync/atomic.CompareAndSwap"+ty] = func(in *Interp, fn *ssa.Function, a []Value) Value {
			if in.ex.Branch(in.tb.Eq(in.load(a[0]).(*Term), a[1].(*Term))) {
				in.store(a[0], a[2])
				return in.tb.BoolC(true)
			}
			return in.tb.BoolC(false)
		}
	}

	// ----- time -----
	I["time.Now"] = func(in *Interp, fn *ssa.Function, a []Value) Value { return in.now() }
	ident := func(in *Interp, fn *ssa.Function, a []Value) Value { return copyVal(a[0]) }
	I["(time.Time).Truncate"] = ident // instants are whole seconds by harness assumption
	I["(time.Time).Round"] = ident
	I["(time.Time).UTC"] = ident
	I["(time.Time).Local"] = ident
	I["(time.Time).In"] = ident
	I["(time.Time).IsZero"] = func(in *Interp, fn *ssa.Function, a []Value) Value {
		return in.tb.Eq(in.timeOf(a[0]), in.tb.SConst(TW, 0))
	}
	I["(time.Time).Add"] = func(in *Interp, fn *ssa.Function, a []Value) Value {
		return in.timeVal(in.tb.Bin("bvadd", in.timeOf(a[0]), in.durOf(a[1])))
	}
	I["(time.Time).Sub"] = func(in *Interp, fn *ssa.Function, a []Value) Value {
		return in.timeSub(in.timeOf(a[0]), in.timeOf(a[1]))
	}
	I["time.Since"] = func(in *Interp, fn *ssa.Function, a []Value) Value {
		return in.timeSub(in.timeOf(in.now()), in.timeOf(a[0]))
	}
	I["time.Until"] = func(in *Interp, fn *ssa.Function, a []Value) Value {
		return in.timeSub(in.timeOf(a[0]), in.timeOf(in.now()))
	}
	I["(time.Time).Before"] = func(in *Interp, fn *ssa.Function, a []Value) Value {
		return in.tb.Bin("bvslt", in.timeOf(a[0]), in.timeOf(a[1]))
	}
	I["(time.Time).After"] = func(in *Interp, fn *ssa.Function, a []Value) Value {
		return in.tb.Bin("bvslt", in.timeOf(a[1]), in.timeOf(a[0]))
	}
	I["(time.Time).Equal"] = func(in *Interp, fn *ssa.Function, a []Value) Value {
		return in.tb.Eq(in.timeOf(a[0]), in.timeOf(a[1]))
	}
	I["(time.Time).Compare"] = func(in *Interp, fn *ssa.Function, a []Value) Value {
		tb := in.tb
		x, y := in.timeOf(a[0]), in.timeOf(a[1])
		return tb.Ite(tb.Bin("bvslt", x, y), tb.SConst(64, -1), tb.Ite(tb.Bin("bvslt", y, x), tb.Const(64, 1), tb.Const(64, 0)))
	}
	I["(time.Time).Unix"] = func(in *Interp, fn *ssa.Function, a []Value) Value {
		// seconds since the Unix epoch are not modelled (would need a division by 10^9): an arbitrary value, which
		// time.Unix(v, 0) maps back to the same instant (instants are whole seconds by harness assumption)
		v := in.ex.NewVar("unix-seconds", 64)
		in.unixMemo[v.ID] = in.timeOf(a[0])
		return v
	}
	I["time.Unix"] = func(in *Interp, fn *ssa.Function, a []Value) Value {
		// the zero Time is year 1; the Unix epoch lies 62135596800 s later
		tb := in.tb
		if st, ok := a[0].(*Term); ok {
			if t, ok := in.unixMemo[st.ID]; ok {
				if n, ok := a[1].(*Term); ok && n.IsConst() && n.K == 0 {
					return in.timeVal(t)
				}
			}
		}
		sec := tb.Bin("bvadd", tb.Ext("sext", a[0].(*Term), TW), tb.SConst(TW, 62135596800))
		ns := tb.Bin("bvadd", tb.Bin("bvmul", sec, tb.SConst(TW, 1000000000)), tb.Ext("sext", a[1].(*Term), TW))
		return in.timeVal(ns)
	}
	I["(time.Time).String"] = func(in *Interp, fn *ssa.Function, a []Value) Value { return "<time>" }
	I["(time.Time).Format"] = func(in *Interp, fn *ssa.Function, a []Value) Value { return "<time>" }
	I["(time.Duration).String"] = func(in *Interp, fn *ssa.Function, a []Value) Value { return "<duration>" }
	I["(time.Duration).Seconds"] = func(in *Interp, fn *ssa.Function, a []Value) Value {
		t := a[0].(*Term)
		if !t.IsConst() {
			unsupported("Duration.Seconds on symbolic duration")
		}
		return float64(sext(t.K, 64)) / 1e9
	}
	durIdent := func(in *Interp, fn *ssa.Function, a []Value) Value {
		m := a[1].(*Term)
		if !m.IsConst() || (m.K != 1000000000 && m.K != 1) {
			unsupported("Duration.Round/Truncate to a unit other than a second")
		}
		return a[0] // durations are whole seconds by the clock-model assumption
	}
	I["(time.Duration).Round"] = durIdent
	I["(time.Duration).Truncate"] = durIdent
	I["time.Sleep"] = func(in *Interp, fn *ssa.Function, a []Value) Value { return nil }

	// ----- context -----
	newCtx := func(parent Value, k, v Value) *IfaceV {
		o := &NativeObj{kind: "ctx", data: map[string]Value{}}
		if parent != nil {
			o.data["parent"] = parent // *NativeObj, or *IfaceV for a context implemented in Go code
		}
		if k != nil {
			o.data["key"] = k
			o.data["val"] = v
		}
		return &IfaceV{typ: nil, v: o}
	}
	ctxObj := func(v Value) Value {
		iv, _ := v.(*IfaceV)
		if iv == nil {
			return nil
		}
		if o, ok := iv.v.(*NativeObj); ok {
			return o
		}
		return iv
	}
	I["context.Background"] = func(in *Interp, fn *ssa.Function, a []Value) Value { return newCtx(nil, nil, nil) }
	I["context.TODO"] = I["context.Background"]
	I["context.WithValue"] = func(in *Interp, fn *ssa.Function, a []Value) Value { return newCtx(ctxObj(a[0]), a[1], a[2]) }
	cancelFn := func(in *Interp, a []Value) Value {
		noopFn := in.cfg.target.Func("vxNoop")
		var cf Value = noopFn
		if noopFn == nil {
			unsupported("harness prelude lacks vxNoop")
		}
		return []Value{newCtx(ctxObj(a[0]), nil, nil), cf}
	}
	I["context.WithCancel"] = func(in *Interp, fn *ssa.Function, a []Value) Value { return cancelFn(in, a) }
	I["context.WithTimeout"] = func(in *Interp, fn *ssa.Function, a []Value) Value { return cancelFn(in, a) }
	I["context.WithDeadline"] = func(in *Interp, fn *ssa.Function, a []Value) Value { return cancelFn(in, a) }
	I["context.WithoutCancel"] = func(in *Interp, fn *ssa.Function, a []Value) Value { return newCtx(ctxObj(a[0]), nil, nil) }
	// reflect.TypeOf(x).String(): the dynamic type's name as Go prints it (only String/Kind-free uses are supported)
	I["reflect.TypeOf"] = func(in *Interp, fn *ssa.Function, a []Value) Value {
		iv, _ := a[0].(*IfaceV)
		name := "<nil>"
		if iv != nil && iv.typ != nil {
			name = types.TypeString(iv.typ, func(p *types.Package) string { return p.Name() })
		} else if iv != nil {
			unsupported("reflect.TypeOf on an engine-native value")
		}
		return &IfaceV{typ: nil, v: &NativeObj{kind: "rtype", data: map[string]Value{"name": name}}}
	}
	nativeObjMethods["rtype.String"] = func(in *Interp, o *NativeObj, a []Value) Value { return o.data["name"] }
	nativeObjMethods["ctx.Err"] = func(in *Interp, o *NativeObj, a []Value) Value { return (*IfaceV)(nil) }
	nativeObjMethods["ctx.Done"] = func(in *Interp, o *NativeObj, a []Value) Value { return (*ChanV)(nil) }
	nativeObjMethods["ctx.Deadline"] = func(in *Interp, o *NativeObj, a []Value) Value {
		return []Value{in.timeVal(in.tb.SConst(TW, 0)), in.tb.BoolC(false)}
	}
	nativeObjMethods["ctx.Value"] = func(in *Interp, o *NativeObj, a []Value) Value {
		var cur Value = o
		for cur != nil {
			switch c := cur.(type) {
			case *NativeObj:
				if k, ok := c.data["key"]; ok {
					e := in.eqVal(k, a[0])
					if in.ex.Branch(e) {
						return c.data["val"]
					}
				}
				cur = c.data["parent"]
			case *IfaceV: // a context type implemented in Go code: ask it
				if c == nil || c.typ == nil {
					return (*IfaceV)(nil)
				}
				m := in.lookupMethod(c.typ, nil, "Value")
				if m == nil {
					unsupported("context parent of type %s has no Value method", c.typ)
				}
				return in.Call(m, []Value{c.v, a[0]}, nil)
			default:
				cur = nil
			}
		}
		return (*IfaceV)(nil)
	}

	// ----- sort -----
	I["sort.Slice"] = func(in *Interp, fn *ssa.Function, a []Value) Value { in.sortSlice(a[0], a[1]); return nil }
	I["sort.SliceStable"] = I["sort.Slice"]
	I["sort.Strings"] = func(in *Interp, fn *ssa.Function, a []Value) Value {
		s, _ := a[0].(*SliceV)
		if s == nil {
			return nil
		}
		in.insertionSort(s, func(i, j int) bool {
			return in.ex.Branch(in.strLess(s.arr.cells[s.off+i].v, s.arr.cells[s.off+j].v, false))
		})
		return nil
	}

	// ----- reflect (small) -----
	I["reflect.DeepEqual"] = func(in *Interp, fn *ssa.Function, a []Value) Value { return in.deepEqual(a[0], a[1]) }

	I["encoding/hex.EncodeToString"] = func(in *Interp, fn *ssa.Function, a []Value) Value {
		tb := in.tb
		out := &SymStr{}
		digit := func(n *Term) *Term { // n: 8-bit value < 16
			return tb.Ite(tb.Bin("bvult", n, tb.Const(8, 10)), tb.Bin("bvadd", n, tb.Const(8, '0')), tb.Bin("bvadd", n, tb.Const(8, 'a'-10)))
		}
		for _, b := range in.bytesOf(a[0]) {
			out.b = append(out.b, digit(tb.LshrC(b, 4)), digit(tb.Bin("bvand", b, tb.Const(8, 15))))
		}
		return normStr(out)
	}

	// ----- misc -----
	I["os.Getenv"] = func(in *Interp, fn *ssa.Function, a []Value) Value { return "" }
	I["runtime.Gosched"] = func(in *Interp, fn *ssa.Function, a []Value) Value { return nil }
	I["strconv.Itoa"] = func(in *Interp, fn *ssa.Function, a []Value) Value {
		t := a[0].(*Term)
		if !t.IsConst() {
			t = in.ex.Concretize(t, in.cfg.concLimit)
		}
		return strconv.Itoa(int(sext(t.K, 64)))
	}
	I["strconv.Quote"] = func(in *Interp, fn *ssa.Function, a []Value) Value {
		if s, ok := a[0].(string); ok {
			return strconv.Quote(s)
		}
		return in.strConcat(in.strConcat("\"", a[0]), "\"")
	}
	I["encoding/binary.bigEndian.Uint32"] = nil
	delete(I, "encoding/binary.bigEndian.Uint32")
}

// lockCell: canonical cell identifying a mutex: the address of a struct is the address of its first field, so
// &LockEntry, &LockEntry.RWMutex and &RWMutex.w all denote the same lock.
func lockCell(v Value) *Cell {
	c := ptrOf(v)
	for c != nil {
		a, ok := c.v.(*Agg)
		if !ok || len(a.cells) == 0 {
			break
		}
		c = a.cells[0]
	}
	return c
}

func ptrOf(v Value) *Cell {
	switch x := v.(type) {
	case *Cell:
		return x
	case *IfaceV:
		if x == nil {
			return nil
		}
		return ptrOf(x.v)
	}
	panic(fmt.Sprintf("ptrOf %T", v))
}

func (in *Interp) mapASCII(s Value, f func(*Term) *Term) Value {
	if cs, ok := s.(string); ok {
		_ = cs
	}
	ss := in.toSym(s)
	out := &SymStr{b: make([]*Term, len(ss.b))}
	for i, b := range ss.b {
		if !b.IsConst() {
			// assume ASCII for symbolic bytes is NOT sound; fork on it
			if !in.ex.Branch(in.tb.Bin("bvult", b, in.tb.Const(8, 0x80))) {
				unsupported("case mapping of symbolic non-ASCII byte")
			}
		} else if b.K >= 0x80 {
			unsupported("case mapping of non-ASCII string")
		}
		out.b[i] = f(b)
	}
	return normStr(out)
}

func (in *Interp) insertionSort(s *SliceV, less func(i, j int) bool) {
	for i := 1; i < s.ln; i++ {
		for j := i; j > 0 && less(j, j-1); j-- {
			ci, cj := s.arr.cells[s.off+j], s.arr.cells[s.off+j-1]
			ci.v, cj.v = cj.v, ci.v
		}
	}
}

func (in *Interp) sortSlice(sv Value, lessFn Value) {
	iv, _ := sv.(*IfaceV)
	if iv == nil {
		return
	}
	s, _ := iv.v.(*SliceV)
	if s == nil {
		return
	}
	in.insertionSort(s, func(i, j int) bool {
		r := in.doCall(lessFn, []Value{in.tb.Const(64, uint64(i)), in.tb.Const(64, uint64(j))})
		return in.ex.Branch(r.(*Term))
	})
}

func (in *Interp) deepEqual(a, b Value) *Term {
	tb := in.tb
	switch x := a.(type) {
	case *IfaceV:
		y, _ := b.(*IfaceV)
		if x == nil || y == nil {
			return tb.BoolC(x == nil && y == nil)
		}
		if (x.typ == nil) != (y.typ == nil) {
			return tb.BoolC(false)
		}
		if x.typ != nil && !types.Identical(x.typ, y.typ) {
			return tb.BoolC(false)
		}
		return in.deepEqual(x.v, y.v)
	case *SliceV:
		y, _ := b.(*SliceV)
		if x == nil || y == nil {
			return tb.BoolC(x == nil && y == nil)
		}
		if x.ln != y.ln {
			return tb.BoolC(false)
		}
		r := tb.BoolC(true)
		for i := 0; i < x.ln; i++ {
			r = tb.And(r, in.deepEqual(x.arr.cells[x.off+i].v, y.arr.cells[y.off+i].v))
		}
		return r
	case *Agg:
		y := b.(*Agg)
		r := tb.BoolC(true)
		for i := range x.cells {
			r = tb.And(r, in.deepEqual(x.cells[i].v, y.cells[i].v))
		}
		return r
	case *Cell:
		y, _ := b.(*Cell)
		if x == nil || y == nil {
			return tb.BoolC(x == nil && y == nil)
		}
		if x == y {
			return tb.BoolC(true)
		}
		return in.deepEqual(x.v, y.v)
	case *MapV:
		y, _ := b.(*MapV)
		if x == nil || y == nil {
			return tb.BoolC(x == nil && y == nil)
		}
		if len(x.keys) != len(y.keys) {
			return tb.BoolC(false)
		}
		r := tb.BoolC(true)
		for i, k := range x.keys {
			j := in.mapFind(y, k)
			if j < 0 {
				return tb.BoolC(false)
			}
			r = tb.And(r, in.deepEqual(x.vals[i], y.vals[j]))
		}
		return r
	}
	return in.eqVal(a, b)
}

func (in *Interp) deepCopy(v Value, memo map[*Cell]*Cell) Value {
	switch x := v.(type) {
	case *Agg:
		if x == nil {
			return x
		}
		n := &Agg{cells: make([]*Cell, len(x.cells))}
		for i, c := range x.cells {
			n.cells[i] = in.deepCopyCell(c, memo)
		}
		return n
	case *Cell:
		return in.deepCopyCell(x, memo)
	case *SliceV:
		if x == nil {
			return x
		}
		a := &Agg{cells: make([]*Cell, x.ln)}
		for i := 0; i < x.ln; i++ {
			a.cells[i] = in.deepCopyCell(x.arr.cells[x.off+i], memo)
		}
		return &SliceV{arr: a, ln: x.ln, cp: x.ln}
	case *MapV:
		if x == nil {
			return x
		}
		m := &MapV{}
		for i := range x.keys {
			m.keys = append(m.keys, in.deepCopy(x.keys[i], memo))
			m.vals = append(m.vals, in.deepCopy(x.vals[i], memo))
		}
		return m
	case *IfaceV:
		if x == nil {
			return x
		}
		return &IfaceV{typ: x.typ, v: in.deepCopy(x.v, memo)}
	}
	return v
}

func (in *Interp) deepCopyCell(c *Cell, memo map[*Cell]*Cell) *Cell {
	if c == nil {
		return nil
	}
	if n, ok := memo[c]; ok {
		return n
	}
	n := &Cell{}
	memo[c] = n
	n.v = in.deepCopy(c.v, memo)
	return n
}

func (in *Interp) callFmtMethod(m *ssa.Function, recv Value) (ret Value) {
	saved := in.cur
	defer func() {
		if r := recover(); r != nil {
			if _, ok := r.(goPanic); ok {
				in.cur = saved
				ret = "%!v(PANIC)"
				return
			}
			panic(r)
		}
	}()
	return in.Call(m, []Value{recv}, nil)
}
