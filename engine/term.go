package main

// Hash-consed term DAG: Bool (W==0) and BitVec W. One TB per worker, reset per path.

import (
	"fmt"
	"math/big"
	"strings"
)

type Term struct {
	ID   int
	Op   string
	W    int
	Args []*Term
	K    uint64   // const value (W<=64) / extract params (hi<<16|lo) / shift amount
	B    *big.Int // const value when W>64
	Name string
}

type tkey struct {
	op         string
	w          int
	k          uint64
	name       string
	a0, a1, a2 int
}

type ckey struct {
	w int
	k uint64
}

type TB struct {
	tab    map[tkey]*Term
	list   []*Term
	tT     *Term
	tF     *Term
	consts map[ckey]*Term // persistent across paths (IDs from a separate range), never reset
	nconst int
}

const constIDBase = 1 << 40

func NewTB() *TB {
	tb := &TB{}
	tb.Reset()
	return tb
}

func (tb *TB) Reset() {
	if tb.consts == nil {
		tb.consts = map[ckey]*Term{}
		tb.tT = &Term{ID: constIDBase, Op: "true"}
		tb.tF = &Term{ID: constIDBase + 1, Op: "false"}
		tb.nconst = 2
	}
	if len(tb.tab) > 0 || tb.tab == nil {
		tb.tab = make(map[tkey]*Term, 256)
	}
	tb.list = tb.list[:0]
}

func (tb *TB) mk(op string, w int, k uint64, name string, args ...*Term) *Term {
	key := tkey{op: op, w: w, k: k, name: name, a0: -1, a1: -1, a2: -1}
	switch len(args) {
	case 3:
		key.a2 = args[2].ID
		fallthrough
	case 2:
		key.a1 = args[1].ID
		fallthrough
	case 1:
		key.a0 = args[0].ID
	}
	if t, ok := tb.tab[key]; ok {
		return t
	}
	t := &Term{ID: len(tb.list), Op: op, W: w, Args: args, K: k, Name: name}
	tb.tab[key] = t
	tb.list = append(tb.list, t)
	return t
}

func mask(w int) uint64 {
	if w >= 64 {
		return ^uint64(0)
	}
	return (uint64(1) << uint(w)) - 1
}

func bigMask(w int) *big.Int {
	m := new(big.Int).Lsh(big.NewInt(1), uint(w))
	return m.Sub(m, big.NewInt(1))
}

func (tb *TB) Const(w int, v uint64) *Term {
	if w > 64 {
		return tb.BigConst(w, new(big.Int).SetUint64(v))
	}
	if w == 0 {
		return tb.BoolC(v != 0)
	}
	v &= mask(w)
	k := ckey{w, v}
	if t, ok := tb.consts[k]; ok {
		return t
	}
	t := &Term{ID: constIDBase + tb.nconst, Op: "const", W: w, K: v}
	tb.nconst++
	tb.consts[k] = t
	return t
}

// SConst: constant from a signed value, sign-extended to w.
func (tb *TB) SConst(w int, v int64) *Term {
	if w > 64 {
		return tb.BigConst(w, big.NewInt(v))
	}
	return tb.Const(w, uint64(v))
}

func (tb *TB) BigConst(w int, v *big.Int) *Term {
	if w <= 64 {
		m := new(big.Int).And(v, bigMask(w))
		return tb.Const(w, m.Uint64())
	}
	m := new(big.Int).And(v, bigMask(w)) // And on negative big.Int uses two's complement semantics
	t := tb.mk("const", w, 0, m.Text(16))
	if t.B == nil {
		t.B = m
	}
	return t
}

func (tb *TB) BoolC(b bool) *Term {
	if b {
		return tb.tT
	}
	return tb.tF
}

func (tb *TB) Var(name string, w int) *Term { return tb.mk("var", w, 0, name) }

func (t *Term) IsConst() bool { return t.Op == "const" || t.Op == "true" || t.Op == "false" }
func (t *Term) BoolVal() bool { return t.Op == "true" }
func (t *Term) IsTrue() bool  { return t.Op == "true" }
func (t *Term) IsFalse() bool { return t.Op == "false" }

func (t *Term) big() *big.Int {
	if t.W > 64 {
		return t.B
	}
	return new(big.Int).SetUint64(t.K)
}

func (t *Term) sbig() *big.Int { // signed value
	v := t.big()
	if v.Bit(t.W-1) == 1 {
		return new(big.Int).Sub(v, new(big.Int).Lsh(big.NewInt(1), uint(t.W)))
	}
	return v
}

func sext(v uint64, w int) int64 {
	if w >= 64 {
		return int64(v)
	}
	if v&(1<<uint(w-1)) != 0 {
		return int64(v | ^mask(w))
	}
	return int64(v)
}

func (t *Term) Int64() int64 { return sext(t.K, t.W) }

func asBit(t *Term) (*Term, bool) {
	if t.Op == "zext" && t.Args[0].W == 1 {
		return t.Args[0], true
	}
	return nil, false
}

func (tb *TB) Extract(t *Term, hi, lo int) *Term {
	w := hi - lo + 1
	if w == t.W {
		return t
	}
	if t.IsConst() {
		if t.W > 64 {
			return tb.BigConst(w, new(big.Int).Rsh(t.B, uint(lo)))
		}
		return tb.Const(w, t.K>>uint(lo))
	}
	switch t.Op {
	case "extract":
		l0 := int(t.K & 0xffff)
		return tb.Extract(t.Args[0], hi+l0, lo+l0)
	case "bvxor", "bvand", "bvor":
		return tb.Bin(t.Op, tb.Extract(t.Args[0], hi, lo), tb.Extract(t.Args[1], hi, lo))
	case "bvnot":
		return tb.Un("bvnot", tb.Extract(t.Args[0], hi, lo))
	case "sext", "zext":
		iw := t.Args[0].W
		if hi < iw {
			return tb.Extract(t.Args[0], hi, lo)
		}
		if lo >= iw {
			if t.Op == "zext" {
				return tb.Const(w, 0)
			}
			return tb.Ext("sext", tb.Extract(t.Args[0], iw-1, iw-1), w)
		}
	case "shlc":
		sh := int(t.K)
		if lo >= sh {
			return tb.Extract(t.Args[0], hi-sh, lo-sh)
		}
		if hi < sh {
			return tb.Const(w, 0)
		}
	case "concat":
		lw := t.Args[1].W
		if hi < lw {
			return tb.Extract(t.Args[1], hi, lo)
		}
		if lo >= lw {
			return tb.Extract(t.Args[0], hi-lw, lo-lw)
		}
	case "ite":
		if w <= 8 || t.Args[1].IsConst() || t.Args[2].IsConst() || iteConstLeaves(t, 0) {
			return tb.Ite(t.Args[0], tb.Extract(t.Args[1], hi, lo), tb.Extract(t.Args[2], hi, lo))
		}
	case "bvadd", "bvsub", "bvmul":
		if lo == 0 && hi < 16 && t.W <= 64 { // low bits of a sum depend only on low bits
			return tb.Bin(t.Op, tb.Extract(t.Args[0], hi, 0), tb.Extract(t.Args[1], hi, 0))
		}
	}
	return tb.mk("extract", w, uint64(hi)<<16|uint64(lo), "", t)
}

func (tb *TB) Concat(hi, lo *Term) *Term {
	if hi.IsConst() && lo.IsConst() {
		v := new(big.Int).Lsh(hi.big(), uint(lo.W))
		v.Or(v, lo.big())
		return tb.BigConst(hi.W+lo.W, v)
	}
	// concat(extract(t, n-1, k), extract(t, k-1, 0)) = t
	if hi.Op == "extract" && lo.Op == "extract" && hi.Args[0] == lo.Args[0] {
		t := hi.Args[0]
		hh, hl := int(hi.K>>16), int(hi.K&0xffff)
		lh, ll := int(lo.K>>16), int(lo.K&0xffff)
		if hl == lh+1 {
			return tb.Extract(t, hh, ll)
		}
	}
	// concat(sext(msb(lo)), lo) = sext(lo)
	if hi.Op == "sext" && hi.Args[0].Op == "extract" && hi.Args[0].Args[0] == lo && hi.Args[0].W == 1 && int(hi.Args[0].K>>16) == lo.W-1 {
		return tb.Ext("sext", lo, hi.W+lo.W)
	}
	if hi.Op == "extract" && hi.W == 1 && hi.Args[0] == lo && int(hi.K>>16) == lo.W-1 {
		return tb.Ext("sext", lo, 1+lo.W)
	}
	// concat(extract(sext(x)) high part, x)
	if hi.Op == "extract" && hi.Args[0].Op == "sext" && hi.Args[0].Args[0] == lo && int(hi.K&0xffff) == lo.W {
		return tb.Extract(hi.Args[0], int(hi.K>>16), 0)
	}
	if hi.IsConst() && hi.big().Sign() == 0 {
		return tb.Ext("zext", lo, hi.W+lo.W)
	}
	return tb.mk("concat", hi.W+lo.W, 0, "", hi, lo)
}

func (tb *TB) Ext(op string, t *Term, w int) *Term { // sext/zext to width w
	if w == t.W {
		return t
	}
	if w < t.W {
		return tb.Extract(t, w-1, 0)
	}
	if t.IsConst() {
		if op == "sext" {
			return tb.BigConst(w, t.sbig())
		}
		return tb.BigConst(w, t.big())
	}
	if iteConstLeaves(t, 0) {
		return tb.Ite(t.Args[0], tb.Ext(op, t.Args[1], w), tb.Ext(op, t.Args[2], w))
	}
	if t.Op == op { // ext of ext
		return tb.Ext(op, t.Args[0], w)
	}
	if op == "sext" && t.Op == "zext" { // sext(zext(x)) = zext(x) (top bit is 0)
		return tb.Ext("zext", t.Args[0], w)
	}
	return tb.mk(op, w, 0, "", t)
}

func (tb *TB) Not(a *Term) *Term { return tb.Un("not", a) }

func (tb *TB) Un(op string, a *Term) *Term {
	if a.IsConst() {
		switch op {
		case "bvnot":
			if a.W > 64 {
				return tb.BigConst(a.W, new(big.Int).Xor(a.B, bigMask(a.W)))
			}
			return tb.Const(a.W, ^a.K)
		case "bvneg":
			if a.W > 64 {
				return tb.BigConst(a.W, new(big.Int).Neg(a.B))
			}
			return tb.Const(a.W, -a.K)
		case "not":
			return tb.BoolC(!a.BoolVal())
		}
	}
	switch op {
	case "bvneg":
		if b, ok := asBit(a); ok {
			return tb.Ext("sext", b, a.W)
		}
		if a.Op == "bvneg" {
			return a.Args[0]
		}
	case "not":
		if a.Op == "not" {
			return a.Args[0]
		}
	case "bvnot":
		if a.Op == "bvnot" {
			return a.Args[0]
		}
	}
	return tb.mk(op, a.W, 0, "", a)
}

func (tb *TB) Ite(c, a, b *Term) *Term {
	if c.IsConst() {
		if c.BoolVal() {
			return a
		}
		return b
	}
	if a == b {
		return a
	}
	if c.Op == "not" {
		return tb.Ite(c.Args[0], b, a)
	}
	if a.W == 0 {
		if a.IsConst() && b.IsConst() {
			if a.BoolVal() {
				return c
			}
			return tb.Not(c)
		}
		if a.IsConst() {
			if a.BoolVal() {
				return tb.Or(c, b)
			}
			return tb.And(tb.Not(c), b)
		}
		if b.IsConst() {
			if b.BoolVal() {
				return tb.Or(tb.Not(c), a)
			}
			return tb.And(c, a)
		}
	}
	return tb.mk("ite", a.W, 0, "", c, a, b)
}

func (tb *TB) ShlC(a *Term, sh int) *Term {
	if sh == 0 {
		return a
	}
	if sh >= a.W {
		return tb.Const(a.W, 0)
	}
	if a.IsConst() {
		if a.W > 64 {
			return tb.BigConst(a.W, new(big.Int).Lsh(a.B, uint(sh)))
		}
		return tb.Const(a.W, a.K<<uint(sh))
	}
	return tb.mk("shlc", a.W, uint64(sh), "", a)
}

func (tb *TB) LshrC(a *Term, sh int) *Term {
	if sh == 0 {
		return a
	}
	if sh >= a.W {
		return tb.Const(a.W, 0)
	}
	return tb.Ext("zext", tb.Extract(a, a.W-1, sh), a.W)
}

func (tb *TB) AshrC(a *Term, sh int) *Term {
	if sh == 0 {
		return a
	}
	if sh >= a.W {
		sh = a.W - 1
	}
	return tb.Ext("sext", tb.Extract(a, a.W-1, sh), a.W)
}

func (tb *TB) And(a, b *Term) *Term { return tb.Bin("and", a, b) }
func (tb *TB) Or(a, b *Term) *Term  { return tb.Bin("or", a, b) }
func (tb *TB) Eq(a, b *Term) *Term  { return tb.Bin("=", a, b) }

func isCommutative(op string) bool {
	switch op {
	case "bvadd", "bvmul", "bvand", "bvor", "bvxor", "=", "and", "or":
		return true
	}
	return false
}

func (tb *TB) foldBig(op string, a, b *Term) *Term {
	w := a.W
	x, y := a.big(), b.big()
	switch op {
	case "bvadd":
		return tb.BigConst(w, new(big.Int).Add(x, y))
	case "bvsub":
		return tb.BigConst(w, new(big.Int).Sub(x, y))
	case "bvmul":
		return tb.BigConst(w, new(big.Int).Mul(x, y))
	case "bvand":
		return tb.BigConst(w, new(big.Int).And(x, y))
	case "bvor":
		return tb.BigConst(w, new(big.Int).Or(x, y))
	case "bvxor":
		return tb.BigConst(w, new(big.Int).Xor(x, y))
	case "=":
		return tb.BoolC(x.Cmp(y) == 0)
	case "bvult":
		return tb.BoolC(x.Cmp(y) < 0)
	case "bvule":
		return tb.BoolC(x.Cmp(y) <= 0)
	case "bvslt":
		return tb.BoolC(a.sbig().Cmp(b.sbig()) < 0)
	case "bvsle":
		return tb.BoolC(a.sbig().Cmp(b.sbig()) <= 0)
	}
	return nil
}

func (tb *TB) Bin(op string, a, b *Term) *Term {
	w := a.W
	if a.W != b.W {
		panic(fmt.Sprintf("term width mismatch %s: %d vs %d", op, a.W, b.W))
	}
	if a.IsConst() && b.IsConst() {
		if w > 64 {
			if r := tb.foldBig(op, a, b); r != nil {
				return r
			}
		} else {
			x, y := a.K, b.K
			switch op {
			case "bvadd":
				return tb.Const(w, x+y)
			case "bvsub":
				return tb.Const(w, x-y)
			case "bvmul":
				return tb.Const(w, x*y)
			case "bvand":
				return tb.Const(w, x&y)
			case "bvor":
				return tb.Const(w, x|y)
			case "bvxor":
				return tb.Const(w, x^y)
			case "bvudiv":
				if y != 0 {
					return tb.Const(w, x/y)
				}
			case "bvurem":
				if y != 0 {
					return tb.Const(w, x%y)
				}
			case "bvsdiv":
				if y != 0 {
					sx, sy := sext(x, w), sext(y, w)
					if sy == -1 {
						return tb.Const(w, uint64(-sx))
					}
					return tb.Const(w, uint64(sx/sy))
				}
			case "bvsrem":
				if y != 0 {
					sx, sy := sext(x, w), sext(y, w)
					if sy == -1 {
						return tb.Const(w, 0)
					}
					return tb.Const(w, uint64(sx%sy))
				}
			case "bvshl":
				if y >= uint64(w) {
					return tb.Const(w, 0)
				}
				return tb.Const(w, x<<y)
			case "bvlshr":
				if y >= uint64(w) {
					return tb.Const(w, 0)
				}
				return tb.Const(w, x>>y)
			case "bvashr":
				if y >= uint64(w) {
					y = uint64(w - 1)
				}
				return tb.Const(w, uint64(sext(x, w)>>y))
			case "=":
				if a.W == 0 {
					return tb.BoolC(a.BoolVal() == b.BoolVal())
				}
				return tb.BoolC(x == y)
			case "bvult":
				return tb.BoolC(x < y)
			case "bvule":
				return tb.BoolC(x <= y)
			case "bvslt":
				return tb.BoolC(sext(x, w) < sext(y, w))
			case "bvsle":
				return tb.BoolC(sext(x, w) <= sext(y, w))
			case "and":
				return tb.BoolC(a.BoolVal() && b.BoolVal())
			case "or":
				return tb.BoolC(a.BoolVal() || b.BoolVal())
			}
		}
	}
	if isCommutative(op) {
		if a.IsConst() && !b.IsConst() {
			a, b = b, a
		} else if !a.IsConst() && !b.IsConst() && a.ID > b.ID {
			a, b = b, a
		}
	}
	bz := b.IsConst() && ((b.W <= 64 && b.K == 0 && b.W > 0) || (b.W > 64 && b.B.Sign() == 0))
	switch op {
	case "bvadd":
		if a == b && w <= 64 {
			return tb.ShlC(a, 1)
		}
		if bz {
			return a
		}
		// (x + c1) + c2
		if b.IsConst() && a.Op == "bvadd" && a.Args[1].IsConst() {
			return tb.Bin("bvadd", a.Args[0], tb.Bin("bvadd", a.Args[1], b))
		}
	case "bvsub":
		if a == b {
			return tb.Const(w, 0)
		}
		if bz {
			return a
		}
		if b.IsConst() {
			return tb.Bin("bvadd", a, tb.Un("bvneg", b))
		}
	case "bvmul":
		if b.IsConst() && w <= 64 {
			if b.K == 0 {
				return b
			}
			if b.K == 1 {
				return a
			}
		}
	case "bvxor":
		if a == b {
			return tb.Const(w, 0)
		}
		if bz {
			return a
		}
		if a.Op == "bvxor" && (a.Args[0] == b || a.Args[1] == b) {
			if a.Args[0] == b {
				return a.Args[1]
			}
			return a.Args[0]
		}
		if b.Op == "bvxor" && (b.Args[0] == a || b.Args[1] == a) {
			if b.Args[0] == a {
				return b.Args[1]
			}
			return b.Args[0]
		}
	case "bvand":
		if a == b {
			return a
		}
		if b.IsConst() && w <= 64 {
			if b.K == 0 {
				return tb.Const(w, 0)
			}
			if b.K == mask(w) {
				return a
			}
			if b.K == 1 {
				return tb.Ext("zext", tb.Extract(a, 0, 0), w)
			}
			// low mask 2^k-1
			if b.K&(b.K+1) == 0 {
				k := 0
				for (b.K>>uint(k))&1 == 1 {
					k++
				}
				return tb.Ext("zext", tb.Extract(a, k-1, 0), w)
			}
		}
	case "bvor":
		if a == b {
			return a
		}
		if bz {
			return a
		}
	case "bvshl":
		if b.IsConst() && w <= 64 {
			if b.K >= uint64(w) {
				return tb.Const(w, 0)
			}
			return tb.ShlC(a, int(b.K))
		}
	case "bvlshr":
		if b.IsConst() && w <= 64 {
			if b.K >= uint64(w) {
				return tb.Const(w, 0)
			}
			return tb.LshrC(a, int(b.K))
		}
	case "bvashr":
		if b.IsConst() && w <= 64 {
			return tb.AshrC(a, int(min(b.K, uint64(w))))
		}
	case "=":
		if a == b {
			return tb.BoolC(true)
		}
		if w == 0 && b.IsConst() {
			if b.BoolVal() {
				return a
			}
			return tb.Not(a)
		}
		// ite-tree with constant leaves = k
		if b.IsConst() && a.Op == "ite" && iteConstLeaves(a, 0) {
			return tb.distCmp("=", a, b, true)
		}
		// zext(x) = const
		if b.IsConst() && (a.Op == "zext") && w <= 64 {
			iw := a.Args[0].W
			if b.K>>uint(iw) != 0 {
				return tb.BoolC(false)
			}
			return tb.Eq(a.Args[0], tb.Const(iw, b.K))
		}
	case "and":
		if a == b {
			return a
		}
		if b.IsConst() {
			if b.BoolVal() {
				return a
			}
			return b
		}
		if (a.Op == "not" && a.Args[0] == b) || (b.Op == "not" && b.Args[0] == a) {
			return tb.BoolC(false)
		}
	case "or":
		if a == b {
			return a
		}
		if b.IsConst() {
			if b.BoolVal() {
				return b
			}
			return a
		}
		if (a.Op == "not" && a.Args[0] == b) || (b.Op == "not" && b.Args[0] == a) {
			return tb.BoolC(true)
		}
	case "bvult", "bvslt":
		if a == b {
			return tb.BoolC(false)
		}
	case "bvule", "bvsle":
		if a == b {
			return tb.BoolC(true)
		}
	}
	switch op {
	case "bvadd", "bvsub", "bvmul", "bvand", "bvor", "bvxor":
		if b.IsConst() && iteConstLeaves(a, 0) {
			return tb.distCmp(op, a, b, true)
		}
		if a.IsConst() && iteConstLeaves(b, 0) {
			return tb.distCmp(op, b, a, false)
		}
	}
	// comparison of an ite-tree with constant leaves against a constant: distribute (yields a boolean combination of
	// the ite conditions, which the explorer can decide atom by atom)
	switch op {
	case "bvult", "bvule", "bvslt", "bvsle":
		if b.IsConst() && iteConstLeaves(a, 0) {
			return tb.distCmp(op, a, b, true)
		}
		if a.IsConst() && iteConstLeaves(b, 0) {
			return tb.distCmp(op, b, a, false)
		}
	}
	if op == "bvult" && b.IsConst() && w <= 64 && a.Op == "zext" {
		iw := a.Args[0].W
		if b.K > mask(iw) {
			return tb.BoolC(true)
		}
	}
	rw := w
	switch op {
	case "=", "bvult", "bvule", "bvslt", "bvsle", "and", "or":
		rw = 0
	}
	return tb.mk(op, rw, 0, "", a, b)
}

// ---------- SMT-LIB printing ----------

func smtName(t *Term) string { return fmt.Sprintf("t%d", t.ID) }

func bvlit(t *Term) string {
	if t.W > 64 {
		s := t.B.Text(2)
		if len(s) < t.W {
			s = strings.Repeat("0", t.W-len(s)) + s
		}
		return "#b" + s
	}
	if t.W%4 == 0 {
		return fmt.Sprintf("#x%0*x", t.W/4, t.K&mask(t.W))
	}
	return fmt.Sprintf("#b%0*b", t.W, t.K&mask(t.W))
}

func sortOf(t *Term) string {
	if t.W == 0 {
		return "Bool"
	}
	return fmt.Sprintf("(_ BitVec %d)", t.W)
}

func body(t *Term) string {
	a := func(i int) string { return smtName(t.Args[i]) }
	switch t.Op {
	case "const":
		return bvlit(t)
	case "true", "false":
		return t.Op
	case "extract":
		return fmt.Sprintf("((_ extract %d %d) %s)", t.K>>16, t.K&0xffff, a(0))
	case "zext":
		return fmt.Sprintf("((_ zero_extend %d) %s)", t.W-t.Args[0].W, a(0))
	case "sext":
		return fmt.Sprintf("((_ sign_extend %d) %s)", t.W-t.Args[0].W, a(0))
	case "shlc":
		k := &Term{Op: "const", W: t.W, K: t.K}
		if t.W > 64 {
			k.B = new(big.Int).SetUint64(t.K)
		}
		return fmt.Sprintf("(bvshl %s %s)", a(0), bvlit(k))
	case "ite":
		return fmt.Sprintf("(ite %s %s %s)", a(0), a(1), a(2))
	case "concat":
		return fmt.Sprintf("(concat %s %s)", a(0), a(1))
	}
	parts := []string{t.Op}
	for i := range t.Args {
		parts = append(parts, a(i))
	}
	return "(" + strings.Join(parts, " ") + ")"
}

// standalone script for one query (used for cross-solver checks and dumps)
func standaloneScript(roots []*Term) string {
	var sb strings.Builder
	seen := map[int]bool{}
	var walk func(t *Term)
	walk = func(t *Term) {
		if seen[t.ID] {
			return
		}
		for _, a := range t.Args {
			walk(a)
		}
		seen[t.ID] = true
		if t.Op == "var" {
			fmt.Fprintf(&sb, "(declare-const %s %s) ; %s\n", smtName(t), sortOf(t), t.Name)
			return
		}
		fmt.Fprintf(&sb, "(define-fun %s () %s %s)\n", smtName(t), sortOf(t), body(t))
	}
	for _, r := range roots {
		walk(r)
	}
	for _, r := range roots {
		fmt.Fprintf(&sb, "(assert %s)\n", smtName(r))
	}
	sb.WriteString("(check-sat)\n")
	return sb.String()
}

func iteConstLeaves(t *Term, depth int) bool {
	if depth > 64 {
		return false
	}
	if t.Op == "ite" {
		return iteConstLeaves(t.Args[1], depth+1) && iteConstLeaves(t.Args[2], depth+1)
	}
	return t.IsConst() && depth > 0
}

func (tb *TB) distCmp(op string, tree, k *Term, treeLeft bool) *Term {
	if tree.Op == "ite" {
		return tb.Ite(tree.Args[0], tb.distCmp(op, tree.Args[1], k, treeLeft), tb.distCmp(op, tree.Args[2], k, treeLeft))
	}
	if treeLeft {
		return tb.Bin(op, tree, k)
	}
	return tb.Bin(op, k, tree)
}
