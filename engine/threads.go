package main

// Logical threads: a deterministic two-level scheduler for the ONE interleaving family the lock discipline of the code
// under test decides. vxSpawn(f) starts a second logical thread at the point of the call (typically inside a storage
// model call of the first thread, i.e. inside one of its critical sections) and runs it until it finishes or blocks on a
// mutex another logical thread holds; the spawner then continues. When the holder releases the mutex the blocked thread
// is resumed AT ONCE and runs again until it finishes or blocks. Exactly one logical thread runs at a time (hand-off
// over channels); each is a Go goroutine running the same interpreter, so path state (store, path condition,
// decisions) is shared and the exploration stays a replay-based DFS. What the schedule covers: "the other thread
// arrives while this critical section is open and gets in as soon as the lock it needs is free" - other schedules are
// outside the claim of a harness using it. Go's writer preference for RWMutex is not modelled.

import "fmt"

type thrMsg struct {
	kill bool
	pan  any
}

type thread struct {
	id         int
	resume     chan thrMsg
	dead       chan struct{}
	returnTo   *thread
	done       bool
	started    bool
	blockedOn  *Cell
	blockedW   bool
	savedCur   *frame
	savedDepth int
}

func (in *Interp) curThread() *thread { return in.thr }

func (in *Interp) initThreads() {
	in.mainThr = &thread{id: 0, resume: make(chan thrMsg), started: true}
	in.thr = in.mainThr
	in.threads = []*thread{in.mainThr}
}

// hand control to t and park until someone hands it back
func (in *Interp) switchTo(t *thread, m thrMsg) {
	me := in.thr
	me.savedCur, me.savedDepth = in.cur, in.depth
	in.thr = t
	t.resume <- m
	in.park(me)
}

func (in *Interp) park(me *thread) {
	r := <-me.resume
	in.thr = me
	in.cur, in.depth = me.savedCur, me.savedDepth
	if r.kill {
		panic(pathAbort{kind: "killed", reason: "logical thread torn down at end of path"})
	}
	if r.pan != nil {
		panic(r.pan)
	}
}

func (in *Interp) spawn(f Value) {
	me := in.curThread()
	t := &thread{id: len(in.threads), resume: make(chan thrMsg), dead: make(chan struct{}), returnTo: me}
	in.threads = append(in.threads, t)
	go func() {
		defer close(t.dead)
		first := <-t.resume
		if first.kill {
			return
		}
		t.started = true
		var pan any
		func() {
			defer func() {
				if r := recover(); r != nil {
					pan = r
				}
			}()
			in.thr = t
			in.cur, in.depth = nil, 0
			in.doCall(f, nil)
		}()
		t.done = true
		if pa, ok := pan.(pathAbort); ok && pa.kind == "killed" {
			return
		}
		in.thr = nil // whoever receives sets it
		t.returnTo.resume <- thrMsg{pan: pan}
	}()
	in.switchTo(t, thrMsg{})
}

// the running thread cannot take lock c: park it until an unlock hands the lock over
func (in *Interp) blockOn(c *Cell, write bool) {
	me := in.curThread()
	if me.returnTo == nil {
		// the main thread blocks: run whoever holds the lock? Every other thread is parked on a lock or finished, and
		// a parked thread only wakes on an unlock, so nobody can release it.
		unsupported("deadlock: the initial logical thread blocks on a mutex held by a parked thread (%s)", in.cur.fn.String())
	}
	me.blockedOn, me.blockedW = c, write
	me.savedCur, me.savedDepth = in.cur, in.depth
	ret := me.returnTo
	in.thr = nil
	ret.resume <- thrMsg{}
	in.park(me)
}

// after an unlock of c by the running thread: resume the first thread parked on c whose request can now be granted
func (in *Interp) wakeWaiters(c *Cell) {
	if len(in.threads) < 2 {
		return
	}
	for {
		var w *thread
		ls := in.locks[c]
		for _, t := range in.threads {
			if t.done || t.blockedOn != c || t == in.thr {
				continue
			}
			if t.blockedW && (ls.writer || ls.readers > 0) {
				continue
			}
			if !t.blockedW && ls.writer {
				continue
			}
			w = t
			break
		}
		if w == nil {
			return
		}
		w.blockedOn = nil
		w.returnTo = in.thr
		in.switchTo(w, thrMsg{})
	}
}

func (in *Interp) unfinishedThreads() string {
	for _, t := range in.threads {
		if t != in.mainThr && t.started && !t.done {
			return fmt.Sprintf("logical thread %d is still blocked on a mutex at the end of the path", t.id)
		}
	}
	return ""
}

// tear down every parked logical thread (end of path, normal or not); runs on the initial thread's goroutine
func (in *Interp) killThreads() {
	for _, t := range in.threads {
		if t == in.mainThr || t.done {
			continue
		}
		select {
		case t.resume <- thrMsg{kill: true}:
			<-t.dead
		case <-t.dead:
		}
	}
	in.threads, in.thr, in.mainThr = nil, nil, nil
}
