package main

// Call-site census (property C01 (e)): enumerate, in the SSA of the packages loaded from source, every call that
// writes to a physical.Backend-typed value (interface method Put / Delete, and transactions' Put / Delete) outside the
// barrier package, and compare the set of enclosing functions with a committed allow-list. This is an SSA enumeration,
// not a solver query: it is the only way this family can speak about "every call site".

import (
	"bufio"
	"fmt"
	"go/types"
	"os"
	"sort"
	"strings"

	"golang.org/x/tools/go/ssa"
	"golang.org/x/tools/go/ssa/ssautil"
)

type censusSite struct {
	Fn, Method, Recv, Pos string
}

func isPhysicalWriter(t types.Type) bool {
	s := types.TypeString(t, nil)
	s = strings.TrimPrefix(s, "*")
	// the storage interfaces of sdk/physical (Backend, Transaction, TransactionalBackend, ...) and types embedding them
	return strings.HasPrefix(s, "github.com/openbao/openbao/sdk/v2/physical.")
}

func runCensus(prog *ssa.Program, scopePrefix string, exclude []string) []censusSite {
	var sites []censusSite
	for fn := range ssautil.AllFunctions(prog) {
		if fn.Pkg == nil || fn.Blocks == nil {
			continue
		}
		pp := fn.Pkg.Pkg.Path()
		if !strings.HasPrefix(pp, scopePrefix) {
			continue
		}
		skip := false
		for _, e := range exclude {
			if pp == e || strings.HasPrefix(pp, e+"/") {
				skip = true
			}
		}
		if skip || strings.HasPrefix(fn.Name(), "Vx") || strings.HasPrefix(fn.Name(), "vx") {
			continue
		}
		if fn.Synthetic != "" && !strings.Contains(fn.Synthetic, "bound method") {
			continue // wrappers / thunks repeat the call sites of the functions they wrap
		}
		for _, b := range fn.Blocks {
			for _, ins := range b.Instrs {
				ci, ok := ins.(ssa.CallInstruction)
				if !ok {
					continue
				}
				cc := ci.Common()
				var name string
				var recv types.Type
				if cc.IsInvoke() {
					name, recv = cc.Method.Name(), cc.Value.Type()
				} else if callee := cc.StaticCallee(); callee != nil && callee.Signature.Recv() != nil {
					name, recv = callee.Name(), callee.Signature.Recv().Type()
				} else {
					continue
				}
				if name != "Put" && name != "Delete" {
					continue
				}
				if !isPhysicalWriter(recv) {
					continue
				}
				root := fn
				for root.Parent() != nil {
					root = root.Parent()
				}
				sites = append(sites, censusSite{Fn: root.String(), Method: name, Recv: types.TypeString(recv, nil), Pos: prog.Fset.Position(ins.Pos()).String()})
			}
		}
	}
	sort.Slice(sites, func(i, j int) bool {
		if sites[i].Fn != sites[j].Fn {
			return sites[i].Fn < sites[j].Fn
		}
		return sites[i].Pos < sites[j].Pos
	})
	return sites
}

// allow-list: one enclosing function per line ('#' comments)
func loadAllow(path string) (map[string]bool, error) {
	f, err := os.Open(path)
	if err != nil {
		return nil, err
	}
	defer f.Close()
	out := map[string]bool{}
	sc := bufio.NewScanner(f)
	for sc.Scan() {
		l := strings.TrimSpace(sc.Text())
		if l == "" || strings.HasPrefix(l, "#") {
			continue
		}
		out[strings.Fields(l)[0]] = true
	}
	return out, sc.Err()
}

func censusReport(sites []censusSite, allow map[string]bool) (bad []censusSite, fns []string, stale []string) {
	seen := map[string]bool{}
	for _, s := range sites {
		if !seen[s.Fn] {
			seen[s.Fn] = true
			fns = append(fns, s.Fn)
		}
		if !allow[s.Fn] {
			bad = append(bad, s)
		}
	}
	for a := range allow {
		if !seen[a] {
			stale = append(stale, a)
		}
	}
	sort.Strings(stale)
	return
}

func (s censusSite) String() string {
	return fmt.Sprintf("%s calls %s on %s at %s", s.Fn, s.Method, s.Recv, s.Pos)
}
