package main

import (
	"fmt"
	"math/big"
	"os"
	"sort"
	"strings"
	"sync"
	"time"
)

type decision struct {
	kind byte // 'b' branch, 'f' forced branch (implied by pc), 'v' concretised value, 'a' assume, 'c' nondet choice
	val  uint64
}

func decStr(ds []decision) string {
	var sb strings.Builder
	for _, d := range ds {
		fmt.Fprintf(&sb, "%c%d.", d.kind, d.val)
	}
	return sb.String()
}

type pathAbort struct {
	reason string
	kind   string // "infeasible", "unsupported", "bound", "stop"
}

type Cex struct {
	Entry     string            `json:"entry"`
	Label     string            `json:"label"`
	Kind      string            `json:"kind"` // "assert" | "panic"
	Decisions string            `json:"decisions"`
	Model     map[string]string `json:"model"`
	Note      string            `json:"note,omitempty"`
	Confirmed bool              `json:"confirmed_by_concrete_replay"`
	Trace     []string          `json:"trace,omitempty"`
}

// Shared state of one entry exploration across workers.
type Shared struct {
	mu        sync.Mutex
	cond      *sync.Cond
	work      [][]decision
	active    int
	stop      bool
	deadline  time.Time
	maxPaths  int
	Paths     int
	Aborted   map[string]int // reason → count (unsupported / bound)
	Infeas    int
	Asserts   int
	Trivial   int
	Discharge int
	Unknown   int
	Cexs      []*Cex
	cexSeen   map[string]int
	Reached   map[string]int
	Labels    map[string]int // assertion label → times checked
	Samples   []map[string]any
	Scripts   []string // assertion queries (standalone) for cross-check
	maxScript int
	Instr     int64
	Funcs     map[string]int64
	SolverQ   int
	SolverSat int
	SolverUns int
	SolverUnk int
	SolverT   time.Duration
	Nontriv   map[string]bool
	MaxPC     int
	Intrinsic map[string]int
	Redirects map[string]int
	Notes     map[string]int
}

func NewShared() *Shared {
	sh := &Shared{Aborted: map[string]int{}, cexSeen: map[string]int{}, Reached: map[string]int{}, Labels: map[string]int{}, Funcs: map[string]int64{}, Nontriv: map[string]bool{}, Intrinsic: map[string]int{}, Redirects: map[string]int{}, Notes: map[string]int{}}
	sh.cond = sync.NewCond(&sh.mu)
	return sh
}

func (sh *Shared) pushWork(p []decision) {
	sh.mu.Lock()
	sh.work = append(sh.work, p)
	sh.mu.Unlock()
	sh.cond.Signal()
}

// popWork blocks until work is available or everything is done.
func (sh *Shared) popWork() ([]decision, bool) {
	sh.mu.Lock()
	defer sh.mu.Unlock()
	for {
		if sh.stop {
			return nil, false
		}
		if len(sh.work) > 0 {
			p := sh.work[len(sh.work)-1]
			sh.work = sh.work[:len(sh.work)-1]
			sh.active++
			return p, true
		}
		if sh.active == 0 {
			sh.cond.Broadcast()
			return nil, false
		}
		sh.cond.Wait()
	}
}

func (sh *Shared) donePath() {
	sh.mu.Lock()
	sh.active--
	if sh.active == 0 && len(sh.work) == 0 {
		sh.cond.Broadcast()
	}
	sh.mu.Unlock()
}

type Explorer struct {
	sh      *Shared
	s       *Solver
	tb      *TB
	entry   string
	prefix  []decision
	idx     int
	pc      []*Term
	known   map[int]bool
	idom    map[int]*intDom  // wider signed variables constrained only by comparisons with constants
	dom     map[int]*byteDom // 8-bit variables constrained only by single-variable comparisons with constants
	tangled map[int]bool     // variables that occur in a multi-variable / non-pattern path-condition conjunct
	DomHits int
	vars    []*Term // nondet variables created on this path, in order
	varSeen map[string]bool
	steps   int64
	maxStep int64
	// concrete replay mode
	concrete bool
	model    map[string]*big.Int
	failed   string // label of failed assertion in concrete mode
	trace    []string
	ntriv    bool
	reachedP map[string]bool
	qTimeout bool
}

func (e *Explorer) abort(kind, reason string) {
	panic(pathAbort{reason: reason, kind: kind})
}

// byteDom: set of values still possible for an 8-bit variable
type byteDom [4]uint64

func fullDom() *byteDom           { return &byteDom{^uint64(0), ^uint64(0), ^uint64(0), ^uint64(0)} }
func (d *byteDom) has(v int) bool { return d[v>>6]>>(uint(v)&63)&1 == 1 }
func (d *byteDom) empty() bool    { return d[0]|d[1]|d[2]|d[3] == 0 }
func (d *byteDom) and(o *byteDom) *byteDom {
	return &byteDom{d[0] & o[0], d[1] & o[1], d[2] & o[2], d[3] & o[3]}
}
func (d *byteDom) andNot(o *byteDom) *byteDom {
	return &byteDom{d[0] &^ o[0], d[1] &^ o[1], d[2] &^ o[2], d[3] &^ o[3]}
}

// satSet: if c is a comparison of one 8-bit variable with a constant, the variable and the set of values making c true
func satSet(c *Term) (*Term, *byteDom) {
	neg := false
	for c.Op == "not" {
		c = c.Args[0]
		neg = !neg
	}
	if len(c.Args) != 2 {
		return nil, nil
	}
	a, b := c.Args[0], c.Args[1]
	var v *Term
	var k int
	varLeft := false
	switch {
	case a.Op == "var" && a.W == 8 && b.Op == "const":
		v, k, varLeft = a, int(b.K), true
	case b.Op == "var" && b.W == 8 && a.Op == "const":
		v, k = b, int(a.K)
	default:
		return nil, nil
	}
	d := &byteDom{}
	for x := 0; x < 256; x++ {
		l, r := x, k
		if !varLeft {
			l, r = k, x
		}
		var t bool
		switch c.Op {
		case "=":
			t = l == r
		case "bvult":
			t = l < r
		case "bvule":
			t = l <= r
		case "bvslt":
			t = int8(l) < int8(r)
		case "bvsle":
			t = int8(l) <= int8(r)
		default:
			return nil, nil
		}
		if t != neg {
			d[x>>6] |= 1 << (uint(x) & 63)
		}
	}
	return v, d
}

// ---- interval domain for wider signed variables: comparisons of one variable with a constant ----

type intDom struct {
	lo, hi int64 // in unsigned mode: values with the top bit flipped (order-preserving map of uint64 to int64)
	holes  []int64
	uns    bool // ordered comparisons seen so far were unsigned
	w      int
	bad    bool // signed and unsigned comparisons mixed in a way the interval cannot represent
}

const flip = -1 << 63

func (d *intDom) empty() bool {
	if d.lo > d.hi {
		return true
	}
	span := uint64(d.hi - d.lo)
	if span >= uint64(len(d.holes)) {
		return false
	}
	n := 0
	seen := map[int64]bool{}
	for _, h := range d.holes {
		if h >= d.lo && h <= d.hi && !seen[h] {
			seen[h] = true
			n++
		}
	}
	return uint64(n) > span
}

// intAtom: c is (not)* cmp(var, const) or cmp(const, var) on a variable wider than 8 bits with a signed comparison or
// equality. Returns the variable, a normalised relation of the variable to k ("lt","le","gt","ge","eq") and negation.
func intAtom(c *Term) (*Term, string, int64, bool, bool) {
	neg := false
	for c.Op == "not" {
		c = c.Args[0]
		neg = !neg
	}
	if len(c.Args) != 2 {
		return nil, "", 0, false, false
	}
	a, b := c.Args[0], c.Args[1]
	var v, k *Term
	varLeft := false
	switch {
	case a.Op == "var" && a.W > 8 && a.W <= 64 && b.Op == "const":
		v, k, varLeft = a, b, true
	case b.Op == "var" && b.W > 8 && b.W <= 64 && a.Op == "const":
		v, k = b, a
	default:
		return nil, "", 0, false, false
	}
	kv := sext(k.K, k.W)
	rel := ""
	switch c.Op {
	case "=":
		rel = "eq"
	case "bvslt":
		rel = map[bool]string{true: "lt", false: "gt"}[varLeft]
	case "bvsle":
		rel = map[bool]string{true: "le", false: "ge"}[varLeft]
	case "bvult":
		rel = map[bool]string{true: "ult", false: "ugt"}[varLeft]
		kv = int64(k.K)
	case "bvule":
		rel = map[bool]string{true: "ule", false: "uge"}[varLeft]
		kv = int64(k.K)
	default:
		return nil, "", 0, false, false
	}
	return v, rel, kv, neg, true
}

func fullInt(w int) *intDom {
	if w >= 64 {
		return &intDom{lo: -1 << 63, hi: 1<<63 - 1, w: 64}
	}
	return &intDom{lo: -(int64(1) << uint(w-1)), hi: int64(1)<<uint(w-1) - 1, w: w}
}

// toUnsigned re-expresses a signed-mode domain in unsigned mode when the interval does not straddle the sign boundary
func (d *intDom) toUnsigned() *intDom {
	full := fullInt(d.w)
	n := &intDom{uns: true, w: d.w}
	conv := func(x int64) int64 { // signed value → unsigned key
		u := uint64(x) & mask(d.w)
		return int64(u) ^ flip
	}
	switch {
	case d.lo == full.lo && d.hi == full.hi:
		n.lo, n.hi = conv(0), int64(mask(d.w))^flip
	case d.lo >= 0 || d.hi < 0:
		n.lo, n.hi = conv(d.lo), conv(d.hi)
	default:
		n.bad = true
		return n
	}
	for _, h := range d.holes {
		n.holes = append(n.holes, conv(h))
	}
	return n
}

// restrict d by (v rel k) being truth
func (d *intDom) restrict(rel string, k int64, truth bool) *intDom {
	if d.bad {
		return d
	}
	if strings.HasPrefix(rel, "u") {
		if !d.uns {
			d = d.toUnsigned()
			if d.bad {
				return d
			}
		}
		rel = rel[1:]
		k = int64(uint64(k)&mask(d.w)) ^ flip
	} else if d.uns {
		if rel == "eq" {
			k = int64(uint64(k)&mask(d.w)) ^ flip
		} else {
			return &intDom{bad: true, w: d.w} // signed comparison on an unsigned-mode domain
		}
	}
	n := &intDom{lo: d.lo, hi: d.hi, holes: d.holes, uns: d.uns, w: d.w}
	if !truth {
		switch rel {
		case "lt":
			rel = "ge"
		case "le":
			rel = "gt"
		case "gt":
			rel = "le"
		case "ge":
			rel = "lt"
		case "eq":
			n.holes = append(append([]int64{}, d.holes...), k)
			for n.lo <= n.hi && n.isHole(n.lo) {
				n.lo++
			}
			for n.lo <= n.hi && n.isHole(n.hi) {
				n.hi--
			}
			return n
		}
	}
	switch rel {
	case "lt":
		if k == -1<<63 {
			n.lo, n.hi = 1, 0
		} else if k-1 < n.hi {
			n.hi = k - 1
		}
	case "le":
		if k < n.hi {
			n.hi = k
		}
	case "gt":
		if k == 1<<63-1 {
			n.lo, n.hi = 1, 0
		} else if k+1 > n.lo {
			n.lo = k + 1
		}
	case "ge":
		if k > n.lo {
			n.lo = k
		}
	case "eq":
		if k < n.lo || k > n.hi || n.isHole(k) {
			n.lo, n.hi = 1, 0
		} else {
			n.lo, n.hi = k, k
		}
	}
	for n.lo <= n.hi && n.isHole(n.lo) {
		n.lo++
	}
	for n.lo <= n.hi && n.isHole(n.hi) {
		n.hi--
	}
	return n
}

func (d *intDom) isHole(x int64) bool {
	for _, h := range d.holes {
		if h == x {
			return true
		}
	}
	return false
}

func termVars(t *Term, acc map[int]bool, seen map[int]bool) {
	if seen[t.ID] {
		return
	}
	seen[t.ID] = true
	if t.Op == "var" {
		acc[t.ID] = true
	}
	for _, a := range t.Args {
		termVars(a, acc, seen)
	}
}

var qstat = os.Getenv("VX_QSTAT") != ""

func shape(t *Term, depth int) string {
	if depth == 0 || len(t.Args) == 0 {
		if t.Op == "var" {
			return fmt.Sprintf("v%d", t.W)
		}
		if t.IsConst() {
			return "k"
		}
		return t.Op + "…"
	}
	parts := []string{}
	for _, a := range t.Args {
		parts = append(parts, shape(a, depth-1))
	}
	return t.Op + "(" + strings.Join(parts, ",") + ")"
}

func flattenAnd(c *Term, out []*Term) []*Term {
	if c.Op == "and" {
		out = flattenAnd(c.Args[0], out)
		return flattenAnd(c.Args[1], out)
	}
	return append(out, c)
}

func (e *Explorer) noteDomain(c *Term) {
	if c.Op == "and" {
		e.noteDomain(c.Args[0])
		e.noteDomain(c.Args[1])
		return
	}
	if v, d := satSet(c); v != nil && !e.tangled[v.ID] {
		cur := e.dom[v.ID]
		if cur == nil {
			cur = fullDom()
		}
		e.dom[v.ID] = cur.and(d)
		return
	}
	if b := c; b.Op == "var" || (b.Op == "not" && b.Args[0].Op == "var") {
		if b.Op == "not" {
			b = b.Args[0]
		}
		if b.W == 0 && !e.tangled[b.ID] {
			return
		}
	}
	if v, rel, k, neg, ok := intAtom(c); ok && !e.tangled[v.ID] {
		cur := e.idom[v.ID]
		if cur == nil {
			cur = fullInt(v.W)
		}
		nd := cur.restrict(rel, k, !neg)
		if !nd.bad {
			e.idom[v.ID] = nd
			return
		}
		// falls through: the variable becomes tangled
	}
	// any other conjunct entangles its variables: domain reasoning is no longer complete for them
	if qstat {
		e.sh.mu.Lock()
		e.sh.Notes["tangling conjunct shape: "+shape(c, 4)]++
		e.sh.mu.Unlock()
	}
	acc := map[int]bool{}
	termVars(c, acc, map[int]bool{})
	for id := range acc {
		e.tangled[id] = true
		delete(e.dom, id)
		delete(e.idom, id)
	}
}

// domainDecide: (trueFeasible, falseFeasible, ok) from the byte domain alone; ok=false → ask the solver
func (e *Explorer) domainDecide(c *Term) (bool, bool, bool) {
	if c.Op == "var" && c.W == 0 && !e.tangled[c.ID] {
		return true, true, true // a boolean variable not mentioned by any other conjunct (its value, once decided, is in 'known')
	}
	if v, rel, k, neg, ok := intAtom(c); ok {
		if e.tangled[v.ID] {
			return false, false, false
		}
		cur := e.idom[v.ID]
		if cur == nil {
			cur = fullInt(v.W)
		}
		dt, df := cur.restrict(rel, k, !neg), cur.restrict(rel, k, neg)
		if dt.bad || df.bad {
			return false, false, false
		}
		return !dt.empty(), !df.empty(), true
	}
	v, d := satSet(c)
	if v == nil || e.tangled[v.ID] {
		return false, false, false
	}
	cur := e.dom[v.ID]
	if cur == nil {
		cur = fullDom()
	}
	return !cur.and(d).empty(), !cur.andNot(d).empty(), true
}

func (e *Explorer) addPC(c *Term) {
	e.noteDomain(c)
	e.pc = append(e.pc, c)
	e.known[c.ID] = true
	if c.Op == "not" {
		e.known[c.Args[0].ID] = false
	} else if c.Op == "and" { // both conjuncts hold
		for _, a := range c.Args {
			e.known[a.ID] = true
			if a.Op == "not" {
				e.known[a.Args[0].ID] = false
			}
		}
	}
	e.s.Assert(c)
}

func (e *Explorer) lookupKnown(c *Term) (bool, bool) {
	if v, ok := e.known[c.ID]; ok {
		return v, true
	}
	if c.Op == "not" {
		if v, ok := e.known[c.Args[0].ID]; ok {
			return !v, true
		}
	}
	return false, false
}

func (e *Explorer) NewVar(name string, w int) *Term {
	// deterministic unique naming by creation sequence
	n := fmt.Sprintf("%s#%d", name, len(e.vars))
	if e.concrete {
		v, ok := e.model[n]
		if !ok {
			v = new(big.Int)
		}
		t := e.tb.BigConst(w, v)
		if w == 0 {
			t = e.tb.BoolC(v.Sign() != 0)
		}
		e.vars = append(e.vars, e.tb.Var(n, w)) // keep numbering aligned
		return t
	}
	t := e.tb.Var(n, w)
	e.vars = append(e.vars, t)
	return t
}

// Branch returns the direction to follow for condition c on this path.
func (e *Explorer) Branch(c *Term) bool {
	if c.IsConst() {
		return c.BoolVal()
	}
	if e.sh.stop && !e.concrete {
		e.abort("stop", "exploration stopped")
	}
	if !e.sh.deadline.IsZero() && !e.concrete && time.Now().After(e.sh.deadline) {
		e.sh.mu.Lock()
		if !e.sh.stop {
			e.sh.stop = true
			e.sh.Aborted["bound: time limit reached"]++
			e.sh.cond.Broadcast()
		}
		e.sh.mu.Unlock()
		e.abort("stop", "time limit")
	}
	if e.concrete {
		panic(fmt.Sprintf("concrete replay met symbolic condition %s", body(c)))
	}
	if c.Op == "not" {
		return !e.Branch(c.Args[0])
	}
	if v, ok := e.lookupKnown(c); ok {
		return v
	}
	// A boolean combination whose atoms are all single-byte comparisons over untangled variables is decided atom by
	// atom (short-circuit order): every decision is then a single-variable fact, needs no solver query and keeps
	// the variables untangled. (The path condition stays equivalent: the cases are disjoint and exhaustive.)
	switch c.Op {
	case "and", "or", "ite":
		if e.decomposable(c, 0) {
			r := e.branchTree(c)
			e.known[c.ID] = r
			return r
		}
	}
	e.ntriv = true
	if e.idx < len(e.prefix) {
		d := e.prefix[e.idx]
		e.idx++
		if d.kind == 'd' { // conjunction falsified at conjunct d.val, earlier conjuncts true
			conj := flattenAnd(c, nil)
			for i := 0; i < int(d.val); i++ {
				e.addPC(conj[i])
			}
			e.addPC(e.tb.Not(conj[d.val]))
			e.known[c.ID] = false
			return false
		}
		if d.kind != 'b' && d.kind != 'f' {
			panic(fmt.Sprintf("replay misaligned: expected branch, have %c at %d (%s)", d.kind, e.idx-1, e.entry))
		}
		cc := c
		if d.val == 0 {
			cc = e.tb.Not(c)
		}
		if d.kind == 'f' {
			e.known[c.ID] = d.val == 1
		} else {
			e.addPC(cc)
		}
		return d.val == 1
	}
	var tOK, fOK bool
	if t, f, ok := e.domainDecide(c); ok {
		tOK, fOK = t, f
		e.DomHits++
	} else {
		if qstat {
			e.sh.mu.Lock()
			e.sh.Notes["solver-branch shape: "+shape(c, 3)]++
			e.sh.mu.Unlock()
		}
		rT := e.s.CheckWith(c)
		tOK = rT != "unsat"
		fOK = true
		if tOK {
			rF := e.s.CheckWith(e.tb.Not(c))
			fOK = rF != "unsat"
			if rT != "sat" || (rF != "sat" && rF != "unsat") {
				e.noteUnknown("feasibility query: " + rT + "/" + rF)
			}
		}
	}
	if !tOK && !fOK {
		e.abort("infeasible", "infeasible path")
	}
	if tOK && fOK {
		alt := append(append([]decision{}, e.prefix[:e.idx]...), decision{'b', 0})
		e.sh.pushWork(alt)
		e.prefix = append(e.prefix[:e.idx], decision{'b', 1})
		e.idx++
		e.addPC(c)
		return true
	}
	v := uint64(0)
	if tOK {
		v = 1
	}
	e.prefix = append(e.prefix[:e.idx], decision{'f', v})
	e.idx++
	e.known[c.ID] = tOK
	return tOK
}

// branchConj: a conjunction of single-byte comparisons over untangled variables is decided from the byte domains
// alone, and its negation is split into the disjoint cases "c0..c(i-1) hold, ci fails" so that the path condition
// stays a conjunction of single-variable facts (no solver query, variables stay untangled).
func (e *Explorer) branchConj(c *Term) (bool, bool) {
	conj := flattenAnd(c, nil)
	if len(conj) < 2 || len(conj) > 64 {
		return false, false
	}
	type vd struct {
		v *Term
		d *byteDom
	}
	vds := make([]vd, len(conj))
	for i, ci := range conj {
		v, d := satSet(ci)
		if v == nil || e.tangled[v.ID] {
			return false, false
		}
		vds[i] = vd{v, d}
	}
	tmp := map[int]*byteDom{}
	get := func(id int) *byteDom {
		if d, ok := tmp[id]; ok {
			return d
		}
		if d, ok := e.dom[id]; ok {
			return d
		}
		return fullDom()
	}
	var opts []decision
	prefixOK := true
	for i := range conj {
		if !prefixOK {
			break
		}
		cur := get(vds[i].v.ID)
		if !cur.andNot(vds[i].d).empty() {
			opts = append(opts, decision{'d', uint64(i)})
		}
		nd := cur.and(vds[i].d)
		if nd.empty() {
			prefixOK = false
		}
		tmp[vds[i].v.ID] = nd
	}
	if prefixOK {
		opts = append([]decision{{'b', 1}}, opts...)
	}
	e.DomHits++
	if len(opts) == 0 {
		e.abort("infeasible", "infeasible path")
	}
	for i := len(opts) - 1; i >= 1; i-- {
		alt := append(append([]decision{}, e.prefix[:e.idx]...), opts[i])
		e.sh.pushWork(alt)
	}
	d := opts[0]
	e.prefix = append(e.prefix[:e.idx], d)
	e.idx++
	if d.kind == 'b' {
		e.addPC(c)
		return true, true
	}
	for i := 0; i < int(d.val); i++ {
		e.addPC(conj[i])
	}
	e.addPC(e.tb.Not(conj[d.val]))
	e.known[c.ID] = false
	return false, true
}

func (e *Explorer) decomposable(c *Term, depth int) bool {
	if depth > 200 {
		return false
	}
	switch c.Op {
	case "true", "false":
		return true
	case "not":
		return e.decomposable(c.Args[0], depth+1)
	case "and", "or":
		return e.decomposable(c.Args[0], depth+1) && e.decomposable(c.Args[1], depth+1)
	case "ite":
		return c.W == 0 && e.decomposable(c.Args[0], depth+1) && e.decomposable(c.Args[1], depth+1) && e.decomposable(c.Args[2], depth+1)
	}
	if c.Op == "var" && c.W == 0 {
		return !e.tangled[c.ID]
	}
	if v, _, _, _, ok := intAtom(c); ok {
		return !e.tangled[v.ID]
	}
	v, _ := satSet(c)
	return v != nil && !e.tangled[v.ID]
}

func (e *Explorer) branchTree(c *Term) bool {
	switch c.Op {
	case "true":
		return true
	case "false":
		return false
	case "not":
		return !e.branchTree(c.Args[0])
	case "and":
		return e.branchTree(c.Args[0]) && e.branchTree(c.Args[1])
	case "or":
		return e.branchTree(c.Args[0]) || e.branchTree(c.Args[1])
	case "ite":
		if e.branchTree(c.Args[0]) {
			return e.branchTree(c.Args[1])
		}
		return e.branchTree(c.Args[2])
	}
	return e.Branch(c)
}

func (e *Explorer) noteUnknown(what string) {
	e.sh.mu.Lock()
	e.sh.Notes["solver-unknown: "+what]++
	e.sh.mu.Unlock()
}

// Concretize a BV term: fork over all feasible values (at most limit).
func (e *Explorer) Concretize(t *Term, limit int) *Term {
	if t.IsConst() {
		return t
	}
	if e.concrete {
		panic("concrete replay met symbolic value")
	}
	e.ntriv = true
	// an ite-tree is concretised by branching on its conditions (cheap when they are byte comparisons)
	for t.Op == "ite" {
		if e.Branch(t.Args[0]) {
			t = t.Args[1]
		} else {
			t = t.Args[2]
		}
	}
	if t.IsConst() {
		return t
	}
	if e.idx < len(e.prefix) {
		d := e.prefix[e.idx]
		e.idx++
		if d.kind != 'v' {
			panic(fmt.Sprintf("replay misaligned: expected value, have %c (%s)", d.kind, e.entry))
		}
		k := e.tb.Const(t.W, d.val)
		e.addPC(e.tb.Eq(t, k))
		return k
	}
	var vals []uint64
	lvl := e.s.Level()
	e.s.Push()
	complete := false
	for len(vals) <= limit {
		r, vs := e.s.CheckAndValues(nil, []*Term{t})
		if r == "unsat" {
			complete = true
			break
		}
		if r != "sat" {
			e.s.PopTo(lvl)
			e.abort("unsupported", "solver "+r+" while concretising")
		}
		v := vs[0].Uint64()
		vals = append(vals, v)
		e.s.Assert(e.tb.Not(e.tb.Eq(t, e.tb.Const(t.W, v))))
	}
	e.s.PopTo(lvl)
	if !complete {
		e.abort("bound", fmt.Sprintf("concretisation of a %d-bit value exceeds limit %d", t.W, limit))
	}
	if len(vals) == 0 {
		e.abort("infeasible", "infeasible path")
	}
	sort.Slice(vals, func(i, j int) bool { return vals[i] < vals[j] })
	for i := len(vals) - 1; i >= 1; i-- {
		alt := append(append([]decision{}, e.prefix[:e.idx]...), decision{'v', vals[i]})
		e.sh.pushWork(alt)
	}
	e.prefix = append(e.prefix[:e.idx], decision{'v', vals[0]})
	e.idx++
	k := e.tb.Const(t.W, vals[0])
	e.addPC(e.tb.Eq(t, k))
	return k
}

// Choose: fresh nondeterministic choice in [0,n), one path per value; no solver query is needed for a fresh variable.
func (e *Explorer) Choose(name string, n int) *Term {
	v := e.NewVar(name, 64)
	if e.concrete {
		return v
	}
	e.ntriv = true
	var k uint64
	if e.idx < len(e.prefix) {
		d := e.prefix[e.idx]
		e.idx++
		if d.kind != 'v' {
			panic(fmt.Sprintf("replay misaligned: expected choice, have %c (%s)", d.kind, e.entry))
		}
		k = d.val
	} else {
		for i := n - 1; i >= 1; i-- {
			alt := append(append([]decision{}, e.prefix[:e.idx]...), decision{'v', uint64(i)})
			e.sh.pushWork(alt)
		}
		e.prefix = append(e.prefix[:e.idx], decision{'v', 0})
		e.idx++
	}
	kt := e.tb.Const(64, k)
	e.addPC(e.tb.Eq(v, kt))
	return kt
}

func (e *Explorer) Assume(c *Term) {
	if c.IsConst() {
		if !c.BoolVal() {
			e.abort("infeasible", "assume false")
		}
		return
	}
	if e.concrete {
		panic("concrete replay met symbolic assume")
	}
	if v, ok := e.lookupKnown(c); ok {
		if !v {
			e.abort("infeasible", "assume false")
		}
		return
	}
	if e.idx < len(e.prefix) {
		d := e.prefix[e.idx]
		e.idx++
		if d.kind != 'a' {
			panic(fmt.Sprintf("replay misaligned: expected assume, have %c (%s)", d.kind, e.entry))
		}
		e.addPC(c)
		return
	}
	if r := e.s.CheckWith(c); r == "unsat" {
		e.abort("infeasible", "assume infeasible")
	} else if r != "sat" {
		e.noteUnknown("assume: " + r)
	}
	e.prefix = append(e.prefix[:e.idx], decision{'a', 1})
	e.idx++
	e.addPC(c)
}

func (e *Explorer) Reach(label string) {
	if e.reachedP == nil {
		e.reachedP = map[string]bool{}
	}
	e.reachedP[label] = true
}

func (e *Explorer) Trace(s string) {
	if len(e.trace) < 400 {
		e.trace = append(e.trace, s)
	}
}

func (e *Explorer) modelStrings(ts []*Term, vals []*big.Int) map[string]string {
	m := map[string]string{}
	for i, t := range ts {
		m[t.Name] = vals[i].String()
	}
	return m
}

// Assert checks pc ⇒ c.
func (e *Explorer) Assert(label string, c *Term) {
	sh := e.sh
	sh.mu.Lock()
	sh.Asserts++
	sh.Labels[label]++
	sh.mu.Unlock()
	if e.concrete {
		if !c.IsConst() {
			panic("concrete replay: symbolic assertion")
		}
		if !c.BoolVal() && e.failed == "" {
			e.failed = label
		}
		if !c.BoolVal() {
			e.abort("stop", "assertion failed (concrete)")
		}
		return
	}
	if c.IsConst() && c.BoolVal() {
		sh.mu.Lock()
		sh.Trivial++
		sh.Discharge++
		sh.mu.Unlock()
		return
	}
	if v, ok := e.lookupKnown(c); ok && v {
		sh.mu.Lock()
		sh.Trivial++
		sh.Discharge++
		sh.mu.Unlock()
		return
	}
	e.ntriv = true
	neg := e.tb.Not(c)
	sh.mu.Lock()
	if len(sh.Scripts) < sh.maxScript {
		roots := append(append([]*Term{}, e.pc...), neg)
		sh.Scripts = append(sh.Scripts, standaloneScript(roots))
	}
	if len(e.pc) > sh.MaxPC {
		sh.MaxPC = len(e.pc)
	}
	sh.mu.Unlock()
	r, vals := e.s.CheckAndValues(neg, e.vars)
	switch r {
	case "unsat":
		sh.mu.Lock()
		sh.Discharge++
		if len(sh.Samples) < 3 {
			sh.Samples = append(sh.Samples, map[string]any{"entry": e.entry, "obligation": label, "path_decisions": decStr(e.prefix[:e.idx]), "path_condition_conjuncts": len(e.pc), "verdict": "unsat (holds for all values on this path)", "nondet_vars": len(e.vars)})
		}
		sh.mu.Unlock()
		e.known[c.ID] = true
	case "sat":
		cex := &Cex{Entry: e.entry, Label: label, Kind: "assert", Decisions: decStr(e.prefix[:e.idx]), Model: e.modelStrings(e.vars, vals), Trace: append([]string{}, e.trace...)}
		e.recordCex(cex)
		e.abort("stop", "assertion violated")
	default:
		// second opinion: the incremental solver gave up within its budget (typically on a loaded machine); the
		// same obligation as a stand-alone script goes to a portfolio of fresh solver processes with a larger
		// budget. Only an "unsat" from one of them discharges the obligation; anything else stays inconclusive.
		roots := append(append([]*Term{}, e.pc...), neg)
		if who := secondOpinion(standaloneScript(roots), e.s.timeout); who != "" {
			sh.mu.Lock()
			sh.Discharge++
			sh.Notes["obligation decided by the fallback portfolio ("+who+") after the incremental solver gave up: "+label]++
			sh.mu.Unlock()
			e.known[c.ID] = true
			return
		}
		sh.mu.Lock()
		sh.Unknown++
		sh.Notes["assertion query inconclusive ("+r+"): "+label]++
		sh.mu.Unlock()
	}
}

func (e *Explorer) recordCex(cex *Cex) {
	sh := e.sh
	sh.mu.Lock()
	defer sh.mu.Unlock()
	key := cex.Kind + "|" + cex.Label
	sh.cexSeen[key]++
	if sh.cexSeen[key] <= 2 && len(sh.Cexs) < 40 {
		sh.Cexs = append(sh.Cexs, cex)
	}
}

// PanicEscaped: a Go panic left the harness entry. Needs a model of the path for replay.
func (e *Explorer) PanicEscaped(msg string) {
	if e.concrete {
		if e.failed == "" {
			e.failed = "panic: " + msg
		}
		return
	}
	var model map[string]string
	if len(e.vars) > 0 {
		r, vals := e.s.CheckAndValues(nil, e.vars)
		if r == "sat" {
			model = e.modelStrings(e.vars, vals)
		}
	}
	cex := &Cex{Entry: e.entry, Label: "panic: " + msg, Kind: "panic", Decisions: decStr(e.prefix[:e.idx]), Model: model, Trace: append([]string{}, e.trace...)}
	e.recordCex(cex)
}

// runPath executes fn along the decision prefix p.
func (e *Explorer) runPath(p []decision, fn func()) {
	e.s.PopTo(0)
	e.s.Push()
	e.tb.Reset()
	e.prefix = append([]decision{}, p...)
	e.idx = 0
	e.pc = e.pc[:0]
	e.known = map[int]bool{}
	e.dom = map[int]*byteDom{}
	e.idom = map[int]*intDom{}
	e.tangled = map[int]bool{}
	e.vars = e.vars[:0]
	e.steps = 0
	e.trace = e.trace[:0]
	e.ntriv = false
	e.reachedP = nil
	sh := e.sh
	func() {
		defer func() {
			if r := recover(); r != nil {
				if pa, ok := r.(pathAbort); ok {
					sh.mu.Lock()
					switch pa.kind {
					case "infeasible":
						sh.Infeas++
						e.reachedP = nil
					case "stop":
					default:
						sh.Aborted[pa.kind+": "+pa.reason]++
					}
					sh.mu.Unlock()
					return
				}
				panic(r)
			}
		}()
		fn()
	}()
	sh.mu.Lock()
	sh.Paths++
	if e.ntriv {
		sh.Nontriv[decStr(e.prefix[:e.idx])] = true
	}
	for l := range e.reachedP {
		sh.Reached[l]++
	}
	if sh.maxPaths > 0 && sh.Paths >= sh.maxPaths && !sh.stop {
		sh.stop = true
		sh.Aborted["bound: path limit reached"]++
		sh.cond.Broadcast()
	}
	if !sh.deadline.IsZero() && time.Now().After(sh.deadline) && !sh.stop {
		sh.stop = true
		sh.Aborted["bound: time limit reached"]++
		sh.cond.Broadcast()
	}
	sh.mu.Unlock()
}
