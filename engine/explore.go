package main

import (
	"fmt"
	"math/big"
	"sort"
	"strings"
	"sync"
	"time"
)

type decision struct {
	kind byte // 'b' branch, 'f' forced branch (implied by pc), 'v' concretised value, 'a' assume, 'c' nondet choice
	val  uint64
}

func decStr(ds []decision) string {
	var sb strings.Builder
	for _, d := range ds {
		fmt.Fprintf(&sb, "%c%d.", d.kind, d.val)
	}
	return sb.String()
}

type pathAbort struct {
	reason string
	kind   string // "infeasible", "unsupported", "bound", "stop"
}

type Cex struct {
	Entry     string            `json:"entry"`
	Label     string            `json:"label"`
	Kind      string            `json:"kind"` // "assert" | "panic"
	Decisions string            `json:"decisions"`
	Model     map[string]string `json:"model"`
	Note      string            `json:"note,omitempty"`
	Confirmed bool              `json:"confirmed_by_concrete_replay"`
	Trace     []string          `json:"trace,omitempty"`
}

// Shared state of one entry exploration across workers.
type Shared struct {
	mu        sync.Mutex
	cond      *sync.Cond
	work      [][]decision
	active    int
	stop      bool
	deadline  time.Time
	maxPaths  int
	Paths     int
	Aborted   map[string]int // reason → count (unsupported / bound)
	Infeas    int
	Asserts   int
	Trivial   int
	Discharge int
	Unknown   int
	Cexs      []*Cex
	cexSeen   map[string]int
	Reached   map[string]int
	Labels    map[string]int // assertion label → times checked
	Samples   []map[string]any
	Scripts   []string // assertion queries (standalone) for cross-check
	maxScript int
	Instr     int64
	Funcs     map[string]int64
	SolverQ   int
	SolverSat int
	SolverUns int
	SolverUnk int
	SolverT   time.Duration
	Nontriv   map[string]bool
	MaxPC     int
	Intrinsic map[string]int
	Redirects map[string]int
	Notes     map[string]int
}

func NewShared() *Shared {
	sh := &Shared{Aborted: map[string]int{}, cexSeen: map[string]int{}, Reached: map[string]int{}, Labels: map[string]int{}, Funcs: map[string]int64{}, Nontriv: map[string]bool{}, Intrinsic: map[string]int{}, Redirects: map[string]int{}, Notes: map[string]int{}}
	sh.cond = sync.NewCond(&sh.mu)
	return sh
}

func (sh *Shared) pushWork(p []decision) {
	sh.mu.Lock()
	sh.work = append(sh.work, p)
	sh.mu.Unlock()
	sh.cond.Signal()
}

// popWork blocks until work is available or everything is done.
func (sh *Shared) popWork() ([]decision, bool) {
	sh.mu.Lock()
	defer sh.mu.Unlock()
	for {
		if sh.stop {
			return nil, false
		}
		if len(sh.work) > 0 {
			p := sh.work[len(sh.work)-1]
			sh.work = sh.work[:len(sh.work)-1]
			sh.active++
			return p, true
		}
		if sh.active == 0 {
			sh.cond.Broadcast()
			return nil, false
		}
		sh.cond.Wait()
	}
}

func (sh *Shared) donePath() {
	sh.mu.Lock()
	sh.active--
	if sh.active == 0 && len(sh.work) == 0 {
		sh.cond.Broadcast()
	}
	sh.mu.Unlock()
}

type Explorer struct {
	sh      *Shared
	s       *Solver
	tb      *TB
	entry   string
	prefix  []decision
	idx     int
	pc      []*Term
	known   map[int]bool
	vars    []*Term // nondet variables created on this path, in order
	varSeen map[string]bool
	steps   int64
	maxStep int64
	// concrete replay mode
	concrete bool
	model    map[string]*big.Int
	failed   string // label of failed assertion in concrete mode
	trace    []string
	ntriv    bool
	reachedP map[string]bool
	qTimeout bool
}

func (e *Explorer) abort(kind, reason string) {
	panic(pathAbort{reason: reason, kind: kind})
}

func (e *Explorer) addPC(c *Term) {
	e.pc = append(e.pc, c)
	e.known[c.ID] = true
	if c.Op == "not" {
		e.known[c.Args[0].ID] = false
	} else if c.Op == "and" { // both conjuncts hold
		for _, a := range c.Args {
			e.known[a.ID] = true
			if a.Op == "not" {
				e.known[a.Args[0].ID] = false
			}
		}
	}
	e.s.Assert(c)
}

func (e *Explorer) lookupKnown(c *Term) (bool, bool) {
	if v, ok := e.known[c.ID]; ok {
		return v, true
	}
	if c.Op == "not" {
		if v, ok := e.known[c.Args[0].ID]; ok {
			return !v, true
		}
	}
	return false, false
}

func (e *Explorer) NewVar(name string, w int) *Term {
	// deterministic unique naming by creation sequence
	n := fmt.Sprintf("%s#%d", name, len(e.vars))
	if e.concrete {
		v, ok := e.model[n]
		if !ok {
			v = new(big.Int)
		}
		t := e.tb.BigConst(w, v)
		if w == 0 {
			t = e.tb.BoolC(v.Sign() != 0)
		}
		e.vars = append(e.vars, e.tb.Var(n, w)) // keep numbering aligned
		return t
	}
	t := e.tb.Var(n, w)
	e.vars = append(e.vars, t)
	return t
}

// Branch returns the direction to follow for condition c on this path.
func (e *Explorer) Branch(c *Term) bool {
	if c.IsConst() {
		return c.BoolVal()
	}
	if e.concrete {
		panic(fmt.Sprintf("concrete replay met symbolic condition %s", body(c)))
	}
	if c.Op == "not" {
		return !e.Branch(c.Args[0])
	}
	if v, ok := e.lookupKnown(c); ok {
		return v
	}
	e.ntriv = true
	if e.idx < len(e.prefix) {
		d := e.prefix[e.idx]
		e.idx++
		if d.kind != 'b' && d.kind != 'f' {
			panic(fmt.Sprintf("replay misaligned: expected branch, have %c at %d (%s)", d.kind, e.idx-1, e.entry))
		}
		cc := c
		if d.val == 0 {
			cc = e.tb.Not(c)
		}
		if d.kind == 'f' {
			e.known[c.ID] = d.val == 1
		} else {
			e.addPC(cc)
		}
		return d.val == 1
	}
	rT := e.s.CheckWith(c)
	tOK := rT != "unsat"
	fOK := true
	if tOK {
		rF := e.s.CheckWith(e.tb.Not(c))
		fOK = rF != "unsat"
		if rT != "sat" || (rF != "sat" && rF != "unsat") {
			e.noteUnknown("feasibility query: " + rT + "/" + rF)
		}
	}
	if !tOK && !fOK {
		e.abort("infeasible", "infeasible path")
	}
	if tOK && fOK {
		alt := append(append([]decision{}, e.prefix[:e.idx]...), decision{'b', 0})
		e.sh.pushWork(alt)
		e.prefix = append(e.prefix[:e.idx], decision{'b', 1})
		e.idx++
		e.addPC(c)
		return true
	}
	v := uint64(0)
	if tOK {
		v = 1
	}
	e.prefix = append(e.prefix[:e.idx], decision{'f', v})
	e.idx++
	e.known[c.ID] = tOK
	return tOK
}

func (e *Explorer) noteUnknown(what string) {
	e.sh.mu.Lock()
	e.sh.Notes["solver-unknown: "+what]++
	e.sh.mu.Unlock()
}

// Concretize a BV term: fork over all feasible values (at most limit).
func (e *Explorer) Concretize(t *Term, limit int) *Term {
	if t.IsConst() {
		return t
	}
	if e.concrete {
		panic("concrete replay met symbolic value")
	}
	e.ntriv = true
	if e.idx < len(e.prefix) {
		d := e.prefix[e.idx]
		e.idx++
		if d.kind != 'v' {
			panic(fmt.Sprintf("replay misaligned: expected value, have %c (%s)", d.kind, e.entry))
		}
		k := e.tb.Const(t.W, d.val)
		e.addPC(e.tb.Eq(t, k))
		return k
	}
	var vals []uint64
	lvl := e.s.Level()
	e.s.Push()
	complete := false
	for len(vals) <= limit {
		r, vs := e.s.CheckAndValues(nil, []*Term{t})
		if r == "unsat" {
			complete = true
			break
		}
		if r != "sat" {
			e.s.PopTo(lvl)
			e.abort("unsupported", "solver "+r+" while concretising")
		}
		v := vs[0].Uint64()
		vals = append(vals, v)
		e.s.Assert(e.tb.Not(e.tb.Eq(t, e.tb.Const(t.W, v))))
	}
	e.s.PopTo(lvl)
	if !complete {
		e.abort("bound", fmt.Sprintf("concretisation of a %d-bit value exceeds limit %d", t.W, limit))
	}
	if len(vals) == 0 {
		e.abort("infeasible", "infeasible path")
	}
	sort.Slice(vals, func(i, j int) bool { return vals[i] < vals[j] })
	for i := len(vals) - 1; i >= 1; i-- {
		alt := append(append([]decision{}, e.prefix[:e.idx]...), decision{'v', vals[i]})
		e.sh.pushWork(alt)
	}
	e.prefix = append(e.prefix[:e.idx], decision{'v', vals[0]})
	e.idx++
	k := e.tb.Const(t.W, vals[0])
	e.addPC(e.tb.Eq(t, k))
	return k
}

func (e *Explorer) Assume(c *Term) {
	if c.IsConst() {
		if !c.BoolVal() {
			e.abort("infeasible", "assume false")
		}
		return
	}
	if e.concrete {
		panic("concrete replay met symbolic assume")
	}
	if v, ok := e.lookupKnown(c); ok {
		if !v {
			e.abort("infeasible", "assume false")
		}
		return
	}
	if e.idx < len(e.prefix) {
		d := e.prefix[e.idx]
		e.idx++
		if d.kind != 'a' {
			panic(fmt.Sprintf("replay misaligned: expected assume, have %c (%s)", d.kind, e.entry))
		}
		e.addPC(c)
		return
	}
	if r := e.s.CheckWith(c); r == "unsat" {
		e.abort("infeasible", "assume infeasible")
	} else if r != "sat" {
		e.noteUnknown("assume: " + r)
	}
	e.prefix = append(e.prefix[:e.idx], decision{'a', 1})
	e.idx++
	e.addPC(c)
}

func (e *Explorer) Reach(label string) {
	if e.reachedP == nil {
		e.reachedP = map[string]bool{}
	}
	e.reachedP[label] = true
}

func (e *Explorer) Trace(s string) {
	if len(e.trace) < 400 {
		e.trace = append(e.trace, s)
	}
}

func (e *Explorer) modelStrings(ts []*Term, vals []*big.Int) map[string]string {
	m := map[string]string{}
	for i, t := range ts {
		m[t.Name] = vals[i].String()
	}
	return m
}

// Assert checks pc ⇒ c.
func (e *Explorer) Assert(label string, c *Term) {
	sh := e.sh
	sh.mu.Lock()
	sh.Asserts++
	sh.Labels[label]++
	sh.mu.Unlock()
	if e.concrete {
		if !c.IsConst() {
			panic("concrete replay: symbolic assertion")
		}
		if !c.BoolVal() && e.failed == "" {
			e.failed = label
		}
		if !c.BoolVal() {
			e.abort("stop", "assertion failed (concrete)")
		}
		return
	}
	if c.IsConst() && c.BoolVal() {
		sh.mu.Lock()
		sh.Trivial++
		sh.Discharge++
		sh.mu.Unlock()
		return
	}
	if v, ok := e.lookupKnown(c); ok && v {
		sh.mu.Lock()
		sh.Trivial++
		sh.Discharge++
		sh.mu.Unlock()
		return
	}
	e.ntriv = true
	neg := e.tb.Not(c)
	sh.mu.Lock()
	if len(sh.Scripts) < sh.maxScript {
		roots := append(append([]*Term{}, e.pc...), neg)
		sh.Scripts = append(sh.Scripts, standaloneScript(roots))
	}
	if len(e.pc) > sh.MaxPC {
		sh.MaxPC = len(e.pc)
	}
	sh.mu.Unlock()
	r, vals := e.s.CheckAndValues(neg, e.vars)
	switch r {
	case "unsat":
		sh.mu.Lock()
		sh.Discharge++
		if len(sh.Samples) < 3 {
			sh.Samples = append(sh.Samples, map[string]any{"entry": e.entry, "obligation": label, "path_decisions": decStr(e.prefix[:e.idx]), "path_condition_conjuncts": len(e.pc), "verdict": "unsat (holds for all values on this path)", "nondet_vars": len(e.vars)})
		}
		sh.mu.Unlock()
		e.known[c.ID] = true
	case "sat":
		cex := &Cex{Entry: e.entry, Label: label, Kind: "assert", Decisions: decStr(e.prefix[:e.idx]), Model: e.modelStrings(e.vars, vals), Trace: append([]string{}, e.trace...)}
		e.recordCex(cex)
		e.abort("stop", "assertion violated")
	default:
		sh.mu.Lock()
		sh.Unknown++
		sh.Notes["assertion query inconclusive ("+r+"): "+label]++
		sh.mu.Unlock()
	}
}

func (e *Explorer) recordCex(cex *Cex) {
	sh := e.sh
	sh.mu.Lock()
	defer sh.mu.Unlock()
	key := cex.Kind + "|" + cex.Label
	sh.cexSeen[key]++
	if sh.cexSeen[key] <= 2 && len(sh.Cexs) < 40 {
		sh.Cexs = append(sh.Cexs, cex)
	}
}

// PanicEscaped: a Go panic left the harness entry. Needs a model of the path for replay.
func (e *Explorer) PanicEscaped(msg string) {
	if e.concrete {
		if e.failed == "" {
			e.failed = "panic: " + msg
		}
		return
	}
	var model map[string]string
	if len(e.vars) > 0 {
		r, vals := e.s.CheckAndValues(nil, e.vars)
		if r == "sat" {
			model = e.modelStrings(e.vars, vals)
		}
	}
	cex := &Cex{Entry: e.entry, Label: "panic: " + msg, Kind: "panic", Decisions: decStr(e.prefix[:e.idx]), Model: model, Trace: append([]string{}, e.trace...)}
	e.recordCex(cex)
}

// runPath executes fn along the decision prefix p.
func (e *Explorer) runPath(p []decision, fn func()) {
	e.s.PopTo(0)
	e.s.Push()
	e.tb.Reset()
	e.prefix = append([]decision{}, p...)
	e.idx = 0
	e.pc = e.pc[:0]
	e.known = map[int]bool{}
	e.vars = e.vars[:0]
	e.steps = 0
	e.trace = e.trace[:0]
	e.ntriv = false
	e.reachedP = nil
	sh := e.sh
	func() {
		defer func() {
			if r := recover(); r != nil {
				if pa, ok := r.(pathAbort); ok {
					sh.mu.Lock()
					switch pa.kind {
					case "infeasible":
						sh.Infeas++
						e.reachedP = nil
					case "stop":
					default:
						sh.Aborted[pa.kind+": "+pa.reason]++
					}
					sh.mu.Unlock()
					return
				}
				panic(r)
			}
		}()
		fn()
	}()
	sh.mu.Lock()
	sh.Paths++
	if e.ntriv {
		sh.Nontriv[decStr(e.prefix[:e.idx])] = true
	}
	for l := range e.reachedP {
		sh.Reached[l]++
	}
	if sh.maxPaths > 0 && sh.Paths >= sh.maxPaths && !sh.stop {
		sh.stop = true
		sh.Aborted["bound: path limit reached"]++
		sh.cond.Broadcast()
	}
	if !sh.deadline.IsZero() && time.Now().After(sh.deadline) && !sh.stop {
		sh.stop = true
		sh.Aborted["bound: time limit reached"]++
		sh.cond.Broadcast()
	}
	sh.mu.Unlock()
}
